import ShroudVerif.Lemmas.Lines
import ShroudVerif.Gen.LineCfg
/-!
# C13  Line wrapping never alters code and respects the line limit

Property theorems only (helpers live in `Lemmas/Lines.lean`).  All statements
quantify over every logical line, every `linelen`, every indentation depth,
every indentation unit and every continuation marker.
-/
namespace Shroud.Lines

def notHint (c : Char) : Bool := c ≠ TAB ∧ c ≠ FF
def nonSpace (c : Char) : Bool := !isPySpace c

/-- The logical text handed to the fill loop: the line without its optional
    leading CR. -/
def logicalRest (line : List Char) : List Char := (crSplit line).2
def contIndent (c : Cfg) (line : List Char) : List Char :=
  nspaces c.spaces (c.indent + (crSplit line).1)

/-- **(3) break points.**  The parts the line is cut into are exactly the
    maximal hint-free segments: concatenated they give the line with TAB/FF
    removed, none is empty and none contains a hint.  Since lines are built
    from whole parts (`wc_grouping`), a break can only fall where a TAB or FF
    stood. -/
theorem wc_parts_are_hint_free_segments (line : List Char) :
    (textParts (splitParts [] (logicalRest line))).flatten
        = (logicalRest line).filter (fun c => c ≠ TAB ∧ c ≠ FF)
    ∧ ∀ s ∈ textParts (splitParts [] (logicalRest line)),
        s ≠ [] ∧ ∀ c ∈ s, c ≠ TAB ∧ c ≠ FF :=
  ⟨by simpa using splitParts_flatten (logicalRest line) [],
   splitParts_hint_free (logicalRest line) [] (by simp)⟩

/-- **(1),(4) grouping.**  There is an assignment of the parts, in order and
    without loss or duplication, to the physical lines such that every line is
    its indentation followed by the concatenation of its parts, where only
    whitespace in front of the first part of a continuation line was removed
    (never on the first line); and every line fits `linelen` unless it carries
    at most one part (no break point could help). -/
theorem wc_grouping (c : Cfg) (line : List Char) :
    ∃ b0 bs g0 gs,
      wcBodies c line = b0 :: bs ∧
      LineOK c.linelen (nspaces c.spaces c.indent) true b0 g0 ∧
      All2 (LineOK c.linelen (contIndent c line) false) bs gs ∧
      ((g0 :: gs).map (·.parts)).flatten = textParts (splitParts [] (logicalRest line)) := by
  have h0 : LineOK c.linelen (nspaces c.spaces c.indent) true (nspaces c.spaces c.indent) ⟨[], [], []⟩ :=
    ⟨by simp, by simp, by simp, by simp, Or.inr (by simp)⟩
  obtain ⟨b0, bs, g0, gs, e1, _, l0, lr, fl⟩ :=
    fill_spec c.linelen (contIndent c line) (splitParts [] (logicalRest line))
      (nspaces c.spaces c.indent) ⟨[], [], []⟩ (nspaces c.spaces c.indent) true h0
  exact ⟨b0, bs, g0, gs, by simpa [wcBodies, contIndent, logicalRest] using e1, l0, lr, by simpa using fl⟩

/-- the length clause of `wc_grouping`, spelled out per physical line -/
theorem wc_length (c : Cfg) (line : List Char) :
    ∃ gs : List Grp, gs.length = (wcBodies c line).length ∧
      ∀ (j : Nat) (h1 : j < (wcBodies c line).length) (h2 : j < gs.length),
        ((wcBodies c line)[j]).length ≤ c.linelen ∨ (gs[j]).saved.length ≤ 1 := by
  obtain ⟨b0, bs, g0, gs, e, l0, lr, _⟩ := wc_grouping c line
  refine ⟨g0 :: gs, by simp [e, lr.length_eq], ?_⟩
  intro j h1 h2
  cases j with
  | zero => simpa [e] using l0.len_ok
  | succ k =>
    have hk1 : k < bs.length := by simpa [e] using h1
    have hk2 : k < gs.length := by simpa using h2
    have := (lr.get k hk1 hk2).len_ok
    simpa [e] using this

private theorem filter_nonSpace_of_all_space (s : List Char) (h : ∀ c ∈ s, isPySpace c = true) :
    s.filter nonSpace = [] := by
  simp only [List.filter_eq_nil_iff, nonSpace]
  intro c hc; simp [h c hc]

private theorem nspaces_filter (sp : List Char) (h : ∀ c ∈ sp, isPySpace c = true) (n : Int) :
    (nspaces sp n).filter nonSpace = [] := by
  apply filter_nonSpace_of_all_space
  intro c hc
  simp only [nspaces, List.mem_flatten, List.mem_replicate] at hc
  obtain ⟨l, ⟨_, rfl⟩, hc⟩ := hc
  exact h c hc

private theorem lstrip_filter (s : List Char) : (lstrip s).filter nonSpace = s.filter nonSpace := by
  unfold lstrip
  induction s with
  | nil => rfl
  | cons a t ih =>
    simp only [List.dropWhile_cons]
    split
    · rename_i h; simp [List.filter_cons, nonSpace, h, ih]
    · rfl

private theorem fill_filter (linelen : Nat) (ci : List Char) (hci : ci.filter nonSpace = []) :
    ∀ (ps : List Part) (sub : List Char) (n : Nat),
      (fill linelen ci sub n ps).flatten.filter nonSpace
        = sub.filter nonSpace ++ (textParts ps).flatten.filter nonSpace := by
  intro ps
  induction ps with
  | nil => intro sub n; simp [fill, textParts]
  | cons p ps ih =>
    intro sub n
    cases p with
    | ff => simp [fill, textParts, ih, hci]
    | text s =>
      simp only [fill]
      split
      · split
        · rename_i hemp
          have : s.filter nonSpace = [] := by
            rw [← lstrip_filter]; simp at hemp; simp [hemp]
          simp [textParts, ih, hci, this]
        · simp [textParts, ih, hci, lstrip_filter]
      · simp [textParts, ih]

/-- **(1) text preservation.**  With an indentation unit made of whitespace,
    erasing whitespace from the joined physical lines gives exactly the logical
    line with whitespace and break hints erased: no character is lost,
    duplicated, reordered or invented. -/
theorem wc_text_preserved (c : Cfg) (line : List Char)
    (hsp : ∀ ch ∈ c.spaces, isPySpace ch = true) :
    (wcBodies c line).flatten.filter nonSpace = line.filter nonSpace := by
  unfold wcBodies
  rw [fill_filter _ _ (nspaces_filter _ hsp _), nspaces_filter _ hsp, List.nil_append,
      splitParts_flatten]
  simp only [List.nil_append, List.filter_filter]
  have hT : isPySpace TAB = true := by decide
  have hF : isPySpace FF = true := by decide
  have hC : isPySpace CR = true := by decide
  have key : ∀ l : List Char,
      l.filter (fun a => nonSpace a && decide (a ≠ TAB ∧ a ≠ FF)) = l.filter nonSpace := by
    intro l
    apply List.filter_congr
    intro a _
    by_cases h1 : a = TAB
    · subst h1; simp [nonSpace, hT]
    · by_cases h2 : a = FF
      · subst h2; simp [nonSpace, hF]
      · simp [h1, h2]
  rw [key]
  cases line with
  | nil => rfl
  | cons a t =>
    simp only [crSplit]
    split
    · rename_i h; subst h; simp [List.filter_cons, nonSpace, hC]
    · rfl

/-- **(2) continuation markers.**  Rendering appends the marker to every
    physical line except the last and leaves the last untouched. -/
theorem render_markers (cont : List Char) (bodies : List (List Char)) :
    (render cont bodies).length = bodies.length ∧
    ∀ (i : Nat) (h1 : i < (render cont bodies).length) (h2 : i < bodies.length),
      (render cont bodies)[i] = if i + 1 < bodies.length then bodies[i] ++ cont else bodies[i] := by
  induction bodies with
  | nil => simp [render]
  | cons b bs ih =>
    cases bs with
    | nil =>
      refine ⟨by simp [render], ?_⟩
      intro i h1 h2
      have : i = 0 := by simpa [render] using h1
      subst this; simp [render]
    | cons b' bs' =>
      refine ⟨by simp [render, ih.1], ?_⟩
      intro i h1 h2
      cases i with
      | zero => simp [render]
      | succ k =>
        have := ih.2 k (by simpa [render] using h1) (by simpa using h2)
        simpa [render] using this

/-! ### `write_lines` directives -/

/-- A plain subline (no directive in column one, no trailing `+`) is passed to
    `write_continue` unchanged at the current indentation and leaves the
    indentation state alone. -/
theorem wl_plain_line (linelen : Nat) (spaces cont : List Char) (i : Int) (c : Char) (cs : List Char)
    (h1 : c ≠ '#') (h2 : c ≠ '@') (h3 : c ≠ '^') (h4 : c ≠ '+') (h5 : c ≠ '-')
    (h6 : (c :: cs).getLast? ≠ some '+') :
    subline linelen spaces cont i (c :: cs)
      = .ok ⟨render cont (wcBodies { linelen, indent := i, spaces } (c :: cs)), i⟩ := by
  simp [subline, h1, h2, h3, h4, dropDashes, h5, h6, wcAt, writeContinue]

/-- `@text`: only the `@` is removed; everything after it – including further
    directive characters – is emitted as text, and the indentation is unchanged. -/
theorem wl_literal_line (linelen : Nat) (spaces cont : List Char) (i : Int) (c : Char) (cs : List Char) :
    subline linelen spaces cont i ('@' :: c :: cs)
      = .ok ⟨render cont (wcBodies { linelen, indent := i, spaces } (c :: cs)), i⟩ := by
  simp [subline, wcAt, writeContinue]

/-- `#…` and `^…` lines bypass wrapping: `#` lines are written verbatim,
    `^` lines lose only the `^`. -/
theorem wl_column_one (linelen : Nat) (spaces cont : List Char) (i : Int) (cs : List Char) :
    subline linelen spaces cont i ('#' :: cs) = .ok ⟨['#' :: cs], i⟩ ∧
    subline linelen spaces cont i ('^' :: cs) = .ok ⟨[cs], i⟩ := by
  constructor <;> simp [subline]

/-- Integer items only move the indentation state: the state after a run of
    deltas is the running sum, and nothing is written. -/
theorem wl_indent_sum (linelen : Nat) (spaces cont : List Char) (i : Int) (ds : List Int) :
    writeLines linelen spaces cont i (ds.map Item.delta) = .ok ⟨[], i + ds.foldl (· + ·) 0⟩ := by
  induction ds generalizing i with
  | nil => simp [writeLines]
  | cons d ds ih =>
    simp only [List.map_cons, writeLines, ih, List.foldl_cons]
    have : ∀ (a : Int) (l : List Int), l.foldl (· + ·) a = a + l.foldl (· + ·) 0 := by
      intro a l
      induction l generalizing a with
      | nil => simp
      | cons x xs ihx => simp only [List.foldl_cons]; rw [ihx (a + x), ihx (0 + x)]; omega
    rw [this (0 + d)]
    congr 2; omega

/-- **no internal failure, for every input.**  `write_continue` and
    `write_lines` never raise on any item list (before the `fix:` commit the
    lines `"@"`, `"+"`, `"-"`, `"+-"` raised `IndexError`). -/
theorem wl_total (linelen : Nat) (spaces cont : List Char) (i : Int) (items : List Item) :
    ∃ w, writeLines linelen spaces cont i items = .ok w := by
  have hsub : ∀ (i : Int) (s : List Char), ∃ w, subline linelen spaces cont i s = .ok w := by
    intro i s
    unfold subline
    cases s with
    | nil => exact ⟨_, rfl⟩
    | cons c cs =>
      simp only [wcAt, writeContinue]
      repeat' split
      all_goals first | exact ⟨_, rfl⟩ | simp_all
  have hsubs : ∀ (ss : List (List Char)) (i : Int), ∃ w, sublines linelen spaces cont i ss = .ok w := by
    intro ss
    induction ss with
    | nil => intro i; exact ⟨_, rfl⟩
    | cons s ss ih =>
      intro i
      obtain ⟨w, hw⟩ := hsub i s
      obtain ⟨w', hw'⟩ := ih w.indent
      exact ⟨⟨w.lines ++ w'.lines, w'.indent⟩, by simp [sublines, hw, hw']⟩
  induction items generalizing i with
  | nil => exact ⟨_, rfl⟩
  | cons it rest ih =>
    cases it with
    | delta d => simpa [writeLines] using ih (i + d)
    | str s =>
      obtain ⟨w, hw⟩ := hsubs (splitNL [] s) i
      obtain ⟨w', hw'⟩ := ih w.indent
      exact ⟨⟨w.lines ++ w'.lines, w'.indent⟩, by simp [writeLines, hw, hw']⟩

/-- the former crash inputs now produce one indentation-only line -/
theorem wl_empty_body_ok :
    subline 72 "    ".toList "&".toList 1 "@".toList = .ok ⟨["    ".toList], 1⟩ ∧
    subline 72 "    ".toList "&".toList 0 "+".toList = .ok ⟨["    ".toList], 1⟩ ∧
    subline 72 "    ".toList "&".toList 1 "-".toList = .ok ⟨[[]], 0⟩ := by
  decide

/-! ### the 132-column consequence for Fortran -/

/-- With continuation marker `cont`, every written physical line is at most
    `linelen + cont.length` columns long, unless it carries at most one part
    (no break point could help). -/
theorem rendered_line_limit (c : Cfg) (cont line : List Char) :
    ∃ gs : List Grp, gs.length = (render cont (wcBodies c line)).length ∧
      ∀ (j : Nat) (h1 : j < (render cont (wcBodies c line)).length) (h2 : j < gs.length),
        ((render cont (wcBodies c line))[j]).length ≤ c.linelen + cont.length ∨ (gs[j]).saved.length ≤ 1 := by
  obtain ⟨gs, hlen, hgs⟩ := wc_length c line
  have hr := render_markers cont (wcBodies c line)
  refine ⟨gs, by rw [hlen, hr.1], ?_⟩
  intro j h1 h2
  have hj : j < (wcBodies c line).length := by rw [← hr.1]; exact h1
  rcases hgs j hj h2 with h | h
  · left
    rw [hr.2 j h1 hj]
    split
    · simp only [List.length_append]; omega
    · omega
  · right; exact h

/-- **table theorem** (regenerated from the working tree): the C, Python and Lua
    emitters take their line length from `C_line_length` and use no continuation
    marker; the Fortran emitter takes `F_line_length` and the marker `" &"`; and
    the default `F_line_length` plus the marker stays within Fortran's 132 columns. -/
theorem emitter_line_config :
    Shroud.Gen.LineCfg.emitterLineCfg = [(0, 0, 0, []), (1, 1, 0, [32, 38]), (2, 0, 0, []), (3, 0, 0, [])] ∧
    Shroud.Gen.LineCfg.lineLengthDefaults.2 + 2 ≤ 132 := by decide +kernel

/-- the line length the property speaks about: the language's own option (emitter 1 is Fortran) -/
def nominalLen (e cLen fLen : Nat) : Nat := if e = 1 then fLen else cLen
/-- the language's continuation marker -/
def nominalCont (e : Nat) : List Char := if e = 1 then " &".toList else []

/-- **emitter configuration composed with `write_continue`** (table regenerated from the working tree): what an
    emitter writes for a logical line is `write_continue` at exactly the value of the language's own option - nothing
    is added to or taken from the option on the way from `__init__` to the fill loop - with the language's marker. -/
theorem emitter_respects_option (e cLen fLen : Nat) (he : e < 4) (indent : Int) (spaces line : List Char) :
    emitterWrite Shroud.Gen.LineCfg.emitterLineCfg e cLen fLen indent spaces line
      = some (render (nominalCont e) (wcBodies ⟨nominalLen e cLen fLen, indent, spaces⟩ line)) := by
  have h : e = 0 ∨ e = 1 ∨ e = 2 ∨ e = 3 := by omega
  rcases h with rfl | rfl | rfl | rfl <;>
    simp [emitterWrite, emitterCfg, optValue, Shroud.Gen.LineCfg.emitterLineCfg, nominalLen, nominalCont, List.find?]

/-- consequently every physical line an emitter writes is within the OPTION's value plus the marker, unless it holds
    a single part (no break point could help); this is the bound judged against the option, not against `self.linelen` -/
theorem emitter_line_limit (e cLen fLen : Nat) (he : e < 4) (indent : Int) (spaces line : List Char) :
    ∃ phys, emitterWrite Shroud.Gen.LineCfg.emitterLineCfg e cLen fLen indent spaces line = some phys ∧
      ∃ gs : List Grp, gs.length = phys.length ∧
        ∀ (j : Nat) (h1 : j < phys.length) (h2 : j < gs.length),
          (phys[j]).length ≤ nominalLen e cLen fLen + (nominalCont e).length ∨ (gs[j]).saved.length ≤ 1 :=
  ⟨_, emitter_respects_option e cLen fLen he indent spaces line,
    rendered_line_limit ⟨nominalLen e cLen fLen, indent, spaces⟩ (nominalCont e) line⟩

example : emitterWrite Shroud.Gen.LineCfg.emitterLineCfg 1 72 8 0 "    ".toList "ab,\t cd,\t ef".toList
          = some ["ab, cd, &".toList, "    ef".toList] := by decide +kernel

/-- **no history.**  In any sequence of calls (one instance or several, one process), the result of a call is the
    result of that call alone: the layout of a line does not depend on lines written, or line lengths used, before. -/
theorem wc_history_free (pre post : List (Cfg × List Char × List Char)) (c : Cfg) (cont line : List Char) :
    (wcSession (pre ++ (c, cont, line) :: post))[pre.length]? = some (render cont (wcBodies c line)) := by
  simp [wcSession]

example : wcSession [(⟨80, 0, "    ".toList⟩, "&".toList, "ab,\t cd".toList), (⟨4, 0, "    ".toList⟩, "&".toList, "ab,\t cd".toList)]
          = [["ab, cd".toList], ["ab,&".toList, "    cd".toList]] := by decide +kernel


/-! ### non-vacuity -/

example : wcBodies ⟨8, 0, "    ".toList⟩ "ab,\t cd,\t ef".toList
          = ["ab, cd,".toList, "    ef".toList] := by decide

example : wcBodies ⟨4, 1, "  ".toList⟩ "\rx\t  \ty".toList
          = ["  x".toList, "      y".toList] := by decide

end Shroud.Lines

namespace Shroud.Lines

/-! ### `write_lines`: the model equals the documented directive table, for every subline -/

/-- the text a subline contributes according to the docstring of `write_lines`:
    `#…` verbatim, `@text` → `text`, `^text` → `text`, `+text[-]` → `text`,
    `[-]*text[+]` → `text` -/
def docBody (s : List Char) : List Char :=
  match s with
  | [] => []
  | c :: cs =>
    if c = '#' then s
    else if c = '@' then cs
    else if c = '^' then cs
    else if c = '+' then (if s.getLast? = some '-' then cs.dropLast else cs)
    else
      let r := s.dropWhile (· = '-')
      if r.getLast? = some '+' then r.dropLast else r

/-- indentation used for the subline and indentation afterwards -/
def docIndent (i : Int) (s : List Char) : Int × Int :=
  match s with
  | [] => (i, i)
  | c :: _ =>
    if c = '#' ∨ c = '@' ∨ c = '^' then (i, i)
    else if c = '+' then (i + 1, if s.getLast? = some '-' then i else i + 1)
    else
      let n : Int := (s.takeWhile (· = '-')).length
      let r := s.dropWhile (· = '-')
      (i - n, if r.getLast? = some '+' then i - n + 1 else i - n)

/-- is the subline written raw (no wrapping, no indentation)? -/
def docRaw (s : List Char) : Bool :=
  match s with
  | [] => true
  | c :: _ => c = '#' || c = '^'

theorem dropDashes_eq (s : List Char) (i : Int) :
    dropDashes s i = (s.dropWhile (· = '-'), i - ((s.takeWhile (· = '-')).length : Int)) := by
  induction s generalizing i with
  | nil => simp [dropDashes]
  | cons c cs ih =>
    simp only [dropDashes]
    by_cases h : c = '-'
    · subst h
      simp only [if_true, ih, List.dropWhile_cons, List.takeWhile_cons, decide_true, if_true, List.length_cons]
      congr 1
      simp only [Int.natCast_add, Int.natCast_one]
      omega
    · simp [h]

/-- **(5) directives steer layout only**: for every subline and indentation
    state, `write_lines` writes the documented body – raw for `#`/`^` lines and
    empty lines, otherwise through `write_continue` at the documented
    indentation – and leaves the documented indentation state.  No directive
    character reaches the output and no other character is removed. -/
theorem wl_subline_spec (linelen : Nat) (spaces cont : List Char) (i : Int) (s : List Char) :
    subline linelen spaces cont i s =
      .ok ⟨if docRaw s then [docBody s]
           else render cont (wcBodies { linelen, indent := (docIndent i s).1, spaces } (docBody s)),
           (docIndent i s).2⟩ := by
  cases s with
  | nil => simp [subline, docRaw, docBody, docIndent]
  | cons c cs =>
    by_cases h1 : c = '#'
    · subst h1; simp [subline, docRaw, docBody, docIndent]
    by_cases h2 : c = '@'
    · subst h2; simp [subline, docRaw, docBody, docIndent, wcAt, writeContinue]
    by_cases h3 : c = '^'
    · subst h3; simp [subline, docRaw, docBody, docIndent]
    by_cases h4 : c = '+'
    · subst h4
      by_cases hl : ('+' :: cs).getLast? = some '-'
      · simp [subline, docRaw, docBody, docIndent, wcAt, writeContinue, hl]
      · simp [subline, docRaw, docBody, docIndent, wcAt, writeContinue, hl]
    · have hraw : docRaw (c :: cs) = false := by simp [docRaw, h1, h3]
      simp only [subline, h1, h2, h3, h4, if_false, dropDashes_eq, hraw, Bool.false_eq_true,
        docBody, docIndent, or_self, wcAt, writeContinue]
      by_cases hl : ((c :: cs).dropWhile (· = '-')).getLast? = some '+'
      · simp [hl]
      · simp [hl]

example : docBody "@-x".toList = "-x".toList ∧ docBody "--y+".toList = "y".toList ∧
    docBody "+z-".toList = "z".toList ∧ docIndent 3 "--y+".toList = (1, 2) := by decide

end Shroud.Lines

namespace Shroud.Lines

/-! ### user supplied lines (splicers) are protected from the directive reader -/

/-- **(6) user text is never read as a directive**: for EVERY user line `s` - whatever it starts or ends with -
    the line `_literal_lines` hands to `write_lines` has the documented body `s` itself, is written at the current
    indentation, and leaves the indentation state unchanged.  With `wl_subline_spec`: no character of a user
    line is removed or reinterpreted, and it cannot shift the layout of the lines after it. -/
theorem user_line_protected (i : Int) (s : List Char) :
    docBody (protect s) = s ∧ docIndent i (protect s) = (i, i) := by
  cases s with
  | nil => simp [protect, docBody, docIndent]
  | cons c cs =>
    by_cases h1 : c = '#'
    · subst h1; simp [protect, docBody, docIndent]
    by_cases hd : (c = '@' ∨ c = '^' ∨ c = '+' ∨ c = '-' ∨ (c :: cs).getLast? = some '+')
    · have : protect (c :: cs) = '@' :: c :: cs := by simp [protect, h1, hd]
      rw [this]; simp [docBody, docIndent]
    · have hp : protect (c :: cs) = c :: cs := by simp [protect, hd]
      rw [hp]
      have h2 : c ≠ '@' := fun h => hd (Or.inl h)
      have h3 : c ≠ '^' := fun h => hd (Or.inr (Or.inl h))
      have h4 : c ≠ '+' := fun h => hd (Or.inr (Or.inr (Or.inl h)))
      have h5 : c ≠ '-' := fun h => hd (Or.inr (Or.inr (Or.inr (Or.inl h))))
      have h6 : (c :: cs).getLast? ≠ some '+' := fun h => hd (Or.inr (Or.inr (Or.inr (Or.inr h))))
      simp [docBody, docIndent, h1, h2, h3, h4, h5, h6]

/-- so the emitted lines for a protected user line are exactly those of its own text at the current indentation -/
theorem user_line_emitted (linelen : Nat) (spaces cont : List Char) (i : Int) (s : List Char) :
    subline linelen spaces cont i (protect s) =
      .ok ⟨if docRaw (protect s) then [s] else render cont (wcBodies { linelen, indent := i, spaces } s), i⟩ := by
  rw [wl_subline_spec]
  have h := user_line_protected i s
  rw [h.1, h.2]

/-- an unprotected directive-looking line loses characters (why `_literal_lines` is needed): witness -/
theorem unprotected_line_loses_text : docBody "- third;".toList ≠ "- third;".toList ∧
    docBody "x = first +".toList ≠ "x = first +".toList := by decide

/-- **table theorem** (regenerated AST scan of `util._create_splicer`): both sources of user lines - the
    declaration-level `splicer:` (force) and splicer files / `splicer_code` (user) - pass through `_literal_lines`;
    generated default bodies, which use directives on purpose, do not -/
theorem splicer_branches_protect_user_code :
    Shroud.Gen.LineCfg.splicerBranches = modelSplicerBranches := by decide +kernel

/-- **table theorem** (regenerated AST scan of wrapf.py): every comma-separated list the Fortran emitter builds inside a
    statement - dummy and actual arguments, USE only-lists, IMPORT lists, PRIVATE lists - is joined with a break hint,
    so `write_continue` can always continue it (`wc_length` then bounds the line); and there are such lists -/
theorem fortran_lists_have_break_hints :
    Shroud.Gen.LineCfg.fortranListJoins.all (·.2) = true ∧ Shroud.Gen.LineCfg.fortranListJoins.length ≥ 6 := by
  decide +kernel

/-- **table theorem** (regenerated from `statements.fc_statements`): every Fortran executable-statement template of an
    ARGUMENT entry that carries two or more argument-derived names (`{f_var}`, `{c_var}`, `{c_var_context}`, ...) has a break
    hint, so it can be continued; result entries are exempt because their names are generated constants -/
theorem fortran_statement_templates_can_be_continued :
    Shroud.Gen.LineCfg.fStatementLines.all (fun r => decide (r.2.2.2.1 < 2) || r.2.2.2.2.1 || r.2.2.2.2.2) = true ∧
    (Shroud.Gen.LineCfg.fStatementLines.filter (fun r => decide (2 ≤ r.2.2.2.1) && r.2.2.2.2.1)).length ≥ 10 := by
  decide +kernel

/-- **table theorem** (regenerated AST scan of wrapf.py): every `name => specific` binding the Fortran emitter writes
    (type-bound procedures, type-bound generics) can be continued after the arrow -/
theorem fortran_bindings_can_be_continued :
    Shroud.Gen.LineCfg.fortranArrowLiterals.all (·.2) = true ∧ Shroud.Gen.LineCfg.fortranArrowLiterals.length ≥ 6 := by
  decide +kernel

example : protect "- third;".toList = "@- third;".toList ∧ protect "#if X +".toList = "#if X +".toList ∧
    protect "a = b +".toList = "@a = b +".toList ∧ protect "plain".toList = "plain".toList := by decide

end Shroud.Lines

namespace Shroud.Lines

/-! ### whole files: `write_output_file` -/

/-- Every file starts with a header made of comment lines only (file name,
    generator/version stamp, copyright), each beginning with the language's
    comment leader, followed by exactly what `write_lines` emits for the
    output list at indentation 0 – for every output list, version string and
    copyright block.  (The version stamp therefore only ever changes a comment: C16.) -/
theorem wof_header_then_body (comment fname version : List Char) (copyright : List (List Char))
    (linelen : Nat) (spaces cont : List Char) (output : List Item) :
    ∃ hdr w, writeLines linelen spaces cont 0 output = .ok w ∧
      writeOutputFile comment fname version copyright linelen spaces cont output = .ok (hdr ++ w.lines) ∧
      hdr.length = 2 + copyright.length ∧ ∀ l ∈ hdr, comment <+: l := by
  obtain ⟨w, hw⟩ := wl_total linelen spaces cont 0 output
  refine ⟨(comment ++ ' ' :: fname)
      :: (comment ++ " This file is generated by Shroud ".toList ++ version ++ ". Do not edit.".toList)
      :: copyrightLines comment copyright, w, hw, ?_, ?_, ?_⟩
  · simp [writeOutputFile, hw]
  · have : ∀ cs : List (List Char), (copyrightLines comment cs).length = cs.length := by
      intro cs; induction cs with
      | nil => rfl
      | cons c cs ih => simp [copyrightLines, ih]
    simp [this]; omega
  · intro l hl
    simp only [List.mem_cons] at hl
    rcases hl with rfl | rfl | hl
    · exact List.prefix_append _ _
    · rw [List.append_assoc, List.append_assoc]; exact List.prefix_append _ _
    · induction copyright with
      | nil => simp [copyrightLines] at hl
      | cons c cs ih =>
        simp only [copyrightLines, List.mem_cons] at hl
        rcases hl with rfl | hl
        · split
          · exact List.prefix_refl _
          · exact List.prefix_append _ _
        · exact ih hl

end Shroud.Lines
