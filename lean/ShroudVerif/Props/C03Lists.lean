import ShroudVerif.Model.PyList
/-!
# C03 list-mode conversion helpers

Theorems over `Model/PyList.lean` for all item lists and all element converters: every item is converted, in
order; the first item the converter rejects gives `TypeError` naming its index and nothing stays allocated;
on success exactly one block is left, owned by the capsule handed to the caller.  The model is tied to the
helper text of the working tree by `tools/props/c03.py` (the generated helpers are compiled with counting
`malloc`/`free` and driven with lists, tuples, bad items at every index, empty and non-iterable arguments).
-/
namespace Shroud.PyList

variable {α β : Type}

theorem convertFrom_ok (conv : α → Option β) (f : α → β) :
    ∀ (items : List α) (i : Nat) (acc : List β), (∀ a ∈ items, conv a = some (f a)) →
    convertFrom conv i items acc = .ok (acc.reverse ++ items.map f) := by
  intro items
  induction items with
  | nil => intro i acc _; simp [convertFrom]
  | cons a r ih =>
    intro i acc h
    have ha := h a (List.mem_cons_self ..)
    simp only [convertFrom, ha]
    rw [ih (i + 1) (f a :: acc) (fun x hx => h x (List.mem_cons_of_mem _ hx))]
    simp

theorem convertFrom_error (conv : α → Option β) (f : α → β) :
    ∀ (pre : List α) (a : α) (post : List α) (i : Nat) (acc : List β),
    (∀ x ∈ pre, conv x = some (f x)) → conv a = none →
    convertFrom conv i (pre ++ a :: post) acc = .error (i + pre.length) := by
  intro pre
  induction pre with
  | nil => intro a post i acc _ ha; simp [convertFrom, ha]
  | cons p r ih =>
    intro a post i acc h ha
    have hp := h p (List.mem_cons_self ..)
    simp only [List.cons_append, convertFrom, hp]
    rw [ih a post (i + 1) (f p :: acc) (fun x hx => h x (List.mem_cons_of_mem _ hx)) ha]
    simp only [List.length_cons]
    congr 1; omega

/-- **Every item converted, in order**: a sequence whose items the element converter accepts becomes the C
array of the converted items (same length, same order); the `PySequence_Fast` reference is released and the
one allocated block is owned by the capsule in `value.dataobj`. -/
theorem getList_converts_in_order (conv : α → Option β) (f : α → β) (items : List α)
    (h : ∀ a ∈ items, conv a = some (f a)) :
    getFromObjectList conv (.seq items) = .ok (items.map f) ⟨0, 1, 0⟩ := by
  simp [getFromObjectList, convertFrom_ok conv f items 0 [] h]

/-- **A non-convertible item gives TypeError and frees what was allocated**: the error names the index of
the first rejected item; no block and no reference is left. -/
theorem getList_bad_item (conv : α → Option β) (f : α → β) (pre : List α) (a : α) (post : List α)
    (hpre : ∀ x ∈ pre, conv x = some (f x)) (ha : conv a = none) :
    getFromObjectList conv (.seq (pre ++ a :: post)) = .typeError (.badItem pre.length) ⟨0, 0, 0⟩ := by
  simp [getFromObjectList, convertFrom_error conv f pre a post 0 [] hpre ha]

/-- a non-iterable argument gives TypeError before anything is allocated. -/
theorem getList_not_iterable (conv : α → Option β) (v : α) :
    getFromObjectList conv (.atom v) = .typeError .notIterable ⟨0, 0, 0⟩ := rfl

theorem convertFrom_ok' (conv : α → Option β) :
    ∀ (items : List α) (i : Nat) (acc : List β), (∀ a ∈ items, (conv a).isSome = true) →
    convertFrom conv i items acc = .ok (acc.reverse ++ items.filterMap conv) ∧
      (items.filterMap conv).length = items.length := by
  intro items
  induction items with
  | nil => intro i acc _; simp [convertFrom]
  | cons a r ih =>
    intro i acc h
    have ha := h a (List.mem_cons_self ..)
    cases hc : conv a with
    | none => simp [hc] at ha
    | some b =>
      have := ih (i + 1) (b :: acc) (fun x hx => h x (List.mem_cons_of_mem _ hx))
      simp only [convertFrom, hc, this.1, List.filterMap_cons, List.length_cons, this.2]
      simp

theorem convertFrom_error' (conv : α → Option β) :
    ∀ (pre : List α) (a : α) (post : List α) (i : Nat) (acc : List β),
    (∀ x ∈ pre, (conv x).isSome = true) → conv a = none →
    convertFrom conv i (pre ++ a :: post) acc = .error (i + pre.length) := by
  intro pre
  induction pre with
  | nil => intro a post i acc _ ha; simp [convertFrom, ha]
  | cons p r ih =>
    intro a post i acc h ha
    have hp := h p (List.mem_cons_self ..)
    cases hc : conv p with
    | none => simp [hc] at hp
    | some b =>
      simp only [List.cons_append, convertFrom, hc]
      rw [ih a post (i + 1) (b :: acc) (fun x hx => h x (List.mem_cons_of_mem _ hx)) ha]
      simp only [List.length_cons]
      congr 1; omega

/-- split a list at the first item the converter rejects. -/
theorem first_bad (conv : α → Option β) : ∀ (items : List α), (∀ a ∈ items, (conv a).isSome = true) ∨
    ∃ pre a post, items = pre ++ a :: post ∧ (∀ x ∈ pre, (conv x).isSome = true) ∧ conv a = none := by
  intro items
  induction items with
  | nil => exact Or.inl (by simp)
  | cons a r ih =>
    cases ha : conv a with
    | none => exact Or.inr ⟨[], a, r, by simp, by simp, ha⟩
    | some b =>
      rcases ih with h | ⟨pre, x, post, he, hp, hx⟩
      · refine Or.inl ?_
        intro y hy
        rcases List.mem_cons.mp hy with rfl | hy
        · simp [ha]
        · exact h y hy
      · refine Or.inr ⟨a :: pre, x, post, by simp [he], ?_, hx⟩
        intro y hy
        rcases List.mem_cons.mp hy with rfl | hy
        · simp [ha]
        · exact hp y hy

/-- **No third way out**: for every sequence the helper either returns an array of the same length, leaving
exactly the capsule-owned block, or raises `TypeError` for an index inside the sequence, leaving nothing. -/
theorem getList_total (conv : α → Option β) (items : List α) :
    (∃ arr, getFromObjectList conv (.seq items) = .ok arr ⟨0, 1, 0⟩ ∧ arr.length = items.length) ∨
    (∃ i, i < items.length ∧ getFromObjectList conv (.seq items) = .typeError (.badItem i) ⟨0, 0, 0⟩) := by
  rcases first_bad conv items with h | ⟨pre, a, post, he, hp, ha⟩
  · have := convertFrom_ok' conv items 0 [] h
    exact Or.inl ⟨items.filterMap conv, by simp [getFromObjectList, this.1], this.2⟩
  · subst he
    refine Or.inr ⟨pre.length, by simp, ?_⟩
    simp [getFromObjectList, convertFrom_error' conv pre a post 0 [] hp ha]

/-- **Every value converts**: whether a sequence is accepted depends only on the classes of its items; every
payload - also -1, 0, the smallest and the largest value - arrives unchanged, in order. -/
theorem getList_every_value_converts (accepts : List Nat) (items : List (Nat × Nat))
    (h : ∀ a ∈ items, accepts.contains a.1 = true) :
    getFromObjectList (classConv accepts) (.seq items) = .ok (items.map (·.2)) ⟨0, 1, 0⟩ :=
  getList_converts_in_order (classConv accepts) (·.2) items (fun a ha => by have := h a ha; simp only [classConv, this, if_true])

/-- the verdict on a sequence does not depend on the payloads at all. -/
theorem getList_verdict_value_independent (accepts : List Nat) (items items' : List (Nat × Nat))
    (h : items.map (·.1) = items'.map (·.1)) :
    (∃ arr h1, getFromObjectList (classConv accepts) (.seq items) = .ok arr h1) ↔
    (∃ arr h1, getFromObjectList (classConv accepts) (.seq items') = .ok arr h1) := by
  have key : ∀ (xs ys : List (Nat × Nat)), xs.map (·.1) = ys.map (·.1) →
      ((∀ a ∈ xs, ((classConv accepts) a).isSome = true) ↔ (∀ a ∈ ys, ((classConv accepts) a).isSome = true)) := by
    intro xs
    induction xs with
    | nil => intro ys hh; cases ys with
      | nil => simp
      | cons y r => simp at hh
    | cons x r ih =>
      intro ys hh
      cases ys with
      | nil => simp at hh
      | cons y r' =>
        simp only [List.map_cons, List.cons.injEq] at hh
        have := ih r' hh.2
        simp only [List.mem_cons, forall_eq_or_imp, this]
        simp [classConv, hh.1]
  have total : ∀ (xs : List (Nat × Nat)),
      (∃ arr h1, getFromObjectList (classConv accepts) (.seq xs) = .ok arr h1) ↔
        (∀ a ∈ xs, ((classConv accepts) a).isSome = true) := by
    intro xs
    constructor
    · rintro ⟨arr, h1, hok⟩
      rcases first_bad (classConv accepts) xs with hall | ⟨pre, a, post, he, hp, ha⟩
      · exact hall
      · subst he
        simp [getFromObjectList, convertFrom_error' (classConv accepts) pre a post 0 [] hp ha] at hok
    · intro hall
      have := convertFrom_ok' (classConv accepts) xs 0 [] hall
      exact ⟨xs.filterMap (classConv accepts), ⟨0, 1, 0⟩, by simp [getFromObjectList, this.1]⟩
  rw [total items, total items', key items items' h]

example : getFromObjectList (classConv [0, 3]) (.seq [(0, 0), (0, 4294967295), (3, 1)]) = .ok [0, 4294967295, 1] ⟨0, 1, 0⟩ := by
  rfl

/-- `fill_from_PyObject_<T>_list` with a sequence: the first `min(len, insize)` items are converted in order
into the front of the existing array, the rest of the array is untouched, its length never changes. -/
theorem fill_seq_in_order (conv : α → Option β) (f : α → β) (buf : List β) (items : List α)
    (h : ∀ a ∈ items.take buf.length, conv a = some (f a)) :
    fillFromObjectList conv buf (.seq items)
      = .ok ((items.take buf.length).map f ++ buf.drop (items.take buf.length).length) ⟨0, 0, 0⟩ ∧
    ((items.take buf.length).map f ++ buf.drop (items.take buf.length).length).length = buf.length := by
  constructor
  · simp [fillFromObjectList, convertFrom_ok conv f _ 0 [] h]
  · simp only [List.length_append, List.length_map, List.length_take, List.length_drop]; omega

/-- a rejected item inside the filled range gives `TypeError` with its index; nothing stays referenced. -/
theorem fill_bad_item (conv : α → Option β) (f : α → β) (buf : List β) (pre : List α) (a : α) (post : List α)
    (hlen : pre.length < buf.length)
    (hpre : ∀ x ∈ pre, conv x = some (f x)) (ha : conv a = none) :
    fillFromObjectList conv buf (.seq (pre ++ a :: post)) = .typeError (.badItem pre.length) ⟨0, 0, 0⟩ := by
  have ht : (pre ++ a :: post).take buf.length = pre ++ a :: post.take (buf.length - pre.length - 1) := by
    rw [List.take_append]
    have h1 : List.take buf.length pre = pre := List.take_of_length_le (by omega)
    obtain ⟨k, hk⟩ : ∃ k, buf.length - pre.length = k + 1 := ⟨buf.length - pre.length - 1, by omega⟩
    rw [h1, hk, List.take_succ_cons]
    simp
  simp [fillFromObjectList, ht, convertFrom_error conv f pre a _ 0 [] hpre ha]

/-- a convertible scalar is broadcast to the whole array. -/
theorem fill_broadcast (conv : α → Option β) (buf : List β) (v : α) (b : β) (h : conv v = some b) :
    fillFromObjectList conv buf (.atom v) = .ok (List.replicate buf.length b) ⟨0, 0, 0⟩ := by
  simp [fillFromObjectList, h]

/-- `to_PyList` keeps length and order, and converting its result back gives the array again. -/
theorem toPyList_roundtrip (conv : α → Option β) (ctor : β → α) (arr : List β)
    (h : ∀ b, conv (ctor b) = some b) :
    (toPyList ctor arr).length = arr.length ∧
    getFromObjectList conv (.seq (toPyList ctor arr)) = .ok arr ⟨0, 1, 0⟩ := by
  constructor
  · simp [toPyList]
  · cases arr with
    | nil => simp [toPyList, getFromObjectList, convertFrom]
    | cons b0 r =>
      have h2 : ∀ a ∈ toPyList ctor (b0 :: r), conv a = some ((fun a => (conv a).getD b0) a) := by
        intro a ha
        simp only [toPyList, List.mem_map] at ha
        obtain ⟨b, _, rfl⟩ := ha
        simp [h b]
      rw [getList_converts_in_order conv (fun a => (conv a).getD b0) _ h2]
      simp [toPyList, List.map_map, Function.comp_def, h]

/-- `get_from_object_char` raises `TypeError` exactly for objects that are neither str, bytes nor None. -/
theorem char_typeError_iff (o : CharObj) : getFromObjectChar o = none ↔ o = .other := by
  cases o <;> simp [getFromObjectChar]

/-- a list of strings converts item by item (the `char **` helper uses `get_from_object_char` as converter);
a non-string item gives `TypeError` with its index and the partly filled array is released. -/
theorem charptr_bad_item (pre : List CharObj) (post : List CharObj)
    (hpre : ∀ x ∈ pre, x ≠ .other) :
    getFromObjectList charConv (.seq (pre ++ CharObj.other :: post)) = .typeError (.badItem pre.length) ⟨0, 0, 0⟩ := by
  have hp : ∀ x ∈ pre, (charConv x).isSome = true := by
    intro x hx
    have := hpre x hx
    cases x <;> simp_all [charConv, getFromObjectChar]
  simp [getFromObjectList, convertFrom_error' charConv pre .other post 0 [] hp (by simp [charConv, getFromObjectChar])]

/-! ### fixed-size char members (`fill_from_PyObject_char`) -/

theorem strncpyCells_length (s : List Nat) (cap : Nat) : (strncpyCells s cap).length = cap := by
  simp only [strncpyCells, List.length_append, List.length_map, List.length_take, List.length_replicate]
  omega

/-- **Never past the member**: whatever the argument, a successful fill writes exactly the `cap` cells of the
member (the result has the member's size; cells beyond it do not exist in the result). -/
theorem fillChar_within_member (cap : Nat) (o : CharObj) (cells : List Cell) (h : fillChar cap o = some cells) :
    cells.length = cap := by
  cases o with
  | str s => simp only [fillChar, Option.some.injEq] at h; subst h; exact strncpyCells_length s cap
  | bytes s => simp only [fillChar, Option.some.injEq] at h; subst h; exact strncpyCells_length s cap
  | none =>
    cases cap with
    | zero => simp [fillChar] at h; subst h; rfl
    | succ n => simp [fillChar] at h; subst h; simp
  | other => simp [fillChar] at h

/-- **NUL-terminated or exactly full**: a string shorter than the member is stored completely, followed by
zeros up to the end of the member; a string of the member's size or longer is truncated to exactly the
member's size (no terminator, as `strncpy` documents). -/
theorem fillChar_string (cap : Nat) (s : List Nat) :
    (s.length < cap → fillChar cap (.str s) = some (s.map Cell.chr ++ List.replicate (cap - s.length) Cell.nul)) ∧
    (cap ≤ s.length → fillChar cap (.str s) = some ((s.take cap).map Cell.chr)) := by
  constructor
  · intro h
    simp [fillChar, strncpyCells, List.take_of_length_le (Nat.le_of_lt h)]
  · intro h
    have : cap - s.length = 0 := by omega
    simp [fillChar, strncpyCells, this]

/-- reading the member back never leaves it, and gives the stored string (shorter case) or its first `cap`
characters (full case). -/
theorem readCells_bounded : ∀ (cells : List Cell), (readCells cells).length ≤ cells.length := by
  intro cells
  induction cells with
  | nil => simp [readCells]
  | cons c r ih =>
    cases c with
    | nul => simp [readCells]
    | chr x => simp only [readCells, List.length_cons]; omega
    | old i => simp only [readCells, List.length_cons]; omega

theorem readCells_chars (s : List Nat) (rest : List Cell) :
    readCells (s.map Cell.chr ++ Cell.nul :: rest) = s.map Cell.chr ∧
    readCells (s.map Cell.chr) = s.map Cell.chr := by
  induction s with
  | nil => simp [readCells]
  | cons a r ih => simp [readCells, ih.1, ih.2]

/-- only str, bytes and None are accepted. -/
theorem fillChar_typeError_iff (cap : Nat) (o : CharObj) : fillChar cap o = none ↔ o = .other := by
  cases o <;> simp [fillChar]

example : fillChar 4 (.str [97, 98]) = some [.chr 97, .chr 98, .nul, .nul] ∧
    fillChar 4 (.str [97, 98, 99, 100, 101]) = some [.chr 97, .chr 98, .chr 99, .chr 100] ∧
    fillChar 3 .none = some [.nul, .old 1, .old 2] := by decide

/-! non-vacuity -/
def intConv (v : Nat × Nat) : Option Nat := if v.1 == 0 then some v.2 else none   -- tag 0 = int

example : getFromObjectList intConv (.seq [(0, 4), (0, 5)]) = .ok [4, 5] ⟨0, 1, 0⟩ ∧
    getFromObjectList intConv (.seq [(0, 4), (1, 0), (0, 5)]) = .typeError (.badItem 1) ⟨0, 0, 0⟩ ∧
    fillFromObjectList intConv [9, 9, 9] (.seq [(0, 1)]) = .ok [1, 9, 9] ⟨0, 0, 0⟩ ∧
    fillFromObjectList intConv [9, 9] (.seq [(0, 1), (0, 2), (1, 7)]) = .ok [1, 2] ⟨0, 0, 0⟩ := by
  refine ⟨?_, ?_, ?_, ?_⟩ <;> rfl

end Shroud.PyList
