#!/bin/bash
# MANIFEST.setup_cmd: build the Lean library (all property theorems) and the model driver, offline.
set -e
cd "$(dirname "$0")/lean"
lake build ShroudVerif $(grep -o '^name = "drv_[a-z0-9_]*"' lakefile.toml | cut -d'"' -f2)
