#!/bin/bash
# MANIFEST.setup_cmd: build the Lean library (all property theorems) and every model driver, offline.
# Each ./check rebuilds exactly what it needs, so a failure here is reported but is not fatal for other properties.
cd "$(dirname "$0")/lean" || exit 1
rc=0
lake build ShroudVerif || { echo "setup: lake build ShroudVerif failed (individual checks will report)"; rc=0; }
for t in $(grep -o '^name = "drv_[a-z0-9_]*"' lakefile.toml | cut -d'"' -f2); do
  lake build "$t" >/dev/null 2>&1 || echo "setup: driver $t failed to build (its check will report)"
done
exit $rc
