"""Type-directed generator of small Shroud library descriptions (dict form -> YAML).

All randomness comes from the `random.Random` passed in.  The admitted grammar is
built from documented declaration and attribute patterns (docs/*.rst, tutorial):
scalars, bool, char*/std::string in/out/inout/result, native pointers with intent and
dimension, std::vector, enums, classes with ctor/dtor/methods (const/static), overloads,
trailing default arguments, namespaces, language c / c++.
Every generated description is meant to be accepted by Shroud without diagnostics."""
import yaml

SCALARS = ["int", "long", "double", "float", "size_t", "short", "unsigned int"]


class Lib:
    def __init__(self, name, language, decls, options=None, fmt=None, namespace=None):
        self.name = name
        self.language = language
        self.decls = decls
        self.options = options or {}
        self.fmt = fmt or {}
        self.namespace = namespace

    def todict(self):
        d = {"library": self.name, "cxx_header": self.name + (".h" if self.language == "c" else ".hpp"),
             "language": self.language, "declarations": self.decls}
        if self.options:
            d["options"] = dict(self.options)
        if self.fmt:
            d["format"] = dict(self.fmt)
        if self.namespace:
            d["namespace"] = self.namespace
        return d

    def yaml(self):
        return yaml.safe_dump(self.todict(), default_flow_style=False, sort_keys=False)


def _ident(r, pool):
    return r.choice(pool)


def gen_arg(r, language, idx, allow_out=True):
    kind = r.choice(["scalar", "scalar", "bool", "ptr_in", "ptr_out", "ptr_inout", "array", "cstr_in", "cstr_out",
                     "string_ref", "string_out", "vector_in", "vector_out"])
    n = "a%d" % idx
    if language == "c" and kind in ("string_ref", "string_out", "vector_in", "vector_out"):
        kind = "scalar"
    if not allow_out and kind in ("ptr_out", "ptr_inout", "cstr_out", "string_out", "vector_out"):
        kind = "scalar"
    if kind == "scalar":
        return "%s %s" % (r.choice(SCALARS), n)
    if kind == "bool":
        return "bool %s" % n
    if kind == "ptr_in":
        return "const %s *%s" % (r.choice(["int", "double"]), n)
    if kind == "ptr_out":
        return "%s *%s +intent(out)" % (r.choice(["int", "double"]), n)
    if kind == "ptr_inout":
        return "%s *%s +intent(inout)" % (r.choice(["int", "double"]), n)
    if kind == "array":
        return "%s *%s +intent(in)+rank(1)" % (r.choice(["int", "double"]), n)
    if kind == "cstr_in":
        return "const char *%s" % n
    if kind == "cstr_out":
        return "char *%s +intent(out)+charlen(20)" % n
    if kind == "string_ref":
        return "const std::string & %s" % n
    if kind == "string_out":
        return "std::string & %s +intent(out)" % n
    if kind == "vector_in":
        return "const std::vector<%s> &%s" % (r.choice(["int", "double"]), n)
    if kind == "vector_out":
        return "std::vector<%s> &%s +intent(out)" % (r.choice(["int", "double"]), n)
    raise AssertionError(kind)


def gen_result(r, language):
    k = r.choice(["void", "void", "scalar", "scalar", "bool", "cstr", "string"])
    if language == "c" and k == "string":
        k = "cstr"
    if k == "void":
        return "void"
    if k == "scalar":
        return r.choice(SCALARS)
    if k == "bool":
        return "bool"
    if k == "cstr":
        return "const char *"
    return r.choice(["const std::string", "const std::string &", "std::string"])


def gen_function(r, language, name, in_class=False, nargs=None, ndefaults=0):
    nargs = r.randrange(0, 4) if nargs is None else nargs
    args = [gen_arg(r, language, i) for i in range(nargs)]
    # trailing defaults: scalar parameters only
    for j in range(ndefaults):
        args.append("%s d%d = %d" % (r.choice(["int", "long", "double"]), j, r.randrange(0, 9)))
    res = gen_result(r, language)
    decl = "%s %s(%s)" % (res, name, ", ".join(args) if args or language != "c" else "void")
    if in_class and r.random() < 0.3 and not res.endswith("&"):
        decl += " const"
    return {"decl": decl}


def gen_enum(r, name, scoped=False):
    members = []
    for i in range(r.randrange(1, 5)):
        m = "%s_M%d" % (name.upper(), i)
        if r.random() < 0.4:
            members.append("%s = %d" % (m, r.randrange(-3, 20)))
        else:
            members.append(m)
    return {"decl": "enum %s%s { %s };" % ("class " if scoped else "", name, ", ".join(members))}


def gen_class(r, name):
    decls = [{"decl": "%s()" % name}]
    if r.random() < 0.4:
        decls.append({"decl": "%s(int flag)" % name})
        decls[0]["format"] = {"function_suffix": "_default"}
        decls[1]["format"] = {"function_suffix": "_flag"}
    decls.append({"decl": "~%s()" % name})
    for i in range(r.randrange(1, 4)):
        decls.append(gen_function(r, "c++", "method%d" % i, in_class=True))
    if r.random() < 0.3:
        decls.append({"decl": "static int sfunc%s(int i)" % name})
    return {"decl": "class %s" % name, "declarations": decls}


def gen_lib(r, name=None, language=None, nfunc=None, wrap=None, options=None):
    language = language or r.choice(["c", "c++", "c++"])
    name = name or ("lib" + r.choice("abcdefgh") + str(r.randrange(100)))
    decls = []
    nfunc = r.randrange(1, 6) if nfunc is None else nfunc
    used = set()
    for i in range(nfunc):
        fname = r.choice(["Alpha", "betaFunc", "gamma_x", "DeltaTwo", "eps", "Zeta9", "etaName", "Theta"]) + str(i)
        used.add(fname)
        decls.append(gen_function(r, language, fname, ndefaults=r.choice([0, 0, 0, 1, 2]) if language != "c" else 0))
    if language != "c" and r.random() < 0.5:
        # overload set distinguished by explicit suffixes or automatic numbering
        base = "Over" + str(r.randrange(9))
        decls.append({"decl": "void %s(int i)" % base})
        decls.append({"decl": "void %s(double d)" % base})
        if r.random() < 0.5:
            decls.append({"decl": "void %s(int i, int j)" % base})
    if r.random() < 0.35:
        # typedefs whose typemaps name the same header for C and C++ (like MPI_Comm): exercises header ordering
        tds = r.sample(["LengthId", "MassId", "TimeId", "ChargeId"], r.randrange(2, 4))
        for t in tds:
            decls.append({"decl": "typedef int %s" % t, "fields": {"c_header": t.lower() + ".h", "cxx_header": t.lower() + ".h"}})
        decls.append({"decl": "void combine%d(%s)" % (r.randrange(9), ", ".join("%s v%d" % (t, k) for k, t in enumerate(tds)))})
    if r.random() < 0.5:
        decls.append(gen_enum(r, "Color" + str(r.randrange(9)), scoped=(language != "c" and r.random() < 0.3)))
    if language != "c" and r.random() < 0.6:
        decls.append(gen_class(r, "Cls" + str(r.randrange(9))))
    if language != "c" and r.random() < 0.35:
        inner = [gen_function(r, language, "inner%d" % i) for i in range(r.randrange(1, 3))]
        if r.random() < 0.5:
            # nested namespaces, two or three levels deep
            deep = [gen_function(r, language, "deep%d" % i) for i in range(r.randrange(1, 3))]
            if r.random() < 0.4:
                deep = [{"decl": "namespace lvl3", "declarations": deep}]
            inner.append({"decl": "namespace lvl2", "declarations": deep})
        decls.append({"decl": "namespace ns%d" % r.randrange(9), "declarations": inner})
    opts = {"wrap_python": False, "wrap_lua": False}
    if wrap:
        opts.update(wrap)
    if options:
        opts.update(options)
    return Lib(name, language, decls, opts)
