"""Generator of library descriptions in the subset Shroud's Lua wrapping supports, together with
an instrumented C++ implementation of the library (a header) for the C18 emulator oracle.

Subset (shroud/wrapl.py lua_statements): scalar native arguments and results, bool, std::string by
const reference in / by value or reference out, void; classes with constructors, destructor,
methods (const, static); overloads; trailing default arguments; a namespace with its own names.
Built on tools/gen/libgen.Lib (dict -> YAML).  All randomness comes from the Random passed in."""
from tools.gen import libgen

# C++ parameter type -> (kind, Lua tag letter used by the Lean driver)
PTYPES = {
    "int": ("int", "n"), "long": ("int", "n"), "short": ("int", "n"), "unsigned int": ("int", "n"),
    "double": ("float", "n"), "float": ("float", "n"),
    "bool": ("bool", "b"),
    "const std::string &": ("string", "s"),
}
RTYPES = ["void", "void", "int", "long", "double", "bool", "std::string", "const std::string &"]


class Param:
    def __init__(self, ctype, name, default=None):
        self.ctype = ctype
        self.name = name
        self.default = default          # C++ text or None
        self.ocls = None                # class name for a class-pointer parameter `Cls *p +intent(in)`
        self.clsid = None               # 1-based index of that class in the library
        if ctype in PTYPES:
            self.kind, self.tag = PTYPES[ctype]
        else:
            # a class instance: by pointer `Cls *`, by reference `Cls &` / `const Cls &`, by value `Cls`
            self.kind, self.tag = "object", "u"
            base = ctype[6:] if ctype.startswith("const ") else ctype
            self.passed = "ptr" if base.endswith(" *") else "ref" if base.endswith(" &") else "val"
            self.ocls = base[:-2] if self.passed != "val" else base

    def decl(self, cxx=False):
        sep = "" if self.ctype.endswith(("&", "*")) else " "
        s = "%s%s%s" % (self.ctype, sep, self.name)
        if self.default is not None:
            s += " = " + self.default
        if self.kind == "object" and not cxx:
            s += " +intent(in)"
        return s

    def default_value(self):
        """Python value the library receives when the argument is omitted."""
        if self.kind == "bool":
            return self.default == "true"
        if self.kind == "int":
            return int(self.default)
        if self.kind == "float":
            return float(self.default)
        return self.default.strip('"')


def short(cname):
    """C++ name of a class as written inside its own scope; the class KEY used by the harness is the name
    a parameter type is written with ("Cls1", or "inner::Node" for same-named classes of different namespaces)."""
    return cname.split("::")[-1]


class Fn:
    def __init__(self, uid, name, params, rtype, role="free", cls=None, const=False, static=False):
        self.uid = uid
        self.name = name
        self.params = params
        self.rtype = rtype
        self.role = role                # free | ctor | dtor | method
        self.cls = cls
        self.const = const
        self.static = static

    def is_function(self):
        return self.role == "ctor" or self.rtype != "void"

    def decl(self):
        ps = ", ".join(p.decl() for p in self.params)
        if self.role == "ctor":
            return "%s(%s)" % (short(self.cls), ps)
        if self.role == "dtor":
            return "~%s()" % short(self.cls)
        sep = "" if self.rtype.endswith("&") else " "
        s = "%s%s%s%s(%s)" % ("static " if self.static else "", self.rtype, sep, self.name, ps)
        if self.const:
            s += " const"
        return s

    def retval(self):
        """The value the instrumented library returns (Python value), by result type."""
        if self.rtype in ("int", "long"):
            return 1000 + self.uid
        if self.rtype == "double":
            return self.uid + 0.25
        if self.rtype == "bool":
            return self.uid % 2 == 0
        if self.rtype in ("std::string", "const std::string &"):
            return "r%d" % self.uid
        return None

    def calls(self):
        """The signatures this overload offers: (nargs) for every omitted-default prefix."""
        out = []
        for i, p in enumerate(self.params):
            if p.default is not None:
                out.append(i)
        out.append(len(self.params))
        return out


class Group:
    """The overloads of one Lua name, declaration order."""

    def __init__(self, luaname, kind, cls, fns, scope=""):
        self.luaname = luaname
        self.kind = kind                # free | ctor | method | dtor
        self.cls = cls
        self.fns = fns
        self.scope = scope              # C++ namespace prefix for calls, "" or "ns::"

    def all_calls(self):
        """[(overload index, nargs)] in the order the property speaks of."""
        return [(i, n) for i, f in enumerate(self.fns) for n in f.calls()]

    def enc(self):
        """Overload set in the Lean driver's encoding."""
        out = []
        for f in self.fns:
            ps = ",".join(p.tag + (str(p.clsid) if p.kind == "object" else "") + ("=" if p.default is not None else "")
                          for p in f.params)
            out.append(("F:" if f.is_function() else "S:") + ps)
        return "|".join(out)


class Ns:
    """A namespace: its own functions and classes and the namespaces nested in it (any of them may be empty)."""

    def __init__(self, name, fns=None, classes=None, subs=None, wrap_lua=True):
        self.name = name
        self.fns = fns or []
        self.classes = classes or []    # [(class name, [Fn])]
        self.subs = subs or []
        self.wrap_lua = wrap_lua


class LuaLib:
    def __init__(self, name):
        self.name = name
        self.groups = []
        self.classes = []               # [(class name, [Fn in declaration order])]
        self.free = []                  # Fn in declaration order (global scope)
        self.nss = []                   # top-level namespaces (Ns trees)
        self.nfn = 0
        self.class_attrs = {}           # class name -> extra keys of its YAML entry (format / options)
        self.lib_options = {}           # extra library-level options (e.g. LUA_metadata_template)
        self.late_free = []             # Fn at global scope, declared after the namespaces

    def new_uid(self):
        self.nfn += 1
        return self.nfn

    # ------------------------------------------------------------ YAML
    def lib(self):
        # classes first: a class-pointer parameter needs its class declared before it is used
        decls = []
        for cname, fns in self.classes:
            e = {"decl": "class " + short(cname), "declarations": [{"decl": f.decl()} for f in fns]}
            e.update(self.class_attrs.get(cname, {}))
            decls.append(e)
        decls += [{"decl": f.decl()} for f in self.free]
        def ns_decl(ns):
            inner = []
            for cname, fns in ns.classes:
                e = {"decl": "class " + short(cname), "declarations": [{"decl": f.decl()} for f in fns]}
                e.update(self.class_attrs.get(cname, {}))
                inner.append(e)
            inner += [{"decl": f.decl()} for f in ns.fns]
            inner += [ns_decl(x) for x in ns.subs]
            e = {"decl": "namespace " + ns.name, "declarations": inner}
            if not ns.wrap_lua:
                e["options"] = {"wrap_lua": False}
            return e

        decls += [ns_decl(ns) for ns in self.nss]
        # library-level functions declared after the namespaces (their parameter types name classes of namespaces)
        decls += [{"decl": f.decl()} for f in self.late_free]
        opts = {"wrap_fortran": False, "wrap_c": False, "wrap_python": False, "wrap_lua": True, "debug": True}
        opts.update(self.lib_options)
        return libgen.Lib(self.name, "c++", decls, opts)

    def yaml(self):
        return self.lib().yaml()

    def all_classes(self):
        """Every class, library level first, then the namespaces in pre-order (the order Shroud wraps them in)."""
        out = list(self.classes)

        def walk(ns):
            out.extend(ns.classes)
            for x in ns.subs:
                walk(x)

        for ns in self.nss:
            walk(ns)
        return out

    # ------------------------------------------------------------ instrumented implementation
    def header(self):
        g = self.name.upper() + "_HPP"
        o = ["#ifndef " + g, "#define " + g, "#include <string>", "#include <vector>", "#include <sstream>",
             "#include <cstdio>", "#include <map>",
             "inline std::map<const void *, int> &c18_ids() { static std::map<const void *, int> m; return m; }",
             "inline std::vector<std::string> &c18_trace() { static std::vector<std::string> t; return t; }",
             "inline int &c18_nobj() { static int n = 0; return n; }",
             "struct C18Rec {",
             "    std::ostringstream os;",
             "    explicit C18Rec(int uid) { os << uid; }",
             "    C18Rec &a(long long v) { os << \" i:\" << v; return *this; }",
             "    C18Rec &a(unsigned int v) { os << \" i:\" << v; return *this; }",
             "    C18Rec &a(long v) { os << \" i:\" << v; return *this; }",
             "    C18Rec &a(int v) { os << \" i:\" << v; return *this; }",
             "    C18Rec &a(short v) { os << \" i:\" << v; return *this; }",
             "    C18Rec &a(double v) { char b[64]; std::snprintf(b, sizeof b, \"%.17g\", v); os << \" d:\" << b; return *this; }",
             "    C18Rec &a(float v) { return a((double) v); }",
             "    C18Rec &a(bool v) { os << \" b:\" << (v ? 1 : 0); return *this; }",
             "    C18Rec &a(const std::string &v) { os << \" s:\"; if (v.empty()) os << '-';",
             "        for (unsigned char c : v) { char b[4]; std::snprintf(b, sizeof b, \"%02x\", c); os << b; } return *this; }",
             "    C18Rec &obj(int id) { os << \" o:\" << id; return *this; }",
             "    C18Rec &p(const void *v) { os << \" o:\" << (c18_ids().count(v) ? c18_ids()[v] : 0); return *this; }",
             "    ~C18Rec() { c18_trace().push_back(os.str()); }",
             "};",
             "inline const std::string &c18_str(int uid) { static std::string s[512]; s[uid % 512] = \"r\" + std::to_string(uid); return s[uid % 512]; }",
             ""]

        def objrec(p):
            # by reference / by value: the object (or the copy of it) identifies itself
            return ".p(%s)" % p.name if p.passed == "ptr" else ".obj(%s.id_)" % p.name

        def body(f, indent, in_class):
            rec = "C18Rec(%d)" % f.uid
            if in_class and f.role != "free" and not f.static:
                rec += ".obj(id_)"
            for p in f.params:
                rec += objrec(p) if p.kind == "object" else ".a(%s)" % p.name
            lines = ["{ " + rec + ";"]
            rv = f.retval()
            if f.rtype in ("int", "long"):
                lines.append("  return %d;" % rv)
            elif f.rtype == "double":
                lines.append("  return %r;" % rv)
            elif f.rtype == "bool":
                lines.append("  return %s;" % ("true" if rv else "false"))
            elif f.rtype in ("std::string", "const std::string &"):
                lines.append("  return c18_str(%d);" % f.uid)
            lines.append("}")
            return " ".join(lines)

        def proto(f):
            ps = ", ".join(p.decl(cxx=True) for p in f.params)
            sep = "" if f.rtype.endswith("&") else " "
            return "%s%s%s%s(%s)%s" % ("static " if f.static else "", f.rtype, sep, f.name, ps, " const" if f.const else "")

        for cname, fns in self.classes:
            o.append("class %s;" % cname)

        def fwd_ns(ns):
            if ns.classes or ns.subs:
                o.append("namespace %s {" % ns.name)
                for cname, fns in ns.classes:
                    o.append("class %s;" % short(cname))
                for x in ns.subs:
                    fwd_ns(x)
                o.append("}")

        for ns in self.nss:
            fwd_ns(ns)
        def emit_class(cname, fns):
            cname = short(cname)
            o.append("class %s {" % cname)
            o.append("public:")
            o.append("    int id_;")
            for f in fns:
                ps = ", ".join(p.decl(cxx=True) for p in f.params)
                if f.role == "ctor":
                    rec = "C18Rec(%d).obj(id_)" % f.uid + "".join(
                        objrec(p) if p.kind == "object" else ".a(%s)" % p.name for p in f.params)
                    o.append("    %s(%s) : id_(++c18_nobj()) { c18_ids()[this] = id_; %s; }" % (cname, ps, rec))
                elif f.role == "dtor":
                    o.append("    ~%s() { C18Rec(%d).obj(id_); }" % (cname, f.uid))
                else:
                    o.append("    " + proto(f) + " " + body(f, "    ", True))
            o.append("};")

        for cname, fns in self.classes:
            emit_class(cname, fns)
        for f in self.free:
            o.append("inline " + proto(f) + " " + body(f, "", False))

        def emit_ns(ns):
            o.append("namespace %s {" % ns.name)
            for cname, fns in ns.classes:
                emit_class(cname, fns)
            for f in ns.fns:
                o.append("inline " + proto(f) + " " + body(f, "", False))
            for x in ns.subs:
                emit_ns(x)
            o.append("}")

        for ns in self.nss:
            emit_ns(ns)
        for f in self.late_free:
            o.append("inline " + proto(f) + " " + body(f, "", False))
        o.append("#endif")
        return "\n".join(o) + "\n"


# ---------------------------------------------------------------------- random construction
def _default_for(r, ctype):
    """Default value texts over the whole value space of the type, including the values that are
    false in Python once parsed (0, 0.0) and the empty string: whether a parameter HAS a default must
    not depend on what the default is."""
    kind = PTYPES[ctype][0]
    if kind == "int":
        return r.choice(["0", "0", "1", str(r.randrange(2, 90)), str(r.randrange(2, 90))])
    if kind == "float":
        return r.choice(["0.0", "0.0", "0.5", "%d.5" % r.randrange(1, 9), "%d.0" % r.randrange(1, 9)])
    if kind == "bool":
        return r.choice(["true", "false"])
    return r.choice(['""', '"dflt%d"' % r.randrange(1, 9), '"0"'])


NPARAMS = [0, 1, 1, 2, 2, 3, 3, 4, 4, 5, 5, 6]


def _gen_overloads(r, lib, name, role, cls, novl, allow_defaults=True, rtypes=None, maxargs=6, objtypes=()):
    """Overloads of one name such that no two offered signatures have the same C++ parameter types
    (C++ itself would reject such a call as ambiguous).  0..6 parameters of mixed Lua types; the
    first defaulted parameter is at any position 1..n (or none): every trailing run of defaults."""
    fns = []
    seen = set()
    tries = 0
    while len(fns) < novl and tries < 80:
        tries += 1
        n = min(r.choice(NPARAMS), maxargs)
        types = [r.choice(list(PTYPES)) for _ in range(n)]
        # class-pointer parameters (`Cls *p +intent(in)`) of classes already declared
        for i in range(n):
            if objtypes and r.random() < 0.15:
                types[i] = r.choice(objtypes)[0] + " *"
        if allow_defaults and n and r.random() < 0.6:
            ndef = r.randrange(1, n + 1)        # defaults start at position n - ndef + 1 (1-based)
        else:
            ndef = 0
        sigs = []
        ok = True
        if any(t not in PTYPES for t in types[n - ndef:]):
            continue                    # no default values for class pointers
        for k in range(n - ndef, n + 1):
            sig = tuple(types[:k])
            if sig in seen or sig in sigs:
                ok = False
            sigs.append(sig)
        if not ok:
            continue
        uid = lib.new_uid()
        params = []
        for i, t in enumerate(types):
            d = _default_for(r, t) if i >= n - ndef else None
            params.append(Param(t, "p%d_%d" % (uid, i), d))
            if params[-1].kind == "object":
                params[-1].clsid = dict(objtypes)[params[-1].ocls]
        if role == "ctor":
            rtype = cls
        elif role == "dtor":
            rtype = "void"
        else:
            rtype = r.choice(rtypes or RTYPES)
        const = role == "method" and r.random() < 0.25
        fns.append(Fn(uid, name, params, rtype, role=role, cls=cls, const=const))
        seen.update(sigs)
    return fns


def gen_lualib(r, name, nfree=None, nclasses=None, with_ns=None, rich=False):
    lib = LuaLib(name)
    nclasses = r.choice([1, 2, 2, 3]) if nclasses is None else nclasses
    allcls = [("Cls%d" % (ci + 1), ci + 1) for ci in range(nclasses)]
    nfree = r.choice([0, 3, 4, 5, 6]) if nfree is None else nfree
    names = ["Alpha", "betaFunc", "gamma_x", "DeltaTwo", "eps", "Zeta9", "etaName", "Theta"]
    r.shuffle(names)
    free_groups = []
    for i in range(nfree):
        nm = names[i]
        novl = r.choice([1, 1, 2, 3, 4] if rich else [1, 2, 2, 3])
        while True:
            save = lib.nfn
            fns = _gen_overloads(r, lib, nm, "free", None, novl, objtypes=allcls)
            if fns:
                break
            lib.nfn = save
        free_groups.append(Group(nm, "free", None, fns))
    # declaration order: interleave the overloads of different names now and then
    order = []
    for g in free_groups:
        order.extend(g.fns)
    if r.random() < 0.5 and len(order) > 2:
        # move one later overload of some group to the very end (wrap_functions gathers them)
        cands = [f for g in free_groups if len(g.fns) > 1 for f in g.fns[1:]]
        if cands:
            f = r.choice(cands)
            order.remove(f)
            order.append(f)
            for g in free_groups:
                if f in g.fns:
                    g.fns.remove(f)
                    g.fns.append(f)
    lib.free = order
    lib.groups.extend(free_groups)
    # the metatable name is the user's to choose: library-wide template, per class template, per class format field
    if r.random() < 0.3:
        lib.lib_options["LUA_metadata_template"] = "%s_{cxx_class}_mt" % name
    for ci in range(nclasses):
        cname = "Cls%d" % (ci + 1)
        how = r.choice(["default", "default", "format", "template"])
        if how == "format":
            lib.class_attrs[cname] = {"format": {"LUA_metadata": "meta.of.%s.%d" % (cname, r.randrange(9))}}
        elif how == "template":
            lib.class_attrs[cname] = {"options": {"LUA_metadata_template": "{cxx_class}::lua%d" % r.randrange(9)}}
        fns = []
        while True:
            save = lib.nfn
            ctors = _gen_overloads(r, lib, "ctor", "ctor", cname, r.choice([1, 2, 2, 3]))
            if ctors:
                break
            lib.nfn = save
        fns.extend(ctors)
        lib.groups.append(Group(cname, "ctor", cname, ctors))
        if ci > 0 and ci == nclasses - 1 and r.random() < 0.5:
            # a class that registers no method at all (constructors only): its objects are still passed around
            lib.classes.append((cname, fns))
            continue
        dt = Fn(lib.new_uid(), "dtor", [], "void", role="dtor", cls=cname)
        fns.append(dt)
        lib.groups.append(Group("__gc", "dtor", cname, [dt]))
        mnames = ["method%d" % k for k in range(r.randrange(2, 5))]
        for mn in mnames:
            while True:
                save = lib.nfn
                ms = _gen_overloads(r, lib, mn, "method", cname, r.choice([1, 1, 2, 3]), objtypes=allcls[:ci + 1])
                if ms:
                    break
                lib.nfn = save
            fns.extend(ms)
            lib.groups.append(Group(mn, "method", cname, ms))
        if r.random() < 0.5:
            uid = lib.new_uid()
            sf = Fn(uid, "sfunc", [Param("int", "p%d_0" % uid)], "int", role="method", cls=cname, static=True)
            fns.append(sf)
            lib.groups.append(Group("sfunc", "method", cname, [sf]))
        lib.classes.append((cname, fns))
    # namespaces: a tree whose nodes may hold functions, only classes, only namespaces or nothing at all
    with_ns = (r.random() < 0.6) if with_ns is None else with_ns
    counter = {"fn": 0, "cls": 0, "ns": 0}

    def simple_class(scope):
        counter["cls"] += 1
        cname = "NCls%d" % counter["cls"]
        ctors = _gen_overloads(r, lib, "ctor", "ctor", cname, r.choice([1, 2]), maxargs=2)
        fns = list(ctors)
        lib.groups.append(Group(cname, "ctor", cname, ctors, scope=scope))
        if r.random() < 0.7:
            ms = _gen_overloads(r, lib, "nm%d" % counter["cls"], "method", cname, r.choice([1, 2]), maxargs=3)
            fns.extend(ms)
            lib.groups.append(Group(ms[0].name, "method", cname, ms, scope=scope))
        return (cname, fns)

    def gen_ns(depth, scope):
        counter["ns"] += 1
        ns = Ns("ns%d" % counter["ns"])
        scope = scope + ns.name + "::"
        what = r.choice(["functions", "functions", "classes", "namespaces", "empty", "mixed"])
        if what in ("functions", "mixed"):
            for _ in range(r.randrange(1, 3)):
                counter["fn"] += 1
                nm = "inner%d" % counter["fn"]
                fs = _gen_overloads(r, lib, nm, "free", None, r.choice([1, 2]), objtypes=allcls, maxargs=4)
                ns.fns.extend(fs)
                lib.groups.append(Group(nm, "free", None, fs, scope=scope))
        if what in ("classes", "mixed"):
            ns.classes.append(simple_class(scope))
        if depth < 3 and (what in ("namespaces", "mixed") or r.random() < 0.4):
            for _ in range(r.randrange(1, 3)):
                ns.subs.append(gen_ns(depth + 1, scope))
        return ns

    if with_ns:
        for _ in range(r.randrange(1, 3)):
            lib.nss.append(gen_ns(1, ""))
    if r.random() < 0.4:
        # two wrapped classes with one unqualified name, in namespaces of their own or in a generated one
        if lib.nss and r.random() < 0.5:
            ns2 = lib.nss[-1]
        else:
            ns2 = Ns("twb")
            lib.nss.append(ns2)
        add_twins(lib, "twa", ns2, tag=r.choice(["", "X"]), override_first=r.random() < 0.5)
    number_classes(lib)
    return lib


def fixed_lualib(name="luafix"):
    """A hand-written library covering every construct once (corpus, replay)."""
    lib = LuaLib(name)

    def P(t, d=None):
        return (t, d)

    def mk(nm, role, cls, sigs, rt, **kw):
        fns = []
        for ps, r_ in zip(sigs, rt):
            uid = lib.new_uid()
            params = [Param(t, "p%d_%d" % (uid, i), d) for i, (t, d) in enumerate(ps)]
            fns.append(Fn(uid, nm, params, r_, role=role, cls=cls, **kw))
        return fns

    f0 = mk("f0", "free", None, [[P("int"), P("double", "1.5"), P("bool", "true")]], ["int"])
    g = mk("g", "free", None, [[P("int")], [P("const std::string &")], [P("double"), P("int", "3")]], ["void", "int", "double"])
    h = mk("h", "free", None, [[P("bool")]], ["std::string"])
    same = mk("same", "free", None, [[P("int")], [P("double")]], ["int", "double"])
    z = mk("z", "free", None, [[]], ["void"])
    # defaults whose value is zero / empty: the shorter arity must exist all the same
    zd = mk("zd", "free", None, [[P("int"), P("int", "0")], [P("double"), P("double", "0.0"), P("const std::string &", '""')]],
            ["int", "double"])
    # const char* converts to bool by a standard conversion: the string overload must still be reached
    hj = mk("hj", "free", None, [[P("const std::string &")], [P("bool")], [P("bool"), P("const std::string &")]],
            ["void", "void", "int"])
    # many parameters, several trailing defaults starting late, mixed tags; every arity from the
    # first default on is a signature of its own
    wide = mk("wide", "free", None,
              [[P("int"), P("const std::string &"), P("double"), P("bool", "true"), P("int", "0"), P("double", "0.0")]],
              ["int"])
    wide2 = mk("wide2", "free", None,
               [[P("bool"), P("int"), P("const std::string &"), P("double"), P("int", "4"), P("const std::string &", '"dflt1"')],
                [P("const std::string &"), P("int"), P("bool"), P("bool", "false"), P("double", "1.5")],
                [P("int", "0"), P("int", "2"), P("int", "0"), P("int", "4"), P("int", "0")]],
               ["void", "double", "std::string"])
    lib.free = f0 + g[:1] + h + g[1:] + same + z + hj + wide + wide2 + zd
    for nm, fs in (("f0", f0), ("g", g), ("h", h), ("same", same), ("z", z), ("hj", hj), ("wide", wide),
                   ("wide2", wide2), ("zd", zd)):
        lib.groups.append(Group(nm, "free", None, fs))
    ct = mk("ctor", "ctor", "Foo", [[], [P("int")], [P("const std::string &"), P("int"), P("double"), P("bool", "true"), P("int", "9")]],
            ["Foo", "Foo", "Foo"])
    dt = mk("dtor", "dtor", "Foo", [[]], ["void"])
    m0 = mk("m0", "method", "Foo", [[]], ["int"])
    m1 = mk("m1", "method", "Foo", [[P("int")]], ["int"])
    m2 = mk("m2", "method", "Foo", [[P("int")], [P("const std::string &"), P("int", "3")]], ["void", "bool"])
    cm = mk("cm", "method", "Foo", [[P("double")]], ["bool"], const=True)
    mz = mk("mz", "method", "Foo", [[P("int", "0")]], ["int"])
    mw = mk("mw", "method", "Foo",
            [[P("bool"), P("int"), P("const std::string &"), P("double", "1.5"), P("int", "4")],
             [P("int"), P("int"), P("int"), P("int"), P("bool", "true"), P("bool", "false")]],
            ["int", "void"])
    # class-pointer arguments: of the own class, of another wrapped class, overloaded on the class
    def OP(c, i):
        return ("%s *" % c, None, i)
    def mko(nm, role, cls, sigs, rt, **kw):
        fns = []
        for ps, r_ in zip(sigs, rt):
            uid = lib.new_uid()
            params = []
            for i, x in enumerate(ps):
                pp = Param(x[0], "p%d_%d" % (uid, i), x[1])
                if len(x) > 2:
                    pp.clsid = x[2]
                params.append(pp)
            fns.append(Fn(uid, nm, params, r_, role=role, cls=cls, **kw))
        return fns
    same_cls = mko("eat", "method", "Foo", [[OP("Foo", 1)], [P("int"), OP("Foo", 1)]], ["int", "void"])
    lib.classes.append(("Foo", ct + dt + m0 + m1 + m2 + cm + mw + mz + same_cls))
    bct = mk("ctor", "ctor", "Bar", [[]], ["Bar"])
    bdt = mk("dtor", "dtor", "Bar", [[]], ["void"])
    take = mko("take", "method", "Bar", [[OP("Foo", 1), P("int", "0")], [OP("Bar", 2)], [P("const std::string &"), OP("Foo", 1), OP("Bar", 2)]],
               ["int", "bool", "void"])
    lib.classes.append(("Bar", bct + bdt + take))
    lib.groups.append(Group("Bar", "ctor", "Bar", bct))
    lib.groups.append(Group("__gc", "dtor", "Bar", bdt))
    lib.groups.append(Group("take", "method", "Bar", take))
    lib.groups.append(Group("eat", "method", "Foo", same_cls))
    oct_ = mk("ctor", "ctor", "Only", [[], [P("int")]], ["Only", "Only"])
    lib.classes.append(("Only", oct_))
    lib.groups.append(Group("Only", "ctor", "Only", oct_))
    lib.class_attrs["Only"] = {"format": {"LUA_metadata": "user.chosen.Only"}}
    lib.class_attrs["Bar"] = {"options": {"LUA_metadata_template": "{cxx_class}::luameta"}}
    use = mko("use", "free", None, [[OP("Only", 3)], [OP("Bar", 2), OP("Only", 3), P("int", "0")]], ["int", "void"])
    lib.free = lib.free + use
    lib.groups.append(Group("use", "free", None, use))
    # namespaces: only namespaces > only a class > functions; nothing at all; switched off with content
    deepf = mk("deepfn", "free", None, [[P("int"), P("int", "0")]], ["int"])
    mct = mk("ctor", "ctor", "Mid", [[], [P("double")]], ["Mid", "Mid"])
    mme = mk("mval", "method", "Mid", [[P("int")]], ["int"])
    sibf = mk("sibfn", "free", None, [[P("bool")]], ["void"])
    ghost = mk("ghost", "free", None, [[]], ["int"])
    ghost2 = mk("ghost2", "free", None, [[P("int")]], ["int"])
    lib.nss = [
        Ns("outer", subs=[Ns("mid", classes=[("Mid", mct + mme)], subs=[Ns("hollow", subs=[Ns("deep", fns=deepf)])]),
                          Ns("sib", fns=sibf)]),
        Ns("nothing"),
        Ns("hidden", fns=ghost, subs=[Ns("below", fns=ghost2)], wrap_lua=False),
    ]
    lib.groups.append(Group("deepfn", "free", None, deepf, scope="outer::mid::hollow::deep::"))
    lib.groups.append(Group("Mid", "ctor", "Mid", mct, scope="outer::mid::"))
    lib.groups.append(Group("mval", "method", "Mid", mme, scope="outer::mid::"))
    lib.groups.append(Group("sibfn", "free", None, sibf, scope="outer::sib::"))
    lib.hidden_names = ["ghost", "ghost2"]
    give = mko("give", "free", None, [[OP("Bar", 2)], [OP("Foo", 1), OP("Bar", 2), P("double", "0.0")]], ["void", "double"])
    lib.free = lib.free + give
    lib.groups.append(Group("give", "free", None, give))
    lib.groups.append(Group("Foo", "ctor", "Foo", ct))
    lib.groups.append(Group("__gc", "dtor", "Foo", dt))
    for nm, fs in (("m0", m0), ("m1", m1), ("m2", m2), ("cm", cm), ("mw", mw), ("mz", mz)):
        lib.groups.append(Group(nm, "method", "Foo", fs))
    add_twins(lib, "inner", lib.nss[0])
    # class instances by reference and by value (the object held by the userdata, not a pointer to it)
    byref = _mk(lib, "byref", "free", None, [[("const Bar &", None)], [("int", None), ("Foo &", None), ("int", "0")]], ["int", "void"])
    byval = _mk(lib, "byval", "free", None, [[("Only", None), ("Foo *", None), ("const outer::Node &", None)]], ["double"])
    lib.late_free += byref + byval
    lib.groups.append(Group("byref", "free", None, byref))
    lib.groups.append(Group("byval", "free", None, byval))
    mref = _mk(lib, "mref", "method", "Bar", [[("Foo &", None)], [("const Foo &", None), ("int", None)]], ["int", "void"])
    for i, (c, fns) in enumerate(lib.classes):
        if c == "Bar":
            lib.classes[i] = (c, fns + mref)
    lib.groups.append(Group("mref", "method", "Bar", mref))
    number_classes(lib)
    return lib


def _mk(lib, nm, role, cls, sigs, rt, **kw):
    fns = []
    for ps, r_ in zip(sigs, rt):
        uid = lib.new_uid()
        params = [Param(x[0], "p%d_%d" % (uid, i), x[1]) for i, x in enumerate(ps)]
        fns.append(Fn(uid, nm, params, r_, role=role, cls=cls, **kw))
    return fns


def add_twins(lib, ns1, ns2, tag="", override_first=True):
    def mk(*a, **kw):
        return _mk(lib, *a, **kw)
    mko = mk
    """Two wrapped classes with the same unqualified name in different namespaces (the first one in a new
    namespace `ns1`, with the format fields that keep the generated C names apart; the second in the
    existing Ns `ns2`), used as class-pointer arguments of library-level functions, of each other's methods,
    at different stack positions, and overloaded on the class."""
    k1, k2 = "%s::Node%s" % (ns1, tag), "%s::Node%s" % (ns2.name, tag)
    sn = "Node" + tag
    c1 = mk("ctor", "ctor", k1, [[]], [k1])
    d1 = mk("dtor", "dtor", k1, [[]], ["void"])
    dep = mk("depth" + tag, "method", k1, [[]], ["int"])
    c2 = mk("ctor", "ctor", k2, [[], [("int", None)]], [k2, k2])
    d2 = mk("dtor", "dtor", k2, [[]], ["void"])
    wid = mk("width" + tag, "method", k2, [[]], ["int"])
    cmp_ = mko("cmp" + tag, "method", k2, [[(k1 + " *", None), (k2 + " *", None)], [(k2 + " *", None)]], ["int", "void"])
    lib.nss.insert(0, Ns(ns1, classes=[(k1, c1 + d1 + dep)]))
    ns2.classes.append((k2, c2 + d2 + wid + cmp_))
    ko, nso = (k1, ns1) if override_first else (k2, ns2.name)
    lib.class_attrs[ko] = {"format": {"LUA_userdata_type": "l_%s%s_Type" % (nso, sn), "LUA_metadata": "%s.%s.metatable" % (nso, sn),
                                      "LUA_class_reg": "l_%s%s_Reg" % (nso, sn), "LUA_ctor_name": nso + sn}}
    lib.groups.append(Group(ns1 + sn if override_first else sn, "ctor", k1, c1, scope=ns1 + "::"))
    lib.groups.append(Group("__gc", "dtor", k1, d1, scope=ns1 + "::"))
    lib.groups.append(Group("depth" + tag, "method", k1, dep, scope=ns1 + "::"))
    lib.groups.append(Group(sn if override_first else ns2.name + sn, "ctor", k2, c2, scope=ns2.name + "::"))
    lib.groups.append(Group("__gc", "dtor", k2, d2, scope=ns2.name + "::"))
    lib.groups.append(Group("width" + tag, "method", k2, wid, scope=ns2.name + "::"))
    lib.groups.append(Group("cmp" + tag, "method", k2, cmp_, scope=ns2.name + "::"))
    visit = mko("visit" + tag, "free", None, [[(k1 + " *", None)]], ["int"])
    measure = mko("measure" + tag, "free", None, [[(k2 + " *", None), ("int", "0")]], ["int"])
    both = mko("both" + tag, "free", None, [[(k2 + " *", None), (k1 + " *", None)], [("int", None), (k1 + " *", None), (k2 + " *", None)]],
               ["void", "double"])
    pick = mko("pick" + tag, "free", None, [[("bool", None), (k1 + " *", None)], [("int", None), (k2 + " *", None)]], ["int", "void"])
    lib.late_free += visit + measure + both + pick
    for nm, fs in (("visit", visit), ("measure", measure), ("both", both), ("pick", pick)):
        lib.groups.append(Group(nm + tag, "free", None, fs))


def number_classes(lib):
    """clsid of every class-pointer parameter: 1-based position of its class in the order Shroud wraps classes in."""
    idx = {c: i + 1 for i, (c, _) in enumerate(lib.all_classes())}
    for g in lib.groups:
        for f in g.fns:
            for p in f.params:
                if p.kind == "object":
                    p.clsid = idx[p.ocls]


def clash_lualib(name="luaclash"):
    """Two wrapped classes with the same unqualified name in different namespaces and NO format overrides:
    every default Lua/C name of a class is built from the unqualified name only."""
    lib = LuaLib(name)
    k1, k2 = "ca::Node", "cb::Node"
    c1 = _mk(lib, "ctor", "ctor", k1, [[]], [k1])
    dep = _mk(lib, "depth", "method", k1, [[]], ["int"])
    c2 = _mk(lib, "ctor", "ctor", k2, [[]], [k2])
    wid = _mk(lib, "width", "method", k2, [[]], ["int"])
    lib.nss = [Ns("ca", classes=[(k1, c1 + dep)]), Ns("cb", classes=[(k2, c2 + wid)])]
    visit = _mk(lib, "visit", "free", None, [[(k1 + " *", None)]], ["int"])
    measure = _mk(lib, "measure", "free", None, [[(k2 + " *", None)]], ["int"])
    lib.late_free = visit + measure
    lib.groups += [Group("Node", "ctor", k1, c1, scope="ca::"), Group("depth", "method", k1, dep, scope="ca::"),
                   Group("Node", "ctor", k2, c2, scope="cb::"), Group("width", "method", k2, wid, scope="cb::"),
                   Group("visit", "free", None, visit), Group("measure", "free", None, measure)]
    number_classes(lib)
    return lib
