"""Generator of numpy-free library descriptions for the Python wrapper (C03), together with an
instrumented subject library (a header with inline bodies that record the arguments they receive
in a trace buffer and return known values) and the metadata an oracle needs to state, without any
model, what every Python call must deliver.

All randomness comes from the `random.Random` passed in.

Kinds of parameters
  in      int long short size_t uint float double bool cstr string enum cls pt ptref
          ilist dlist strlist (list-mode arrays, each followed by an `implied` size parameter) vec (std::vector<int>)
  out     int_out double_out string_out pt_out dvec_out (std::vector<double>)
  inout   int_inout double_inout ilist_inout clsptr
  implied (no Python argument: size of the named list parameter)
Results  void int long double bool cstr string enum pt (struct by value) clsptr_res clsref_res (class objects) ivec
Defaults only on int / long / double parameters (trailing, as C++ requires).
"""
import yaml

IN_SCALAR = ["int", "long", "double", "short", "size_t", "uint", "float"]
CTYPE = {"int": "int", "long": "long", "double": "double", "short": "short", "size_t": "size_t",
         "uint": "unsigned int", "float": "float", "bool": "bool"}
INTLIKE = ("int", "long", "short", "size_t", "uint", "enum")
FLOATLIKE = ("double", "float")
LISTKINDS = ("ilist", "dlist", "strlist", "vec", "dvec", "ilist_inout")
ELEM = {"ilist": "int", "dlist": "double", "strlist": "cstr", "vec": "int", "dvec": "double", "ilist_inout": "int"}
DIMKINDS = ("idim_out", "ddim_out")


def base_of(kind):
    if kind in LISTKINDS or kind in ("pt_out", "dvec_out", "int_hidden") or kind in DIMKINDS:
        return kind
    for suf in ("_out", "_inout"):
        if kind.endswith(suf):
            return kind[: -len(suf)]
    return kind


class P:
    def __init__(self, kind, name, default=None, cls=None, of=None, dims=None):
        self.kind = kind
        self.name = name
        self.default = default
        self.cls = cls          # class name for kind "cls"
        self.of = of            # implied: name of the list parameter whose size this is
        self.dims = dims        # idim_out / ddim_out: extents of +dimension(...), expressions over int parameters

    @property
    def intent(self):
        if self.kind == "int_hidden":
            return "out"
        if self.kind in ("clsptr", "ilist_inout"):
            return "inout"          # a non-const class pointer is intent(inout) by default
        if self.kind.endswith("_out"):
            return "out"
        if self.kind.endswith("_inout"):
            return "inout"
        return "in"

    @property
    def visible(self):
        return self.intent != "out" and self.kind != "implied"

    def base(self):
        return base_of(self.kind)

    def ctext(self, language, attrs):
        k, n = self.kind, self.name
        a = lambda t: t if attrs else ""       # noqa: E731
        if k in CTYPE:
            s = "%s %s" % (CTYPE[k], n)
        elif k == "cstr":
            s = "const char *%s" % n
        elif k == "cintp":
            s = "const int *%s" % n
        elif k == "string":
            s = "const std::string &%s" % n
        elif k == "enum":
            s = "%sColor %s" % ("enum " if language == "c" else "", n)
        elif k == "cls":
            s = "const %s &%s" % (self.cls, n)
        elif k == "clsptr":
            s = "%s *%s" % (self.cls, n)
        elif k == "pt":
            s = "const Pt *%s" % n
        elif k == "ptref":
            s = "const Pt &%s" % n
        elif k == "pt_out":
            s = "Pt *%s%s" % (n, a(" +intent(out)"))
        elif k in ("int_out", "double_out"):
            s = "%s *%s%s" % (self.base(), n, a(" +intent(out)"))
        elif k in ("int_inout", "double_inout"):
            s = "%s *%s%s" % (self.base(), n, a(" +intent(inout)"))
        elif k == "cstr_out":
            s = "char *%s%s" % (n, a(" +intent(out)+charlen(20)"))
        elif k == "int_hidden":
            s = "int *%s%s" % (n, a(" +intent(out)+hidden"))
        elif k == "string_out":
            s = "std::string &%s%s" % (n, a(" +intent(out)"))
        elif k == "string_inout":
            s = "std::string &%s%s" % (n, a(" +intent(inout)"))
        elif k == "ilist":
            s = "const int *%s%s" % (n, a(" +rank(1)"))
        elif k == "dlist":
            s = "const double *%s%s" % (n, a(" +rank(1)"))
        elif k == "ilist_inout":
            s = "int *%s%s" % (n, a(" +rank(1)+intent(inout)"))
        elif k == "strlist":
            s = "char **%s%s" % (n, a(" +intent(in)"))
        elif k == "vec":
            s = "const std::vector<int> &%s" % n
        elif k == "dvec":
            s = "const std::vector<double> &%s" % n
        elif k in DIMKINDS:
            s = "%s *%s%s" % ("int" if k == "idim_out" else "double", n, a(" +intent(out)+dimension(%s)" % ",".join(self.dims)))
        elif k == "dvec_out":
            s = "std::vector<double> &%s%s" % (n, a(" +intent(out)"))
        elif k == "implied":
            s = "int %s%s" % (n, a(" +implied(size(%s))" % self.of))
        else:
            raise AssertionError(k)
        if attrs:
            s = respell_intent(s, n)
        if self.default is not None:
            s += " = %s" % fmt_default(self.default)
        return s

    def decl(self, language):
        return self.ctext(language, True)

    def cxx(self, language):
        """parameter in the subject header"""
        return self.ctext(language, False)


def respell_intent(s, name):
    """attribute values are case-insensitive in a declaration (`+intent(OUT)`): the spelling varies with the parameter name"""
    h = sum(map(ord, name)) % 3
    if h == 0:
        return s
    for v in ("out", "inout", "in"):
        s = s.replace("intent(%s)" % v, "intent(%s)" % (v.upper() if h == 1 else v.capitalize()))
    return s


def fmt_default(v):
    return repr(v) if isinstance(v, float) else str(v)


RESULT_DECL = {"void": "void", "int": "int", "long": "long", "double": "double", "bool": "bool",
               "cstr": "const char *", "string": "const std::string", "enum": "Color", "pt": "Pt",
               "ivec": "std::vector<int>"}


class F:
    def __init__(self, name, result, params, cls=None, static=False, ctor=False, label=None, rescls=None, resdims=None):
        self.name = name
        self.result = result      # see module docstring
        self.params = params
        self.cls = cls
        self.static = static
        self.ctor = ctor
        self.label = label or name
        self.rescls = rescls      # class of a clsptr_res / clsref_res result
        self.resdims = resdims    # idim_res: extents of the +dimension(...) of the int * result
        self.is_struct = False    # the constructor Shroud generates for a struct wrapped as a class

    def decl(self, language):
        args = ", ".join(p.decl(language) for p in self.params)
        if language == "c" and not self.params:
            args = "void"
        if self.ctor:
            return "%s(%s)" % (self.cls, args)
        if self.result == "clsptr_res":
            res = "%s *" % self.rescls
        elif self.result == "clsref_res":
            res = "const %s &" % self.rescls
        elif self.result == "idim_res":
            return "int *%s(%s) +dimension(%s)" % (self.name, args, ",".join(self.resdims))
        else:
            res = RESULT_DECL[self.result]
        return "%s%s %s(%s)" % ("static " if self.static else "", res, self.name, args)

    @property
    def vis(self):
        return [p for p in self.params if p.visible]


RESULT_VALUE = {"int": 7, "long": 8, "double": 2.5, "bool": True, "cstr": "rvc", "string": "rvs", "enum": 5,
                "pt": (70, 0.5), "ivec": [2, 4, 6], "clsptr_res": 77, "clsref_res": 78}


def dim_total(dims, env):
    """number of elements of +dimension(dims) for the argument values env, computed from the declaration"""
    n = 1
    for e in dims:
        n *= int(eval(e, {"__builtins__": {}}, dict(env)))
    return n


def c_total(dims, hidden=()):
    """the element count in C; a hidden intent(out) argument that an extent names is read through its pointer"""
    import re
    out = []
    for e in dims:
        for h in hidden:
            e = re.sub(r"\b%s\b" % re.escape(h), "(*%s)" % h, e)
        out.append("(%s)" % e)
    return "*".join(out)


def out_value(p, idx, inval=None, env=None):
    """value the subject library stores into an out / inout parameter (idx = position in the parameter list)"""
    b = p.base()
    if p.kind == "idim_out":
        return [100 + i for i in range(dim_total(p.dims, env))]
    if p.kind == "ddim_out":
        return [i + 0.5 for i in range(dim_total(p.dims, env))]
    if p.kind == "ilist_inout":
        return [2 * int(x) for x in inval]
    if p.kind == "pt_out":
        return (60 + idx, 0.25)
    if p.kind == "dvec_out":
        return [0.5, 1.5]
    if p.kind == "string_inout":
        return "<" + inval + ">"
    if p.kind == "int_hidden":
        return 3 + idx
    if p.kind == "cstr_out":
        return "co%d" % idx
    if p.intent == "inout":
        return inval + 1
    if b == "int":
        return 40 + idx
    if b == "double":
        return 0.5 + idx
    if b == "string":
        return "so%d" % idx
    raise AssertionError(p.kind)


def trace_value(kind, v):
    """text the subject library writes for a received value"""
    b = base_of(kind)
    if b in LISTKINDS:
        return "[" + ";".join(trace_value(ELEM[b], x) for x in v) + "]"
    if b in ("pt", "ptref"):
        return "%d/%.6g" % (int(v[0]), float(v[1]))
    if b in INTLIKE or b in ("implied", "cintp"):
        return "%d" % int(v)
    if b in FLOATLIKE:
        return "%.6g" % float(v)
    if b == "bool":
        return "1" if v else "0"
    if b in ("cstr", "string"):
        return v
    if b in ("cls", "clsptr"):
        return "%d" % v          # the instance's flag
    raise AssertionError(kind)


def _trace_stmt(f, language):
    """C statements that append `label[flag](tok,tok,...);` to the trace"""
    st = []
    if f.cls and not f.static and not f.ctor:
        st.append('SUBJ_TR("%s[%%d](", flag);' % f.label)
    else:
        st.append('SUBJ_TR("%s(");' % f.label)
    first = True
    for p in f.params:
        if p.intent == "out":
            continue
        b = p.base()
        sep = "" if first else ","
        first = False
        deref = "*" if (p.intent == "inout" and b not in ("clsptr", "ilist_inout")) else ""
        n = p.name
        if b == "clsptr":
            st.append('SUBJ_TR("%s%%d", %s->flag);' % (sep, n))
        elif b in ("ilist", "ilist_inout", "dlist", "strlist"):
            size = [q.name for q in f.params if q.kind == "implied" and q.of == n][0]
            fn = {"ilist": "subj_ilist", "ilist_inout": "subj_ilist", "dlist": "subj_dlist", "strlist": "subj_slist"}[b]
            st.append('SUBJ_TR("%s"); %s(%s, %s);' % (sep, fn, n, size))
        elif b == "vec":
            st.append('SUBJ_TR("%s"); subj_ilist(%s.empty() ? (const int *) 0 : &%s[0], (int) %s.size());' % (sep, n, n, n))
        elif b == "dvec":
            st.append('SUBJ_TR("%s"); subj_dlist(%s.empty() ? (const double *) 0 : &%s[0], (int) %s.size());' % (sep, n, n, n))
        elif b == "pt":
            st.append('SUBJ_TR("%s%%d/%%.6g", %s->x, %s->y);' % (sep, n, n))
        elif b == "ptref":
            st.append('SUBJ_TR("%s%%d/%%.6g", %s.x, %s.y);' % (sep, n, n))
        elif b == "cintp":
            st.append('SUBJ_TR("%s%%ld", (long)*%s);' % (sep, n))
        elif b in INTLIKE or b == "implied":
            st.append('SUBJ_TR("%s%%ld", (long)%s%s);' % (sep, deref, n))
        elif b in FLOATLIKE:
            st.append('SUBJ_TR("%s%%.6g", (double)%s%s);' % (sep, deref, n))
        elif b == "bool":
            st.append('SUBJ_TR("%s%%d", (int)%s);' % (sep, n))
        elif b == "cstr":
            st.append('SUBJ_TR("%s%%s", %s);' % (sep, n))
        elif b == "string":
            st.append('SUBJ_TR("%s%%s", %s.c_str());' % (sep, n))
        elif b == "cls":
            st.append('SUBJ_TR("%s%%d", %s.flag);' % (sep, n))
        else:
            raise AssertionError(p.kind)
    st.append('SUBJ_TR(");");')
    return " ".join(st)


def _body(f, language):
    lines = [_trace_stmt(f, language)]
    for idx, p in enumerate(f.params):
        if p.kind == "clsptr":
            continue
        if p.kind == "ilist_inout":
            size = [q.name for q in f.params if q.kind == "implied" and q.of == p.name][0]
            lines.append("{ int i_; for (i_ = 0; i_ < %s; i_++) %s[i_] *= 2; }" % (size, p.name))
        elif p.kind == "pt_out":
            v = out_value(p, idx)
            lines.append("%s->x = %d; %s->y = %r;" % (p.name, v[0], p.name, v[1]))
        elif p.kind == "dvec_out":
            lines.append("%s.clear(); %s.push_back(0.5); %s.push_back(1.5);" % (p.name, p.name, p.name))
        elif p.kind == "idim_out":
            lines.append("{ int i_; for (i_ = 0; i_ < %s; i_++) %s[i_] = 100 + i_; }" % (c_total(p.dims), p.name))
        elif p.kind == "ddim_out":
            lines.append("{ int i_; for (i_ = 0; i_ < %s; i_++) %s[i_] = i_ + 0.5; }" % (c_total(p.dims), p.name))
        elif p.kind == "string_inout":
            lines.append('%s = "<" + %s + ">";' % (p.name, p.name))
        elif p.kind == "cstr_out":
            lines.append('strcpy(%s, "%s");' % (p.name, out_value(p, idx)))
        elif p.intent == "inout":
            lines.append("*%s = *%s + 1;" % (p.name, p.name))
        elif p.intent == "out":
            v = out_value(p, idx)
            if p.base() == "string":
                lines.append('%s = "%s";' % (p.name, v))
            else:
                lines.append("*%s = %s;" % (p.name, repr(v) if isinstance(v, float) else v))
    if f.ctor:
        pass
    elif f.name == "getflag":
        lines.append("return flag;")
    elif f.name == "setflag":
        lines.append("flag = v;")
    elif f.name == "addflag":
        lines.append("flag += d; return flag;")
    elif f.result != "void":
        v = RESULT_VALUE.get(f.result)
        if f.result == "bool":
            lines.append("return %s;" % ("true" if language != "c" else "1"))
        elif f.result == "cstr":
            lines.append('return "%s";' % v)
        elif f.result == "string":
            lines.append('return std::string("%s");' % v)
        elif f.result == "enum":
            lines.append("return GREEN;")
        elif f.result == "pt":
            lines.append("Pt r_; r_.x = %d; r_.y = %r; return r_;" % v)
        elif f.result == "idim_res":
            hid = [q.name for q in f.params if q.kind == "int_hidden"]
            lines.append("static int t_[8192]; { int i_; for (i_ = 0; i_ < %s; i_++) t_[i_] = 200 + i_; } return t_;" % c_total(f.resdims, hid))
        elif f.result == "ivec":
            lines.append("std::vector<int> r_; r_.push_back(2); r_.push_back(4); r_.push_back(6); return r_;")
        elif f.result in ("clsptr_res", "clsref_res"):
            # the library's own object, made on first use (its construction is not part of the call's trace)
            lines.append("static %s *r_ = 0; if (!r_) { size_t k_ = strlen(subj_trace_buf); r_ = new %s(%d); "
                         "subj_trace_buf[k_] = 0; } return %sr_;" % (f.rescls, f.rescls, v, "" if f.result == "clsptr_res" else "*"))
        else:
            lines.append("return %s;" % v)
    return " ".join(lines)


class PyLib:
    """name, language, free functions, classes {name: [F]}, enum, struct Pt"""
    ENUM = [("RED", 0), ("GREEN", 5), ("BLUE", 6)]

    def __init__(self, name, language, functions, classes=None, enum=True):
        self.name = name
        self.language = language
        self.functions = functions
        self.classes = classes or {}
        self.enum = enum
        self.struct = language != "c"
        for cname, fs in self.classes.items():
            if not any(f.name == "getflag" for f in fs):
                fs.append(F("getflag", "int", [], cls=cname, label=cname + ".getflag"))
                fs.append(F("setflag", "void", [P("int", "v")], cls=cname, label=cname + ".setflag"))
                fs.append(F("addflag", "int", [P("int", "d")], cls=cname, label=cname + ".addflag"))
        # the constructor Shroud generates for the struct wrapped as a class: every field an optional keyword
        self.struct_ctor = F("Pt", None, [P("int", "x", default=0), P("double", "y", default=0.0)], cls="Pt", ctor=True,
                             label="Pt#ctor")
        self.struct_ctor.is_struct = True

    def header_name(self):
        return self.name + (".h" if self.language == "c" else ".hpp")

    def yaml(self):
        decls = []
        if self.enum:
            decls.append({"decl": "enum Color { RED, GREEN = 5, BLUE };"})
        if self.struct:
            decls.append({"decl": "struct Pt { int x; double y; };"})
        for cname, fs in self.classes.items():
            decls.append({"decl": "class %s" % cname,
                          "declarations": [{"decl": f.decl(self.language)} for f in fs] + [{"decl": "~%s()" % cname}]})
        for f in self.functions:
            decls.append({"decl": f.decl(self.language)})
        d = {"library": self.name, "cxx_header": self.header_name(), "language": self.language,
             "options": {"wrap_python": True, "wrap_c": False, "wrap_fortran": False, "wrap_lua": False,
                         "PY_array_arg": "list", "PY_struct_arg": "class"},
             "declarations": decls}
        return yaml.safe_dump(d, default_flow_style=False, sort_keys=False)

    def header(self):
        L = self.language
        out = ["#ifndef SUBJ_%s_H" % self.name.upper(), "#define SUBJ_%s_H" % self.name.upper(),
               "#include <stdio.h>", "#include <string.h>"]
        if L != "c":
            out.append("#include <string>")
            out.append("#include <vector>")
            out.append('extern "C" {')
        else:
            out.append("#include <stdbool.h>")
            out.append("#include <stddef.h>")
        out += ["extern char subj_trace_buf[8192];", "const char *subj_trace(void);", "void subj_reset(void);"]
        if L != "c":
            out.append("}")
        out.append("#define SUBJ_TR(...) do { size_t n_ = strlen(subj_trace_buf); "
                   "snprintf(subj_trace_buf + n_, sizeof(subj_trace_buf) - n_, __VA_ARGS__); } while (0)")
        out.append('static inline void subj_ilist(const int *a, int n) { int i; SUBJ_TR("["); '
                   'for (i = 0; i < n; i++) SUBJ_TR(i ? ";%d" : "%d", a[i]); SUBJ_TR("]"); }')
        out.append('static inline void subj_dlist(const double *a, int n) { int i; SUBJ_TR("["); '
                   'for (i = 0; i < n; i++) SUBJ_TR(i ? ";%.6g" : "%.6g", a[i]); SUBJ_TR("]"); }')
        out.append('static inline void subj_slist(char **a, int n) { int i; SUBJ_TR("["); '
                   'for (i = 0; i < n; i++) SUBJ_TR(i ? ";%s" : "%s", a[i]); SUBJ_TR("]"); }')
        if self.enum:
            out.append("enum Color { RED, GREEN = 5, BLUE };")
        if self.struct:
            out.append("struct Pt { int x; double y; };")
        for cname, fs in self.classes.items():
            out.append("class %s { public: int flag;" % cname)
            for f in fs:
                args = ", ".join(p.cxx(L) for p in f.params)
                if f.ctor:
                    init = "flag(%s)" % ("flag" if any(p.name == "flag" for p in f.params) else "-1")
                    out.append("  %s(%s) : %s { %s }" % (cname, args, init, _body(f, L)))
                else:
                    out.append("  %s(%s) { %s }" % (f.decl(L).split("(")[0], args, _body(f, L)))
            out.append('  ~%s() { }' % cname)
            out.append("};")
        for f in self.functions:
            args = ", ".join(p.cxx(L) for p in f.params) or ("void" if L == "c" else "")
            out.append("static inline %s(%s) { %s }" % (f.decl(L).split("(")[0], args, _body(f, L)))
        out.append("#endif")
        return "\n".join(out) + "\n"

    def subject_source(self):
        body = ["char subj_trace_buf[8192];", "const char *subj_trace(void) { return subj_trace_buf; }",
                "void subj_reset(void) { subj_trace_buf[0] = 0; }"]
        if self.language == "c":
            return '#include "%s"\n' % self.header_name() + "\n".join(body) + "\n"
        return '#include "%s"\nextern "C" {\n' % self.header_name() + "\n".join(body) + "\n}\n"

    def all_functions(self):
        for f in self.functions:
            yield f
        for fs in self.classes.values():
            for f in fs:
                yield f

    def groups(self):
        """overload groups: (cls or None, name) -> [F] in declaration order"""
        g = {}
        for f in self.all_functions():
            key = (f.cls, "__init__" if f.ctor else f.name)
            g.setdefault(key, []).append(f)
        if self.struct:
            g[("Pt", "__init__")] = [self.struct_ctor]
        return g


# ---------------------------------------------------------------------------- generation
NO_DEFAULT_WITH = ()

EXTENT_FORMS = ["{a}", "{a}+1", "2", "{a}*2", "{a}+{b}", "({a}+1)", "3", "{b}"]


def rand_dims(r, names):
    """extents of a +dimension: rank 1..3, sums / products / constants over the int parameters `names`"""
    rank = r.choice([1, 2, 2, 3])
    dims = []
    for _ in range(rank):
        a, b = r.choice(names), r.choice(names)
        dims.append(r.choice(EXTENT_FORMS).format(a=a, b=b))
    return dims


def rand_dim_function(r, language, name):
    """a function with a list-mode intent(out) argument or pointer result whose size is an expression over
    its int arguments; the library writes position dependent values so that a wrong size shows"""
    names = r.choice([["n"], ["nrow", "ncol"], ["n", "m", "k"]])
    params = [P("int", n) for n in names]
    if r.random() < 0.3:
        params.insert(r.randrange(len(params) + 1), P(r.choice(["double", "bool", "cstr"]), "x"))
    if r.random() < 0.25:
        params.append(P("int_hidden", "cnt"))
        return F(name, "idim_res", params, resdims=rand_dims(r, names + ["cnt"]))
    if r.random() < 0.4:
        return F(name, "idim_res", params, resdims=rand_dims(r, names))
    k = r.choice(["idim_out", "ddim_out"])
    params.insert(r.randrange(len(params) + 1), P(k, "out", dims=rand_dims(r, names)))
    if r.random() < 0.3:
        params.append(P(r.choice(DIMKINDS), "out2", dims=rand_dims(r, names)))
    return F(name, r.choice(["void", "int"]), params)


def rand_param(r, language, idx, cls=None, allow=("in", "out", "inout")):
    """one parameter (a list-mode array brings its implied size parameter along)"""
    kinds = ["int", "int", "long", "double", "bool", "cstr", "short", "size_t", "uint", "float", "ilist", "dlist", "strlist"]
    if language != "c":
        kinds += ["string", "string", "enum", "pt", "ptref", "vec", "dvec"]
        if cls:
            kinds.append("cls")
    if "out" in allow:
        kinds += ["int_out", "double_out", "cstr_out", "int_hidden"] + (["string_out", "pt_out", "dvec_out"] if language != "c" else [])
    if "inout" in allow:
        kinds += ["int_inout", "double_inout", "ilist_inout"] + (["string_inout"] if language != "c" else [])
    k = r.choice(kinds)
    n = "a%d" % idx
    ps = [P(k, n, cls=cls if k == "cls" else None)]
    if k in ("ilist", "dlist", "strlist", "ilist_inout"):
        ps.append(P("implied", "n%d" % idx, of=n))
    return ps


def rand_function(r, language, name, cls_arg=None, nmax=4, in_cls=None, static=False):
    n = r.randrange(0, nmax + 1)
    params = []
    for i in range(n):
        if sum(1 for p in params if p.visible) >= 4:
            break
        params += rand_param(r, language, i, cls=cls_arg)
    if language != "c" and not any(p.kind in NO_DEFAULT_WITH for p in params):
        # (locals of these kinds are declared inside the `case` block of the default-argument switch and used
        #  after it: the generated file does not compile - outside C03, see C05)
        nd = r.choice([0, 0, 1, 2, 3])
        for j in range(nd):
            if sum(1 for p in params if p.visible) >= 4:
                break
            k = r.choice(["int", "long", "double"])
            dv = r.choice([10, 20, 100]) + j if k != "double" else r.choice([2.5, 4.25]) + j
            params.append(P(k, "d%d" % j, default=dv))
    res = r.choice(["void", "void", "int", "long", "double", "bool", "cstr"] +
                   (["string", "enum", "pt", "ivec"] if language != "c" else []))
    if False and res in ("pt", "ivec") and any(p.default is not None or p.kind not in CTYPE for p in params):
        # exclusion lifted by C05 after the wrapp.py repair (result pre_call written after the declarations of the single call)
        # (a struct / vector result allocates before the declarations of std::string, std::vector and class
        #  locals: `goto fail` crosses their initialisation and the file does not compile - outside C03, see C05)
        res = "int"
    return F(name, res, params, cls=in_cls, static=static, label=(in_cls + "." if in_cls else "") + name)


def fixed_cxx(name):
    """the deterministic library: the shapes named in the design (default-argument switch, overloads,
    overloads with out arguments, overload with a default, mixed intents, class with overloaded ctor)."""
    C = "Cls0"
    cls = [
        F(C, None, [], cls=C, ctor=True, label="Cls0#0"),
        F(C, None, [P("int", "flag")], cls=C, ctor=True, label="Cls0#1"),
        F("meth", "int", [P("int", "i"), P("double", "d", default=1.5)], cls=C, label="Cls0.meth"),
        F("over", "void", [P("int", "i")], cls=C, label="Cls0.over#0"),
        F("over", "void", [P("string", "s")], cls=C, label="Cls0.over#1"),
        F("sf", "int", [P("int", "i")], cls=C, static=True, label="Cls0.sf"),
        F("name", "string", [], cls=C, label="Cls0.name"),
        F("both", "bool", [P("bool", "a"), P("int_out", "o")], cls=C, label="Cls0.both"),
    ]
    fs = [
        F("f3", "int", [P("int", "i"), P("int", "j", default=10), P("int", "k", default=100)]),
        F("fmix", "double", [P("long", "a"), P("double", "b", default=2.5)]),
        F("fall", "void", [P("int", "i", default=1), P("long", "j", default=2), P("double", "k", default=3.5)]),
        F("g", "void", [P("int", "i")], label="g#0"),
        F("g", "void", [P("string", "s")], label="g#1"),
        F("g", "void", [P("int", "i"), P("int", "j")], label="g#2"),
        F("go", "void", [P("int", "i"), P("int_out", "o")], label="go#0"),
        F("go", "void", [P("cstr", "s"), P("int_out", "o")], label="go#1"),
        F("gd", "int", [P("int", "i"), P("long", "n", default=4)], label="gd#0"),
        F("gd", "int", [P("string", "s")], label="gd#1"),
        F("h", "double", [P("int", "i"), P("int_out", "o"), P("double_inout", "io"), P("cstr", "s"), P("bool", "b"),
                          P("string", "st")]),
        F("so", "void", [P("string_out", "s"), P("int_out", "n")]),
        F("so1", "void", [P("string_out", "s")]),
        # every returned kind once as the only returned value (single-object path) and once inside a tuple
        F("sio1", "void", [P("string_inout", "s")]),
        F("sio2", "int", [P("string_inout", "s"), P("int", "k")]),
        F("iio1", "void", [P("int_inout", "v")]),
        F("dio1", "void", [P("int", "k"), P("double_inout", "v")]),
        F("io1", "void", [P("int_out", "v")]),
        F("do1", "void", [P("double_out", "v"), P("int", "k")]),
        F("lio1", "void", [P("ilist_inout", "a"), P("implied", "n", of="a")]),
        F("po1", "void", [P("int", "k"), P("pt_out", "p")]),
        F("fe", "int", [P("enum", "c"), P("long", "n", default=3)]),
        F("bb", "bool", [P("bool", "a"), P("bool", "b")]),
        F("rs", "string", [P("cstr", "s")]),
        F("many", "long", [P("short", "a"), P("uint", "b"), P("float", "c"), P("size_t", "d")]),
        F("usecls", "int", [P("cls", "c", cls=C), P("int", "i")]),
        F("useptr", "int", [P("clsptr", "c", cls=C), P("int", "i")]),
        F("outmid", "int", [P("int", "i"), P("double_out", "o"), P("int", "j", default=30), P("long", "k", default=40)]),
        F("nothing", "void", []),
        # list-mode arrays (with implied sizes), vectors, struct-as-class, enum and class results
        F("isum", "int", [P("ilist", "arr"), P("implied", "n", of="arr")]),
        F("dsum", "double", [P("dlist", "arr"), P("implied", "n", of="arr"), P("int", "k", default=2)]),
        F("iscale", "void", [P("ilist_inout", "arr"), P("implied", "n", of="arr"), P("int", "k")]),
        F("nstr", "int", [P("strlist", "names"), P("implied", "n", of="names")]),
        F("vsum", "int", [P("vec", "v"), P("int", "k")]),
        F("vout", "void", [P("dvec_out", "w"), P("int", "n")]),
        F("vret", "ivec", [P("int", "n")]),
        F("two", "long", [P("ilist", "a"), P("implied", "na", of="a"), P("dlist", "b"), P("implied", "nb", of="b")]),
        F("psum", "int", [P("pt", "p"), P("int", "k", default=2)]),
        F("pref", "int", [P("ptref", "p")]),
        F("pmk", "pt", [P("int", "c")]),
        F("pout", "void", [P("pt_out", "p")]),
        F("pboth", "int", [P("pt", "p"), P("pt_out", "q"), P("int_out", "o")]),
        F("nextc", "enum", [P("enum", "c")]),
        # multi-extent +dimension expressions: list-mode intent(out) arguments and pointer results
        F("ramp", "void", [P("int", "n"), P("idim_out", "out", dims=["n"])]),
        F("edge", "void", [P("int", "n"), P("idim_out", "out", dims=["n+1"])]),
        F("border", "void", [P("int", "nrow"), P("int", "ncol"), P("idim_out", "out", dims=["nrow+1", "ncol"])]),
        F("cube", "int", [P("int", "n"), P("ddim_out", "out", dims=["2", "n", "n+1"])]),
        F("table", "idim_res", [P("int", "nrow"), P("int", "ncol")], resdims=["nrow+1", "ncol"]),
        F("table3", "idim_res", [P("int", "n"), P("int", "m")], resdims=["n+m", "2", "m+1"]),
        # overload sets distinguished only by list / vector element type, and scalar versus list
        F("total", "double", [P("ilist", "v"), P("implied", "n", of="v")], label="total#0"),
        F("total", "double", [P("dlist", "v"), P("implied", "n", of="v")], label="total#1"),
        F("vtot", "double", [P("vec", "v")], label="vtot#0"),
        F("vtot", "double", [P("dvec", "v")], label="vtot#1"),
        F("mix", "int", [P("int", "x")], label="mix#0"),
        F("mix", "int", [P("ilist", "x"), P("implied", "n", of="x")], label="mix#1"),
        # overloads that differ only in the constness of a pointer (the wrapper's own variable is not const)
        F("cf", "int", [P("ilist", "p"), P("implied", "n", of="p")], label="cf#0"),
        F("cf", "int", [P("int_out", "out"), P("int", "q")], label="cf#1"),
        F("cg", "int", [P("cintp", "v")], label="cg#0"),
        F("cg", "int", [P("int_out", "v")], label="cg#1"),
        F("ch", "int", [P("cstr", "s")], label="ch#0"),
        F("ch", "int", [P("cstr_out", "s")], label="ch#1"),
        F("cout1", "void", [P("cstr_out", "s")]),
        F("cout2", "int", [P("int", "k"), P("cstr_out", "s")]),
        # hidden intent(out) arguments: passed to the library, never returned; may size a +dimension result
        F("hid", "void", [P("int", "i"), P("int_hidden", "o")]),
        F("hid2", "int", [P("int_hidden", "o"), P("int", "i"), P("int_out", "p")]),
        F("series", "idim_res", [P("int_hidden", "count")], resdims=["count"]),
        F("series2", "idim_res", [P("int", "n"), P("int_hidden", "count")], resdims=["count", "n+1"]),
        F("mixv", "int", [P("dvec", "x"), P("int", "k", default=2)], label="mixv#0"),
        F("mixv", "int", [P("double", "x")], label="mixv#1"),
        F("getobj", "clsptr_res", [], rescls=C),
        F("getref", "clsref_res", [P("int", "i")], rescls=C),
        # overload sets with an overload whose parameters are ALL defaulted (zero required arguments)
        F("scale", "int", [P("int", "a", default=1), P("int", "b", default=2)], label="scale#0"),
        F("scale", "int", [P("string", "s")], label="scale#1"),
        F("tail", "void", [P("string", "s"), P("int", "n", default=5)], label="tail#0"),
        F("tail", "void", [P("double", "x", default=0.5), P("long", "y", default=6), P("int", "z", default=7)], label="tail#1"),
        F("zero", "int", [], label="zero#0"),
        F("zero", "int", [P("int", "a"), P("int", "b", default=2)], label="zero#1"),
    ]
    cls += [
        F("bump", "void", [P("int", "by", default=1), P("int", "times", default=1)], cls=C, label="Cls0.bump#0"),
        F("bump", "void", [P("string", "spec")], cls=C, label="Cls0.bump#1"),
    ]
    D, O = "Dflt", "Ovc"
    dcls = [F(D, None, [P("int", "flag", default=3), P("long", "k", default=4)], cls=D, ctor=True, label="Dflt#0"),
            F("get", "int", [], cls=D, label="Dflt.get")]
    ocls = [F(O, None, [P("int", "flag", default=7), P("int", "k", default=8)], cls=O, ctor=True, label="Ovc#0"),
            F(O, None, [P("string", "s")], cls=O, ctor=True, label="Ovc#1"),
            F("get", "int", [P("int", "by", default=1)], cls=O, label="Ovc.get")]
    return PyLib(name, "c++", fs, {C: cls, D: dcls, O: ocls})


NUMERIC = ["int", "long", "double"]


def default_for(kind, i):
    return (2.5 + i) if kind == "double" else (10 * (i + 1) + i)


def shaped(r, name, n, d, head=None, cls=None, prefix="p", out_at=None, result=None):
    """an overload with n Python-visible parameters of which those from position d on are defaulted
    (d == n: no default; d == 0: every parameter defaulted, zero required arguments)"""
    params = []
    for i in range(n):
        if i >= d:
            kind = head if (i == 0 and head in NUMERIC) else r.choice(NUMERIC)
        elif i == 0 and head:
            kind = head
        else:
            kind = r.choice(["int", "long", "double", "bool", "cstr", "string", "short"])
        params.append(P(kind, "%s%d" % (prefix, i), default=default_for(kind, i) if i >= d else None))
        if kind in ("ilist", "dlist"):
            params.append(P("implied", "%sn%d" % (prefix, i), of="%s%d" % (prefix, i)))
    if out_at is not None and out_at <= min(d, n):
        at = out_at
        if at < len(params) and params[at].kind == "implied":
            at += 1
        params.insert(at, P("int_out", prefix + "o"))
    res = result or r.choice(["void", "int", "double", "bool"])
    return F(name, res, params, cls=cls)


def shape_of(f):
    vis = f.vis
    nd = sum(1 for p in vis if p.default is not None)
    first = next((i for i, p in enumerate(vis) if p.default is not None), len(vis))
    return (len(vis), nd, first)


# C++ parameter type classes for overload resolution (const and non-const pointers are different overloads;
# the wrapper keeps the constness in its call since 9b03bee)
CXX_CLASS = {"cstr": "const char*", "cstr_out": "char*", "int_hidden": "int*", "ilist": "const int*", "cintp": "const int*", "ilist_inout": "int*", "int_out": "int*", "int_inout": "int*",
             "idim_out": "int*", "dlist": "const double*", "double_out": "double*", "double_inout": "double*",
             "ddim_out": "double*", "implied": "int", "enum": "int"}


def _cxx_window(f):
    types = [CXX_CLASS.get(p.kind, p.kind) for p in f.params]
    req = sum(1 for p in f.params if p.default is None)
    return types, req


def unambiguous(a, b):
    """C++ accepts both declarations and every call the wrappers make: for every argument count k that
    both overloads accept, their first k parameter types differ"""
    ta, ra = _cxx_window(a)
    tb, rb = _cxx_window(b)
    for k in range(max(ra, rb), min(len(ta), len(tb)) + 1):
        if ta[:k] == tb[:k]:
            return False
    return True


def overload_set(r, base, shapes, cls=None, label_prefix=""):
    """overloads `base` with the given (n, d) shapes, distinguishable by the type of the first parameter;
    shapes that would be ambiguous in C++ next to the ones already chosen are re-drawn or dropped"""
    shared = r.random() < 0.5          # same parameter names in every overload, or distinct per overload
    fs = []
    used = []
    for k, (n, d) in enumerate(shapes):
        for _try in range(20):
            if n == 0:
                head = None
            elif d == 0:
                head = r.choice([h for h in ["int", "double", "long"] if h not in used] or ["long"])
            else:
                pool = ["string", "bool", "cstr", "int", "double", "ilist", "dlist", "cintp"] + (["vec", "dvec"] if d == n else [])
                head = r.choice([h for h in pool if h not in used] or ["short"])
            out_at = r.randrange(0, min(d, n) + 1) if r.random() < 0.25 else None
            f = shaped(r, base, n, d, head=head, cls=cls, prefix="p" if shared else "pqrs"[k % 4], out_at=out_at)
            if all(unambiguous(f, g) for g in fs):
                break
        else:
            continue
        if head:
            used.append(head)
        fs.append(f)
    for k, f in enumerate(fs):
        f.label = "%s%s#%d" % (label_prefix, base, k)
    if len(fs) == 1:
        fs[0].label = label_prefix + base
    return fs


GRID = [(n, d) for n in range(6) for d in range(n + 1)]


def grid_cxx(r, name):
    """every shape (n parameters, defaults from position d), 0 <= d <= n <= 5, inside an overload set,
    as free functions and as methods; the partner overloads are distinguishable by type and have shapes of
    their own; the all-defaulted overload comes first in some sets and last in others"""
    C = "Grid"
    cls = [F(C, None, [], cls=C, ctor=True, label=C + "#0"),
           F(C, None, [P("int", "flag")], cls=C, ctor=True, label=C + "#1")]
    fs = []
    for idx, (n, d) in enumerate(GRID):
        partner = r.choice([(1, 1), (2, 1), (2, 2), (3, 1), (1, 1)])
        shapes = [(n, d), partner] if idx % 2 == 0 else [partner, (n, d)]
        if idx % 5 == 0:
            shapes.append(r.choice(GRID))
        fs += overload_set(r, "g%d%d" % (n, d), shapes)
        if n <= 3 or d == 0 or (n, d) == (5, 2):
            shapes = [(n, d), r.choice([(1, 1), (2, 1)])] if idx % 2 else [r.choice([(1, 1), (2, 1)]), (n, d)]
            cls += overload_set(r, "m%d%d" % (n, d), shapes, cls=C, label_prefix=C + ".")
    return PyLib(name, "c++", fs, {C: cls})


def random_cxx(r, name, nfunc=8):
    C = "Cls%d" % r.randrange(1, 9)
    cls = [F(C, None, [], cls=C, ctor=True, label=C + "#0"),
           F(C, None, [P("int", "flag")], cls=C, ctor=True, label=C + "#1")]
    for i in range(r.randrange(1, 4)):
        cls.append(rand_function(r, "c++", "meth%d" % i, in_cls=C))
    fs = []
    for i in range(nfunc):
        fs.append(rand_function(r, "c++", r.choice(["alpha", "Beta", "gam_ma"]) + str(i), cls_arg=C))
    for i in range(3):
        fs.append(rand_dim_function(r, "c++", "dim%d" % i))
    # overload sets of size 2..3 with random shapes (free functions and one method set)
    for k in range(3):
        shapes = [r.choice(GRID) for _ in range(r.choice([2, 2, 3]))]
        if k == 0:
            shapes[r.randrange(len(shapes))] = (r.randrange(1, 6), 0)      # always one all-defaulted overload
        fs += overload_set(r, "ov%d" % k, shapes)
    shapes = [r.choice(GRID), (r.randrange(1, 4), 0)]
    r.shuffle(shapes)
    cls += overload_set(r, "mov", shapes, cls=C, label_prefix=C + ".")
    # a second class whose only constructor has defaults, and one with an overloaded defaulted constructor
    D = "Dfl%d" % r.randrange(9)
    dn = r.randrange(1, 4)
    dparams = [P("int", "flag", default=3)] + [P(r.choice(NUMERIC), "k%d" % i, default=None) for i in range(dn - 1)]
    for i, p in enumerate(dparams):
        p.default = default_for(p.kind, i)
    dd = r.randrange(0, 2)       # instances for method calls are made with Cls(flag): at most `flag` is required
    for p in dparams[:dd]:
        p.default = None
    dcls = [F(D, None, dparams, cls=D, ctor=True, label=D + "#0"),
            F(D, None, [P("string", "s")], cls=D, ctor=True, label=D + "#1"),
            F("get", "int", [], cls=D, label=D + ".get")]
    return PyLib(name, "c++", fs, {C: cls, D: dcls})


def _rename(f):
    seen = {}
    for i, p in enumerate(f.params):
        if p.name in seen:
            p.name = "%s_%d" % (p.name, i)
        seen[p.name] = True


def random_c(r, name, nfunc=8):
    fs = [rand_function(r, "c", "cf%d" % i) for i in range(nfunc)]
    fs += [rand_dim_function(r, "c", "cdim%d" % i) for i in range(2)]
    return PyLib(name, "c", fs, {}, enum=False)
