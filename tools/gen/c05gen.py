"""Feature-directed generator of library descriptions for the C05 compile oracle.

Every library carries one mandatory FEATURE (plus a few random others) so that the check can sample the
options x features matrix: every option variant meets every feature at least once per thorough run.
Rows and where they are documented:
  class_own_header   class with class-level `cxx_header:` (docs/output.rst "Header Files", docs/reference.rst cxx_header),
                     constructor, destructor, methods; the class lives in its own synthesized header
  class_cpp_if       class with `cpp_if:` (docs/reference.rst cpp_if) with constructor/destructor; compiled with the macro
                     undefined and defined
  callback           function-pointer parameters with 0..5 parameters and long names (docs/tutorial.rst callback1,
                     docs/fortran.rst abstract interfaces)
  long_args          functions with 6..10 parameters with long names (line continuation of prototypes, calls, interfaces)
  long_types         long class / namespace / enum names used in parameter and result types
  strings_vectors    char*/std::string/std::vector in/out/result (tools/gen/libgen.py rows)
  overloads_defaults overloaded functions and trailing default arguments
  enum_ns            enums and nested namespaces
All randomness comes from the `random.Random` passed in."""
import re

import yaml

from tools.gen import libgen

FEATURES = ["class_own_header", "class_cpp_if", "callback", "long_args", "long_types", "strings_vectors",
            "overloads_defaults", "enum_ns"]
CXX_ONLY = {"class_own_header", "class_cpp_if", "long_types", "strings_vectors", "overloads_defaults"}

LONGWORDS = ["temperature", "pressure_gradient", "component_index", "number_of_values", "relative_tolerance",
             "boundary_condition_flag", "time_step_size", "state_vector_length", "iteration_counter", "scaling_factor"]
SCALARS = ["int", "double", "long", "float"]


def _scalar_params(r, n, long_names=True):
    names = r.sample(LONGWORDS, min(n, len(LONGWORDS)))
    return ["%s %s" % (r.choice(SCALARS), nm if long_names else "a%d" % i) for i, nm in enumerate(names)]


def f_class_own_header(r, idx):
    cname = r.choice(["Widget", "GadgetHolder", "MeshPartitionDescriptor"]) + str(idx)
    decls = [{"decl": "%s()" % cname}]
    if r.random() < 0.5:
        decls[0]["format"] = {"function_suffix": "_default"}
        decls.append({"decl": "%s(int capacity)" % cname, "format": {"function_suffix": "_capacity"}})
    decls.append({"decl": "~%s()" % cname})
    decls.append({"decl": "int size() const"})
    if r.random() < 0.5:
        decls.append({"decl": "void resize(%s)" % ", ".join(_scalar_params(r, r.randrange(1, 4)))})
    return [{"decl": "class %s" % cname, "cxx_header": "%s_own.hpp" % cname.lower(), "declarations": decls}], []


def f_class_cpp_if(r, idx):
    cname = "Optional%d" % idx
    macro = "USE_OPTIONAL_%d" % idx
    decls = [{"decl": "%s()" % cname}, {"decl": "~%s()" % cname}, {"decl": "int value(int scale)"}]
    return [{"decl": "class %s" % cname, "cpp_if": "ifdef %s" % macro, "declarations": decls}], [macro]


def f_callback(r, idx):
    out = []
    for k in range(r.randrange(1, 3)):
        # the first callback is always long (4 or 5 parameters with long names): its declaration exceeds any line length
        np_ = r.choice([4, 5]) if k == 0 else r.choice([0, 1, 2, 3, 4, 5])
        params = _scalar_params(r, np_, long_names=(k == 0 or r.random() < 0.7))
        cb = "%s (*%s)(%s)" % (r.choice(["int", "double", "void"]),
                              r.choice(["rhs_function", "op", "user_supplied_callback_function"]),
                              ", ".join(params) if params else "void")
        extra = _scalar_params(r, r.randrange(0, 3))
        args = extra[:1] + [cb] + extra[1:]
        out.append({"decl": "%s integrate_cb%d_%d(%s)" % (r.choice(["int", "void", "double"]), idx, k, ", ".join(args))})
    return out, []


def f_long_args(r, idx):
    n = r.randrange(6, 11)
    return [{"decl": "%s accumulate_all_contributions%d(%s)" % (r.choice(["double", "void", "int"]), idx,
                                                               ", ".join(_scalar_params(r, n)))}], []


def f_long_types(r, idx):
    cname = "VeryLongClassNameForTheGeometryDescriptor%d" % idx
    ns = "extraordinarily_long_namespace_name%d" % idx
    return [
        {"decl": "class %s" % cname, "declarations": [{"decl": "%s()" % cname}, {"decl": "~%s()" % cname},
                                                      {"decl": "unsigned long long count_elements(unsigned long long first_index) const"}]},
        {"decl": "unsigned long long measure%d(const %s & descriptor, unsigned long long first_index, long long offset)" % (idx, cname)},
        {"decl": "namespace %s" % ns, "declarations": [
            {"decl": "enum ColorOfTheBoundaryMarker%d { FIRST_BOUNDARY_MARKER%d, SECOND_BOUNDARY_MARKER%d = 7 };" % (idx, idx, idx)},
            {"decl": "long long scale_value_in_namespace%d(long long original_value, int scaling_factor)" % idx}]},
    ], []


def f_strings_vectors(r, idx, allow_vector=True):
    out = []
    for k in range(r.randrange(1, 4)):
        f = libgen.gen_function(r, "c++", "text_fn%d_%d" % (idx, k))
        if not allow_vector and "std::vector" in f["decl"]:
            f = {"decl": "const char * text_fn%d_%d(const std::string & a0, char *a1 +intent(out)+charlen(20))" % (idx, k)}
        out.append(f)
    return out, []


def f_overloads_defaults(r, idx):
    base = "combine%d" % idx
    return [{"decl": "void %s(int i)" % base}, {"decl": "void %s(double d)" % base}, {"decl": "void %s(int i, long j)" % base},
            {"decl": "double with_defaults%d(double a, int d0 = 1, long d1 = 2, double d2 = 3)" % idx}], []


def f_enum_ns(r, idx, language="c++"):
    e = libgen.gen_enum(r, "Kind%d" % idx)
    if language == "c":
        return [e, {"decl": "int use_kind%d(int k)" % idx}], []
    return [e, {"decl": "namespace outer%d" % idx, "declarations": [
        {"decl": "int outer_fn%d(int a)" % idx},
        {"decl": "namespace inner%d" % idx, "declarations": [{"decl": "double inner_fn%d(double a)" % idx}]}]}], []


def gen(r, feature, language=None, allow_vector=True, name="flib"):
    """returns dict(yaml_text, headers [(name, text)], defines [macro], language, features [..])"""
    if language is None:
        language = "c++" if feature in CXX_ONLY else r.choice(["c", "c++"])
    feats = [feature]
    others = [f for f in FEATURES if f != feature and (language != "c" or f not in CXX_ONLY)]
    feats += r.sample(others, r.randrange(0, 3))
    decls, defines = [], []
    for i, f in enumerate(feats):
        if f == "strings_vectors":
            d, m = f_strings_vectors(r, i, allow_vector)
        elif f == "enum_ns":
            d, m = f_enum_ns(r, i, language)
        else:
            d, m = globals()["f_" + f](r, i)
        decls += d
        defines += m
    ext = ".h" if language == "c" else ".hpp"
    d = {"library": name, "cxx_header": name + ext, "language": language, "declarations": decls}
    return {"yaml_text": yaml.safe_dump(d, default_flow_style=False, sort_keys=False, width=1000), "dict": d,
            "defines": defines, "language": language, "features": feats}
