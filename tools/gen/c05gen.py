"""Feature-directed generator of library descriptions for the C05 compile oracle.

Every library carries one mandatory FEATURE (plus a few random others) so that the check can sample the
options x features matrix: every option variant meets every feature at least once per thorough run.
Rows and where they are documented:
  class_own_header   class with class-level `cxx_header:` (docs/output.rst "Header Files", docs/reference.rst cxx_header),
                     constructor, destructor, methods; the class lives in its own synthesized header
  class_cpp_if       class with `cpp_if:` (docs/reference.rst cpp_if) with constructor/destructor; compiled with the macro
                     undefined and defined
  callback           function-pointer parameters with 0..5 parameters and long names (docs/tutorial.rst callback1,
                     docs/fortran.rst abstract interfaces)
  long_args          functions with 6..10 parameters with long names (line continuation of prototypes, calls, interfaces)
  long_types         long class / namespace / enum names used in parameter and result types
  strings_vectors    char*/std::string/std::vector in/out/result (tools/gen/libgen.py rows)
  overloads_defaults overloaded functions and trailing default arguments
  enum_ns            enums and nested namespaces
  template_defaults  feature COMBINATIONS around clones: function templates (docs/cxx.rst cxx_template) with >= 2 instantiations together
                     with trailing default arguments, overloaded templates, a class method template with a default, fortran_generic
                     with a default: every clone must be declared and defined once
  enum_expr          enumerators defined by expressions over earlier members (BOTH = LEFT + RIGHT, NEXT) at library level, in a
                     namespace, in a class, as enum class, and with a non-default F_enum_member_template (docs/reference.rst)
  struct_members     a struct whose members have kinds nothing else in the module uses (scalar char, bool, short, float, long long,
                     size_t, pointers, fixed arrays): every kind named by a member declaration must be use-associated
  fixed_width        a type that needs a header of its own (int8_t..uint64_t -> <stdint.h>/<cstdint>, size_t -> <stddef.h>) used in
                     exactly ONE place of the library: element type of a std::vector, pointee of an array argument, scalar argument
                     or result (docs/types.rst); the other functions use plain int/double only
  class_result       functions and const methods that return a wrapped class (pointer, reference, value) and take native arguments,
                     with and without +pure (docs/reference.rst pure; F_C_pure_clause / F_pure_clause)
  namespace_helpers  a NOT flattened namespace (default F_flatten_namespace false) whose functions need C helpers of scope cwrap_impl
                     (std::string / char* allocatable results, std::vector out / inout / result) while the library level has only
                     plain scalar functions (or the other way round): the helpers of every module have to reach util<lib>
  struct_in_class    a struct (docs/structs.rst) declared in the library or in a namespace and used by free functions AND by methods
                     of a class of the same library / namespace (argument by pointer, reference, value; result): every wrapper
                     header that mentions the C copy of the struct has to include the header that defines it
  assumed_rank       native pointer arguments with +dimension(..) (docs/fortran.rst assumed-rank; F_CFI statement
                     c_native_*_in_cfi with f_module_line) between arguments of OTHER kinds before and after
  fmodule_mix        arguments whose statement entries carry f_module / f_module_line (void*, void**, T** in/out, char scalar,
                     char**, std::string by value, +deref(raw/pointer) results, std::vector out/result, +cdesc), each between
                     scalars of different kinds, so that a module's ONLY list is built from several entries
  class_multi_header a class whose class-level `cxx_header:` is a blank-delimited LIST of headers that are not self-contained: each header
                     uses a typedef of the one listed before it, and the required order is (mostly) not the alphabetical one
                     (docs/reference.rst cxx_header: "Blank delimited list of header files ... The order will be preserved when
                     generating wrapper files"); with and without destructor (the destructor body lives in the library file), also
                     a second such class and a class inside a namespace
  doxygen_text       functions (with and without a Fortran wrapper body), methods with a `doxygen:` block (docs/reference.rst doxygen,
                     docs/input.rst) whose brief / description / return are single-line, multi-line block scalars with and without the
                     trailing newline, with blank lines, tabs and characters special to the comment syntax of the other language
All randomness comes from the `random.Random` passed in."""
import re

import yaml

from tools.gen import libgen

FEATURES = ["class_multi_header", "doxygen_text", "template_defaults", "enum_expr", "struct_members", "fixed_width", "class_result", "namespace_helpers", "struct_in_class", "assumed_rank", "fmodule_mix", "class_own_header", "class_cpp_if", "callback", "long_args", "long_types", "strings_vectors",
            "overloads_defaults", "enum_ns"]
CXX_ONLY = {"class_multi_header", "template_defaults", "class_result", "namespace_helpers", "struct_in_class", "class_own_header", "class_cpp_if", "long_types", "strings_vectors", "overloads_defaults"}

SOLO = {"fixed_width", "namespace_helpers", "struct_members"}

LONGWORDS = ["temperature", "pressure_gradient", "component_index", "number_of_values", "relative_tolerance",
             "boundary_condition_flag", "time_step_size", "state_vector_length", "iteration_counter", "scaling_factor"]
SCALARS = ["int", "double", "long", "float"]


def _scalar_params(r, n, long_names=True):
    names = r.sample(LONGWORDS, min(n, len(LONGWORDS)))
    return ["%s %s" % (r.choice(SCALARS), nm if long_names else "a%d" % i) for i, nm in enumerate(names)]


KINDS = ["int", "long", "double", "float", "short", "size_t"]


_uid = [0]


def _mixed(r, n, used):
    """n scalar parameters (unique names) of kinds not in `used` where possible"""
    out = []
    for i in range(n):
        cand = [k for k in KINDS if k not in used] or KINDS
        k = r.choice(cand)
        used.add(k)
        _uid[0] += 1
        out.append("%s %s_%d" % (k, r.choice(["count", "scale", "offset", "flag"]), _uid[0]))
    return out


def f_assumed_rank(r, idx):
    out = []
    for k in range(r.randrange(2, 4)):
        akind = r.choice(["double", "float", "int", "long"])
        used = {akind}
        before = _mixed(r, r.randrange(1, 3), used)
        after = _mixed(r, r.randrange(0, 3), used)
        arr = "const %s *values%d +dimension(..)" % (akind, k)
        res = r.choice(["void", akind, r.choice(KINDS)])
        out.append({"decl": "%s reduce_values%d_%d(%s)" % (res, idx, k, ", ".join(before + [arr] + after))})
    return out, []


def f_fmodule_mix(r, idx, language="c++"):
    used = set()
    pool = [
        "void *opaque%(k)d", "void **handle%(k)d", "char letter%(k)d", "char **names%(k)d +intent(in)",
        "int **table%(k)d +intent(out)+dimension(n%(k)d)", "double *work%(k)d +intent(inout)+rank(1)",
        "int *cd%(k)d +intent(in)+cdesc+rank(1)",
    ]
    if language != "c":
        pool += ["std::string word%(k)d", "std::vector<int> &vec%(k)d +intent(out)", "std::vector<double> &vio%(k)d +intent(inout)"]
    out = []
    for k in range(r.randrange(2, 5)):
        special = r.choice(pool) % {"k": k}
        before = _mixed(r, r.randrange(1, 3), used)
        if "dimension(n%d)" % k in special:
            before.append("int n%d" % k)
        after = _mixed(r, r.randrange(0, 2), used)
        res = r.choice(["void", "int", "double"])
        out.append({"decl": "%s mixed_call%d_%d(%s)" % (res, idx, k, ", ".join(before + [special] + after))})
    out.append({"decl": r.choice(["int *raw_result%d(double x) +deref(raw)", "void *opaque_result%d(int x)",
                                  "int *pointer_result%d(int n) +deref(pointer)+dimension(n)"]) % idx})
    return out, []


def f_template_defaults(r, idx):
    out = []
    inst = r.sample(["<int>", "<double>", "<long>", "<float>"], r.randrange(2, 4))
    ndef = r.randrange(1, 3)
    defs = ", ".join("%s d%d = %d" % (r.choice(["int", "long"]), j, j + 1) for j in range(ndef))
    out.append({"decl": "template<typename T> void accum%d(T value, %s)" % (idx, defs),
                "cxx_template": [{"instantiation": i} for i in inst]})
    if r.random() < 0.5:
        out.append({"decl": "template<typename T> int rank_of%d(T value)" % idx,
                    "cxx_template": [{"instantiation": i} for i in inst[:2]]})
    if r.random() < 0.6:
        out.append({"decl": "void generic_fn%d(double x, int d0 = 3)" % idx,
                    "fortran_generic": [{"decl": "(float x)"}, {"decl": "(double x)"}]})
    out.append({"decl": "double with_two_defaults%d(double a, int d0 = 1, long d1 = 2)" % idx})
    return out, []


def f_enum_expr(r, idx, language="c++"):
    body = "{ LEFT%(i)d = 1, RIGHT%(i)d = 2, BOTH%(i)d = LEFT%(i)d + RIGHT%(i)d, NEXT%(i)d, WIDE%(i)d = BOTH%(i)d * 2 }" % {"i": idx}
    e = {"decl": "enum Side%d %s;" % (idx, body)}
    if language == "c":
        return [e, {"decl": "int use_side%d(int s)" % idx}], []
    where = r.choice(["library", "namespace", "class", "enumclass", "template"])
    if where == "library":
        return [e], []
    if where == "namespace":
        return [{"decl": "namespace sides%d" % idx, "declarations": [e]}], []
    if where == "class":
        return [{"decl": "class Shape_e%d" % idx, "declarations": [{"decl": "Shape_e%d()" % idx}, e, {"decl": "int sides() const"}]}], []
    if where == "enumclass":
        return [{"decl": "enum class Side%d %s;" % (idx, body)}], []
    e["format"] = {"F_enum_member_template": "{F_name_scope}m_{enum_member_lower}"} if False else {}
    e["options"] = {"F_enum_member_template": "kk_{F_name_scope}{enum_member_lower}"}
    e.pop("format")
    return [{"decl": "namespace pre%d" % idx, "declarations": [e]}], []


def f_struct_members(r, idx, language="c++"):
    members = r.sample(["char tag", "bool ok", "short s", "float f", "long long big", "size_t n", "double *ptr", "int arr[4]",
                        "long id", "unsigned int u", "const char *label"], r.randrange(1, 4))
    sname = "Rec%d" % idx
    s = {"decl": "struct %s { %s; };" % (sname, "; ".join(members))}
    user = {"decl": "int inspect%d(const %s *r)" % (idx, sname)}
    plain = {"decl": "int plain%d(int a)" % idx}
    return [plain, s, user] if r.random() < 0.7 else [s, plain], []


FIXED = ["int8_t", "int16_t", "int32_t", "int64_t", "uint8_t", "uint16_t", "uint32_t", "uint64_t", "size_t"]


def f_fixed_width(r, idx, language="c++"):
    t = r.choice(FIXED)
    shapes = ["void use_one%(i)d(const %(t)s *values +rank(1), int n)", "%(t)s get_one%(i)d(int k)", "void put_one%(i)d(%(t)s v)",
              "void out_one%(i)d(%(t)s *v +intent(out))"]
    if language != "c":
        shapes += ["void register_ids%(i)d(const std::vector<%(t)s> &ids)", "void collect_ids%(i)d(std::vector<%(t)s> &ids +intent(out))",
                   "void register_ids%(i)d(const std::vector<%(t)s> &ids)"]
    only = r.choice(shapes) % {"i": idx, "t": t}
    plain = [{"decl": "int last_count%d(void)" % idx if language == "c" else "int last_count%d()" % idx},
             {"decl": "double scale_by%d(double factor, int times)" % idx}]
    out = plain[:]
    out.insert(r.randrange(0, 3), {"decl": only})
    return out, []


def f_class_result(r, idx):
    cname = r.choice(["Node", "TreeBranch"]) + str(idx)
    meths = [{"decl": "%s()" % cname}, {"decl": "~%s()" % cname}]
    pool = ["%(c)s *child(int idx) const", "const %(c)s &peer(int a, double b) const", "%(c)s *parent() const",
            "%(c)s *grow(int n)", "%(c)s *find(const char *name, int depth) const", "%(c)s *scaled(double f) const +pure",
            "int depth(int from) const"]
    for m in r.sample(pool, r.randrange(2, 5)):
        meths.append({"decl": m % {"c": cname}})
    free = [{"decl": "%s *make_node%d(int kind)" % (cname, idx)}]
    if r.random() < 0.6:
        free.append({"decl": "%s *lookup_node%d(int key, long hint) +pure" % (cname, idx)})
    return [{"decl": "class %s" % cname, "declarations": meths}] + free, []


def f_namespace_helpers(r, idx):
    needy = ["const std::string name_of%(i)d(int i)", "void fill%(i)d(std::vector<int> &v +intent(out))",
             "void grow%(i)d(std::vector<double> &v +intent(inout))", "std::vector<int> make%(i)d(int n)",
             "const char *label%(i)d(int i)", "int *table%(i)d(int n) +dimension(n)+deref(allocatable)"]
    plain = [{"decl": "int plain_sum%d(int a, int b)" % idx}, {"decl": "double plain_scale%d(double x)" % idx}]
    ns_decls = [{"decl": d % {"i": idx}} for d in r.sample(needy, r.randrange(1, 3))]
    where = r.choice(["namespace", "namespace", "library", "nested"])
    if where == "library":      # the other way round: library needs it, namespace does not
        return ns_decls + [{"decl": "namespace quiet%d" % idx, "declarations": plain}], []
    if where == "nested":
        return plain + [{"decl": "namespace outer_h%d" % idx, "declarations": [
            {"decl": "int mid%d(int a)" % idx}, {"decl": "namespace inner_h%d" % idx, "declarations": ns_decls}]}], []
    return plain + [{"decl": "namespace geo_h%d" % idx, "declarations": ns_decls}], []


def f_struct_in_class(r, idx):
    sname = r.choice(["Point", "Cell_descriptor", "Pair"]) + str(idx)
    cname = r.choice(["Shape", "Mover", "Container_of_cells"]) + str(idx)
    struct = {"decl": "struct %s { int x; double y; };" % sname}
    meths = [{"decl": "%s()" % cname}, {"decl": "~%s()" % cname}]
    pool = ["void move(const %s *p)", "void shift(%s *p +intent(inout), int n)", "int weigh(const %s &p)",
            "void fill(%s *p +intent(out))", "double norm(%s p)"]
    for m in r.sample(pool, r.randrange(1, 4)):
        meths.append({"decl": m % sname})
    cls = {"decl": "class %s" % cname, "declarations": meths}
    free = {"decl": "int count_%s(const %s *p, int n)" % (sname.lower(), sname)}
    where = r.choice(["library", "namespace", "namespace-class-only"])
    if where == "library":
        return r.sample([struct, free], 2)[:2] and [struct, free, cls], []
    if where == "namespace":
        return [{"decl": "namespace geo%d" % idx, "declarations": [struct, free, cls]}], []
    return [{"decl": "namespace geo%d" % idx, "declarations": [struct, cls]}, {"decl": "int plain_function%d(int a)" % idx}], []


def f_class_own_header(r, idx):
    cname = r.choice(["Widget", "GadgetHolder", "MeshPartitionDescriptor"]) + str(idx)
    decls = [{"decl": "%s()" % cname}]
    if r.random() < 0.5:
        decls[0]["format"] = {"function_suffix": "_default"}
        decls.append({"decl": "%s(int capacity)" % cname, "format": {"function_suffix": "_capacity"}})
    decls.append({"decl": "~%s()" % cname})
    decls.append({"decl": "int size() const"})
    if r.random() < 0.5:
        decls.append({"decl": "void resize(%s)" % ", ".join(_scalar_params(r, r.randrange(1, 4)))})
    return [{"decl": "class %s" % cname, "cxx_header": "%s_own.hpp" % cname.lower(), "declarations": decls}], []


HDR_STEMS = ["zcore", "alink", "mbase", "ybits", "bnode", "xtypes", "cdefs"]


def f_class_multi_header(r, idx):
    out = []
    ncls = r.choice([1, 1, 2])
    for k in range(ncls):
        cname = r.choice(["FastLink", "Router", "PacketQueue"]) + "%d_%d" % (idx, k)
        stems = r.sample(HDR_STEMS, r.choice([2, 2, 3]))
        if r.random() < 0.75:
            stems.sort(reverse=True)          # the required order is the reverse of the alphabetical one
        hdrs = ["%s%d_%d.hpp" % (s, idx, k) for s in stems]
        decls = [{"decl": "%s()" % cname}]
        if r.random() < 0.85:
            decls.append({"decl": "~%s()" % cname})
        decls.append({"decl": "int hops(int from) const"})
        if r.random() < 0.4:
            decls.append({"decl": "%s *next() const" % cname})
        cls = {"decl": "class %s" % cname, "cxx_header": " ".join(hdrs), "declarations": decls}
        if r.random() < 0.25:
            out.append({"decl": "namespace net%d_%d" % (idx, k), "declarations": [cls, {"decl": "int net_size%d_%d()" % (idx, k)}]})
        else:
            out.append(cls)
    if r.random() < 0.5:
        out.append({"decl": "int plain_between%d(int a)" % idx})
    return out, []


DOX_LINES = ["the number of channels that are open", "or zero when the channel does not exist", "see also c_ptr and *values",
             "! not a statement", "// not code; nor this", "call abort()", "end subroutine", "#define X 1", "50% of the total",
             "a tab\tinside the text", "  indented continuation", "use, intrinsic :: iso_c_binding", "return 0;", "x = y & z &"]


def _dox_text(r):
    n = r.choice([1, 2, 2, 3, 4])
    lines = r.sample(DOX_LINES, n)
    if n > 2 and r.random() < 0.3:
        lines.insert(1, "")
    text = "\n".join(lines)
    if r.random() < 0.5:
        text += "\n"
    return text


def _dox(r, force=None):
    d = {}
    for k in ("brief", "description", "return"):
        if k == force or r.random() < 0.6:
            d[k] = _dox_text(r)
    if force and "\n" not in d[force].strip("\n"):
        d[force] = "first line of it\n" + d[force]
    return d


def f_doxygen_text(r, idx, language="c++"):
    """every key is forced multi-line at least once per library; the functions cover: Fortran wrapper body (char*), interface only
    (scalars), subroutine, and (C++) a method"""
    shapes = ["int channel_count%(i)d_%(k)d(const char *name)", "double gain%(i)d_%(k)d(int channel, double scale)",
              "void reset_channel%(i)d_%(k)d(int channel)", "void name_of_channel%(i)d_%(k)d(int channel, char *name +intent(out)+charlen(32))",
              "int *levels%(i)d_%(k)d(int n) +dimension(n)"]
    if language != "c":
        shapes += ["const std::string &label%(i)d_%(k)d(int channel)", "int measure%(i)d_%(k)d(const std::string &what, int times = 1)"]
    out = []
    forces = ["return", "brief", "description"]
    r.shuffle(forces)
    picks = [shapes[0]] + r.sample(shapes[1:], r.randrange(2, 4))
    for k, sh in enumerate(picks):
        out.append({"decl": sh % {"i": idx, "k": k}, "doxygen": _dox(r, forces[k] if k < len(forces) else None)})
    if language != "c" and r.random() < 0.5:
        cname = "Gauge%d" % idx
        out.append({"decl": "class %s" % cname, "declarations": [
            {"decl": "%s()" % cname, "doxygen": _dox(r, "brief")}, {"decl": "~%s()" % cname},
            {"decl": "int read(const char *channel)", "doxygen": _dox(r, "return")}]})
    return out, []


def f_class_cpp_if(r, idx):
    cname = "Optional%d" % idx
    macro = "USE_OPTIONAL_%d" % idx
    decls = [{"decl": "%s()" % cname}, {"decl": "~%s()" % cname}, {"decl": "int value(int scale)"}]
    return [{"decl": "class %s" % cname, "cpp_if": "ifdef %s" % macro, "declarations": decls}], [macro]


def f_callback(r, idx):
    out = []
    for k in range(r.randrange(1, 3)):
        # the first callback is always long (4 or 5 parameters with long names): its declaration exceeds any line length
        np_ = r.choice([4, 5]) if k == 0 else r.choice([0, 1, 2, 3, 4, 5])
        params = _scalar_params(r, np_, long_names=(k == 0 or r.random() < 0.7))
        cb = "%s (*%s)(%s)" % (r.choice(["int", "double", "void"]),
                              r.choice(["rhs_function", "op", "user_supplied_callback_function"]),
                              ", ".join(params) if params else "void")
        extra = _scalar_params(r, r.randrange(0, 3))
        args = extra[:1] + [cb] + extra[1:]
        out.append({"decl": "%s integrate_cb%d_%d(%s)" % (r.choice(["int", "void", "double"]), idx, k, ", ".join(args))})
    return out, []


def f_long_args(r, idx):
    n = r.randrange(6, 11)
    return [{"decl": "%s accumulate_all_contributions%d(%s)" % (r.choice(["double", "void", "int"]), idx,
                                                               ", ".join(_scalar_params(r, n)))}], []


def f_long_types(r, idx):
    cname = "VeryLongClassNameForTheGeometryDescriptor%d" % idx
    ns = "extraordinarily_long_namespace_name%d" % idx
    return [
        {"decl": "class %s" % cname, "declarations": [{"decl": "%s()" % cname}, {"decl": "~%s()" % cname},
                                                      {"decl": "unsigned long long count_elements(unsigned long long first_index) const"}]},
        {"decl": "unsigned long long measure%d(const %s & descriptor, unsigned long long first_index, long long offset)" % (idx, cname)},
        {"decl": "namespace %s" % ns, "declarations": [
            {"decl": "enum ColorOfTheBoundaryMarker%d { FIRST_BOUNDARY_MARKER%d, SECOND_BOUNDARY_MARKER%d = 7 };" % (idx, idx, idx)},
            {"decl": "long long scale_value_in_namespace%d(long long original_value, int scaling_factor)" % idx}]},
    ], []


def f_strings_vectors(r, idx, allow_vector=True):
    out = []
    for k in range(r.randrange(1, 4)):
        f = libgen.gen_function(r, "c++", "text_fn%d_%d" % (idx, k))
        if not allow_vector and "std::vector" in f["decl"]:
            f = {"decl": "const char * text_fn%d_%d(const std::string & a0, char *a1 +intent(out)+charlen(20))" % (idx, k)}
        out.append(f)
    return out, []


def f_overloads_defaults(r, idx):
    base = "combine%d" % idx
    return [{"decl": "void %s(int i)" % base}, {"decl": "void %s(double d)" % base}, {"decl": "void %s(int i, long j)" % base},
            {"decl": "double with_defaults%d(double a, int d0 = 1, long d1 = 2, double d2 = 3)" % idx}], []


def f_enum_ns(r, idx, language="c++"):
    e = libgen.gen_enum(r, "Kind%d" % idx)
    if language == "c":
        return [e, {"decl": "int use_kind%d(int k)" % idx}], []
    return [e, {"decl": "namespace outer%d" % idx, "declarations": [
        {"decl": "int outer_fn%d(int a)" % idx},
        {"decl": "namespace inner%d" % idx, "declarations": [{"decl": "double inner_fn%d(double a)" % idx}]}]}], []


def gen(r, feature, language=None, allow_vector=True, name="flib"):
    """returns dict(yaml_text, headers [(name, text)], defines [macro], language, features [..])"""
    _uid[0] = 0
    if language is None:
        language = "c++" if feature in CXX_ONLY else r.choice(["c", "c++"])
    feats = [feature]
    others = [f for f in FEATURES if f != feature and (language != "c" or f not in CXX_ONLY)]
    if feature not in SOLO:       # these features are about what the REST of the library does not use
        feats += r.sample([f for f in others if f not in SOLO], r.randrange(0, 3))
    decls, defines = [], []
    for i, f in enumerate(feats):
        if f == "strings_vectors":
            d, m = f_strings_vectors(r, i, allow_vector)
        elif f in ("doxygen_text", "enum_ns", "fmodule_mix", "fixed_width", "enum_expr", "struct_members"):
            d, m = globals()["f_" + f](r, i, language)
        else:
            d, m = globals()["f_" + f](r, i)
        decls += d
        defines += m
    ext = ".h" if language == "c" else ".hpp"
    d = {"library": name, "cxx_header": name + ext, "language": language, "declarations": decls}
    return {"yaml_text": yaml.safe_dump(d, default_flow_style=False, sort_keys=False, width=1000), "dict": d,
            "defines": defines, "language": language, "features": feats}
