"""Synthesize the library header that a tools/gen/libgen.py description talks about, so that the
generated wrappers can be handed to a compiler.  Declarations are the YAML `decl` strings with the
Shroud attributes (`+name` / `+name(value)`) removed."""
import re

ATTR = re.compile(r"\s*\+\w+(\([^()]*\))?")


def strip_attrs(decl):
    return ATTR.sub("", decl).strip().rstrip(";")


def _emit(decls, out, indent, in_class=None):
    pad = "    " * indent
    for d in decls:
        decl = d["decl"]
        if decl.startswith("class "):
            name = decl.split()[1]
            out.append("%sclass %s {" % (pad, name))
            out.append("%spublic:" % pad)
            _emit(d.get("declarations", []), out, indent + 1, in_class=name)
            out.append("%s};" % pad)
        elif decl.startswith("namespace "):
            out.append("%snamespace %s {" % (pad, decl.split()[1]))
            _emit(d.get("declarations", []), out, indent + 1)
            out.append("%s}" % pad)
        elif decl.startswith("struct "):
            out.append("%s%s;" % (pad, strip_attrs(decl)))
        else:
            out.append("%s%s;" % (pad, strip_attrs(decl)))


def header(lib):
    """(file name, text) for a libgen.Lib"""
    name = lib.todict()["cxx_header"]
    guard = re.sub(r"\W", "_", name).upper()
    out = ["#ifndef %s" % guard, "#define %s" % guard]
    if lib.language == "c":
        out += ["#include <stddef.h>", "#include <stdbool.h>"]
    else:
        out += ["#include <cstddef>", "#include <string>", "#include <vector>"]
    ns = lib.namespace
    if ns and lib.language != "c":
        for n in ns.split():
            out.append("namespace %s {" % n)
    _emit(lib.decls, out, 0)
    if ns and lib.language != "c":
        for n in ns.split():
            out.append("}")
    out.append("#endif")
    return name, "\n".join(out) + "\n"


def headers_from_dict(d):
    """[(file name, text)] for a description given as a dict: the library header plus one header per class that names its
    own class-level `cxx_header:`; a class (or function) with `cpp_if:` is wrapped in that conditional.  A class-level
    `cxx_header:` that lists several headers gives that many files: the class is declared in the LAST one, every other one
    declares a typedef `<stem>_id_t` in terms of the typedef of the header listed before it, and the class has a member of
    the type of the last but one: none of the files includes another, so they only compile in the order listed."""
    language = d.get("language", "c++")
    own = []

    def emit(decls, out, indent, ns=()):
        pad = "    " * indent
        for e in decls:
            decl = e["decl"]
            target = out
            chain = None
            if decl.startswith("class ") and e.get("cxx_header"):
                target = []
                names = e["cxx_header"].split()
                prev = "int"
                for hn in names[:-1]:
                    tname = re.sub(r"\W", "_", hn.rsplit(".", 1)[0]) + "_id_t"
                    own.append((hn, ["typedef %s %s;" % (prev, tname)]))
                    prev = tname
                chain = prev if len(names) > 1 else None
                own.append((names[-1], target))
                closers.append((target, len(ns)))
                target.extend("namespace %s {" % n for n in ns)
            if e.get("cpp_if"):
                target.append("#" + e["cpp_if"])
            if decl.startswith("class "):
                name = decl.split()[1]
                target.append("%sclass %s {" % (pad, name))
                target.append("%spublic:" % pad)
                if chain:
                    target.append("%s    %s shroud_header_order_member;" % (pad, chain))
                emit(e.get("declarations", []), target, indent + 1)
                target.append("%s};" % pad)
            elif decl.startswith("namespace "):
                target.append("%snamespace %s {" % (pad, decl.split()[1]))
                emit(e.get("declarations", []), target, indent + 1, ns + (decl.split()[1],))
                target.append("%s}" % pad)
            elif decl.startswith("struct ") and language == "c":
                # C code names the struct without the keyword
                sn = decl.split()[1]
                target.append("%stypedef struct %s %s;" % (pad, sn, sn))
                target.append("%s%s;" % (pad, strip_attrs(decl)))
            elif decl.startswith("template"):
                # a function template is defined inline (no explicit instantiation needed by the stub)
                d = strip_attrs(decl)
                ret = re.sub(r"^template\s*<[^>]*>\s*", "", d).split("(")[0].split()
                body = "{}" if ret[0] == "void" else "{ return 0; }"
                target.append("%s%s %s" % (pad, d, body))
            else:
                target.append("%s%s;" % (pad, strip_attrs(decl)))
            if e.get("cpp_if"):
                target.append("#endif")

    def wrap(name, body):
        guard = re.sub(r"\W", "_", name).upper()
        pre = ["#ifndef %s" % guard, "#define %s" % guard]
        if language == "c":
            pre += ["#include <stddef.h>", "#include <stdbool.h>", "#include <stdint.h>"]
        else:
            pre += ["#include <cstddef>", "#include <cstdint>", "#include <string>", "#include <vector>"]
        return name, "\n".join(pre + body + ["#endif"]) + "\n"

    main = []
    closers = []
    emit(d["declarations"], main, 0)
    for target, n in closers:
        target.extend(["}"] * n)
    return [wrap(d["cxx_header"], main)] + [wrap(n, b) for n, b in own]


FUNC = re.compile(r"^(?P<ret>.*?)(?P<name>~?[A-Za-z_]\w*)\s*\((?P<params>.*)\)\s*(?P<const>const)?$")


def _stub_function(decl, language, cls=None):
    """trivial definition of a declared function / method; None for declarations that define nothing to link"""
    d = strip_attrs(decl)
    if re.match(r"^(enum|struct|typedef|class|namespace|template)\b", d):
        return None
    m = FUNC.match(d)
    if not m:
        raise ValueError("cannot synthesize a definition for %r" % decl)
    ret, name, params, cst = m.group("ret").strip(), m.group("name"), m.group("params"), m.group("const")
    params = re.sub(r"\s*=\s*[^,()]+", "", params)
    static = False
    if ret.startswith("static "):
        ret, static = ret[7:].strip(), True
    qual = (cls + "::") if cls else ""
    if cls and (name == cls or name == "~" + cls):
        return "%s%s(%s) {}" % (qual, name, params)
    if ret == "void":
        body = ""
    elif ret.endswith("*") or language == "c":
        body = " return 0; "
    elif ret.endswith("&"):
        base = ret[:-1].strip()
        base = re.sub(r"^const\s+", "", base)
        body = " static %s shroud_stub_value; return shroud_stub_value; " % base
    else:
        base = re.sub(r"^const\s+", "", ret)
        body = " return %s(); " % base if " " not in base else " return (%s) 0; " % base
    return "%s %s%s(%s)%s {%s}" % (ret, qual, name, params, " const" if cst else "", body)


def stub_from_dict(d):
    """(file name, text): every function and method of the description defined trivially, so that the generated wrappers can
    be linked against it"""
    language = d.get("language", "c++")
    out = []
    hdrs = [d["cxx_header"]]

    def walk(decls, cls=None):
        for e in decls:
            decl = e["decl"]
            if e.get("cpp_if"):
                out.append("#" + e["cpp_if"])
            if decl.startswith("class "):
                if e.get("cxx_header"):
                    hdrs.extend(e["cxx_header"].split())
                walk(e.get("declarations", []), cls=decl.split()[1])
            elif decl.startswith("namespace "):
                out.append("namespace %s {" % decl.split()[1])
                walk(e.get("declarations", []))
                out.append("}")
            else:
                f = _stub_function(decl, language, cls)
                if f:
                    out.append(f)
            if e.get("cpp_if"):
                out.append("#endif")
    walk(d["declarations"])
    name = d["library"] + "_stub_impl" + (".c" if language == "c" else ".cpp")
    return name, "\n".join(['#include "%s"' % h for h in hdrs] + out) + "\n"
