"""Type-directed generator of C++ library descriptions for C02 (plain C API) together with
 * the Shroud YAML,
 * an INSTRUMENTED subject library (header-only C++: every function prints what it receives,
   including the identity of `this`, stores known values into output arguments and returns known values),
 * a C driver that calls only the generated headers' functions under their documented names,
 * the expected trace, computed here directly from the declarations (never from the Lean model).

All randomness comes from the `random.Random` passed in."""
import struct

import yaml

# every predefined native typemap: (bits, signed)
ITYPES = {
    "int": (32, True), "long": (64, True), "short": (16, True), "long long": (64, True),
    "unsigned int": (32, False), "unsigned long": (64, False), "unsigned long long": (64, False), "unsigned short": (16, False),
    "size_t": (64, False),
    "int8_t": (8, True), "int16_t": (16, True), "int32_t": (32, True), "int64_t": (64, True),
    "uint8_t": (8, False), "uint16_t": (16, False), "uint32_t": (32, False), "uint64_t": (64, False),
}


def _ivals(bits, signed):
    lo, hi = (-(1 << (bits - 1)), (1 << (bits - 1)) - 1) if signed else (0, (1 << bits) - 1)
    vals = [0, hi, lo if signed else hi - 1, 42]
    if signed:
        vals.insert(1, -1)
    for b in (1 << 31, 1 << 32, 1 << 63, (1 << 31) - 1, 1 << 15):     # boundary values that distinguish the widths
        if lo <= b <= hi and b not in vals:
            vals.append(b)
        if signed and lo <= -b <= hi and -b not in vals:
            vals.append(-b)
    return vals


INT_T = {t: _ivals(*bs) for t, bs in ITYPES.items()}
DBL = [0.0, -0.0, 1.5, -2.25e300, 5e-324]
FLT = [0.0, -0.0, 1.5, -3.4028234663852886e38, 1.401298464324817e-45]
NATIVES = list(ITYPES) + ["double", "float"]
STRS = ["", "a", "hello world", "x y  z ", "0123456789abcdef0123456789"]
ENUM = [("RED", 3), ("GREEN", 7), ("BLUE", -2)]
# enums at every scope: global, in a namespace, in a class (typemap name = qualified name, enum name = last component)
ENUMS = {"Color": ENUM, "ns1::Shade": [("ns1::LIGHT", 1), ("ns1::DARK", 4)], "K0::Mood": [("K0::CALM", 2), ("K0::WILD", -6)]}


def default_value(p, dv):
    """value of a default-argument literal"""
    if p.fam == "bool":
        return dv == "true"
    return float(dv) if p.t in ("double", "float") else int(dv)


def vals_of(t):
    return DBL if t == "double" else (FLT if t == "float" else INT_T[t])


def lit(t, v):
    if t == "double":
        return float(v).hex()
    if t == "float":
        return float(v).hex() + "f"
    bits, signed = ITYPES[t]
    if not signed:
        return "((%s)%dULL)" % (t, v)
    if v == -(1 << 63):
        return "((%s)(-9223372036854775807LL-1))" % t
    return "((%s)%dLL)" % (t, v)


def rep(t, v):
    if t == "double":
        return "%016x" % struct.unpack("<Q", struct.pack("<d", v))[0]
    if t == "float":
        return "%08x" % struct.unpack("<I", struct.pack("<f", v))[0]
    return "%d" % v


def show(t, expr):
    """C/C++ statement printing a native value"""
    if t == "double":
        return "sh_d(%s);" % expr
    if t == "float":
        return "sh_f(%s);" % expr
    if t in ITYPES and not ITYPES[t][1]:
        return 'printf("%%llu", (unsigned long long)(%s));' % expr
    return 'printf("%%lld", (long long)(%s));' % expr


class Param:
    """kind: (family, type, mode, intent)  family in native,bool,char,cstr,string,enum,struct,class"""

    def __init__(self, fam, t, mode, intent, name, const=False):
        self.fam, self.t, self.mode, self.intent, self.name, self.const = fam, t, mode, intent, name, const

    def key(self):
        return "%s:%s:%s:%s%s" % (self.fam, self.t if self.fam == "native" else "", self.mode, self.intent, ":const" if self.const else "")

    def cxx_type(self):
        if self.fam in ("fnptr", "cstrarr", "voidarr"):
            return ""
        base = {"native": self.t, "bool": "bool", "char": "char", "cstr": "char", "string": "std::string", "enum": self.t,
                "struct": "Pt", "class": self.t}[self.fam]
        c = "const " if self.const else ""
        return c + base + {"val": " ", "ptr": " *", "ref": " &", "pp": " **", "pr": " *&"}[self.mode]

    def cxx_decl(self):
        if self.fam == "fnptr":
            return "int (*%s)(int x, double y)" % self.name
        if self.fam == "cstrarr":
            return "char **" + self.name
        if self.fam == "voidarr":
            return "void **" + self.name
        return self.cxx_type() + self.name

    def yaml_decl(self):
        s = self.cxx_decl()
        if self.fam == "fnptr":
            return s
        if self.fam in ("cstrarr", "voidarr"):
            return s + " +intent(in)"
        if self.mode != "val" and not self.const and self.fam not in ("class",):
            s += " +intent(%s)" % self.intent
        return s


class Func:
    def __init__(self, name, params, ret, cls=None, const=False, static=False, kind="func", ns=None, suffix=None,
                 ndefault=0, defaults=(), template=None, fmt_suffix=None, tparams=("T",), tsuffix=None, dsuffix=None):
        self.name, self.params, self.ret, self.cls, self.const, self.static = name, params, ret, cls, const, static
        self.kind, self.ns, self.suffix, self.ndefault, self.defaults = kind, ns, suffix, ndefault, list(defaults)
        # None or list of instantiations; each a tuple of types, one per template parameter (a plain string = 1 parameter)
        self.template = [t if isinstance(t, tuple) else (t,) for t in template] if template else None
        self.tparams = list(tparams)      # names of the template type parameters
        self.tsuffix = list(tsuffix) if tsuffix else None   # explicit template_suffix per instantiation (None = automatic)
        self.dsuffix = list(dsuffix) if dsuffix is not None else None   # default_arg_suffix list
        self.fmt_suffix = fmt_suffix      # explicit function_suffix in YAML
        self.fid = None
        self.consts = {}
        self.main = False                 # the constructor the driver builds its objects with


class Spec:
    def __init__(self, name):
        self.name = name
        self.prefix = None
        self.name_template = None
        self.classes = []      # names
        self.funcs = []        # all Func in YAML order (grouped: free, per class, per namespace)
        self.tclass = None     # (name, [instantiation types]) of a class template, its members in self.tfuncs
        self.tfuncs = []
        self.ns = None
        self.use_enum = self.use_struct = False
        self.use_cls_enum = self.use_ns_enum = False

    # ------------------------------------------------------------ YAML
    def c_prefix(self):
        return self.prefix if self.prefix is not None else self.name.upper()[:3] + "_"

    def fdecl(self, f):
        if f.kind == "ctor":
            d = "%s(%s)" % (f.cls, ", ".join(p.yaml_decl() for p in f.params))
        elif f.kind == "dtor":
            d = "~%s()" % f.cls
        else:
            ps = [p.yaml_decl() for p in f.params]
            for (p, dv) in f.defaults:
                ps.append("%s%s = %s" % (p.cxx_type(), p.name, dv))
            d = "%s%s %s(%s)%s" % ("static " if f.static else "", ret_cxx(f.ret), f.name, ", ".join(ps), " const" if f.const else "")
        e = {"decl": d}
        if f.template:
            e["decl"] = "template<%s> " % ", ".join("typename " + t for t in f.tparams) + d
            e["cxx_template"] = []
            for i, inst in enumerate(f.template):
                row = {"instantiation": "<%s>" % ", ".join(inst)}
                if f.tsuffix and f.tsuffix[i] is not None:
                    row["format"] = {"template_suffix": f.tsuffix[i]}
                e["cxx_template"].append(row)
        if f.dsuffix is not None:
            e["default_arg_suffix"] = list(f.dsuffix)
        if f.fmt_suffix is not None:
            e["format"] = {"function_suffix": f.fmt_suffix}
        return e

    def todict(self):
        decls = []
        if self.use_enum:
            decls.append({"decl": "enum Color { %s }" % ", ".join("%s = %d" % m for m in ENUM)})
        if self.use_struct:
            decls.append({"decl": "struct Pt { int x; double y; }"})
        for c in self.classes:
            inner = [self.fdecl(f) for f in self.funcs if f.cls == c]
            if c == "K0" and self.use_cls_enum:
                inner.insert(0, {"decl": "enum Mood { %s }" % ", ".join("%s = %d" % (n.split("::")[-1], v) for n, v in ENUMS["K0::Mood"])})
            decls.append({"decl": "class " + c, "declarations": inner})
        if self.tclass:
            decls.append({"decl": "template<typename T> class " + self.tclass[0],
                          "cxx_template": [{"instantiation": "<%s>" % t} for t in self.tclass[1]],
                          "declarations": [self.fdecl(f) for f in self.tfuncs]})
        for f in self.funcs:
            if f.cls is None and f.ns is None:
                decls.append(self.fdecl(f))
        if self.ns:
            inner = [self.fdecl(f) for f in self.funcs if f.ns]
            if self.use_ns_enum:
                inner.insert(0, {"decl": "enum Shade { %s }" % ", ".join("%s = %d" % (n.split("::")[-1], v) for n, v in ENUMS["ns1::Shade"])})
            decls.append({"decl": "namespace " + self.ns, "declarations": inner})
        d = {"library": self.name, "cxx_header": self.name + ".hpp", "language": "c++",
             "options": {"wrap_fortran": False, "wrap_python": False, "wrap_lua": False}, "declarations": decls}
        if self.prefix is not None:
            d["format"] = {"C_prefix": self.prefix}
        if self.name_template is not None:
            d["options"]["C_name_template"] = self.name_template
        return d

    def yaml(self):
        return yaml.safe_dump(self.todict(), default_flow_style=False, sort_keys=False, width=200)

    # ------------------------------------------------------------ documented C names
    def group_of(self, f):
        """overload group as the documentation describes it: functions of the same C++ name in the same scope;
        all constructors of a class form one group; function templates are never numbered"""
        if f.template:
            return None
        if f.kind == "ctor":
            return ("ctor", f.cls)
        return (f.cls, f.ns, f.name)

    def positions(self):
        """documented rule: the automatic suffix of an overload is `_<i>`, i = its position among ALL overloads of that
        name in declaration order (a function with n default arguments stands for n+1 overloads, fewest arguments first);
        an explicit function_suffix replaces the number of that member only; a name declared once gets no suffix."""
        groups = {}
        for f in self.funcs:         # YAML order within one scope = order in self.funcs
            g = self.group_of(f)
            if g is None:
                continue
            lst = groups.setdefault(g, [])
            for nd in range(len(f.defaults) + 1):
                lst.append((f, nd))
        pos = {}
        for g, lst in groups.items():
            for i, (f, nd) in enumerate(lst):
                pos[(id(f), nd)] = "_%d" % i if len(lst) > 1 else ""
        return pos

    @staticmethod
    def tmap(f, inst):
        """template parameter -> instantiated type"""
        return dict(zip(f.tparams, inst)) if inst else {}

    def c_names(self, f):
        """[(documented C name, number of defaulted arguments supplied, instantiation tuple or None)] for every wrapper
        of f.  function_suffix: explicit format value, else default_arg_suffix[k] for the variant with k defaulted
        arguments supplied ("applied from the minimum to the maximum number of arguments"), else the position number.
        template_suffix: explicit per instantiation, else `_<flat type name>` for one template parameter, else the
        sequence number of the instantiation."""
        tmpl = self.name_template or "{C_prefix}{C_name_scope}{underscore_name}{function_suffix}{template_suffix}"
        scope = (f.cls + "_") if f.cls else ((f.ns + "_") if f.ns else "")
        uname = {"ctor": "ctor", "dtor": "dtor"}.get(f.kind, f.name)
        pos = self.positions()
        out = []
        if f.template:
            for i, inst in enumerate(f.template):
                if f.tsuffix and f.tsuffix[i] is not None:
                    ts = f.tsuffix[i]
                elif len(inst) == 1:
                    ts = "_" + inst[0].replace(" ", "_")
                else:
                    ts = "_%d" % i
                out.append((tmpl.format(C_prefix=self.c_prefix(), C_name_scope=scope, underscore_name=uname,
                                        function_suffix=f.fmt_suffix or "", template_suffix=ts), 0, inst))
            return out
        for nd in range(len(f.defaults) + 1):
            if f.dsuffix is not None and nd < len(f.dsuffix):
                sfx = f.dsuffix[nd]
            elif f.fmt_suffix is not None:
                sfx = f.fmt_suffix
            else:
                sfx = pos.get((id(f), nd), "")
            out.append((tmpl.format(C_prefix=self.c_prefix(), C_name_scope=scope, underscore_name=uname, function_suffix=sfx,
                                    template_suffix=""), nd, None))
        return out

    def variant_shapes(self):
        """distribution keys: templates `tmpl:<#params>x<#instantiations>[+explicit][+result]`, defaults
        `dflt:req<r>+<n>[:list<k>]`"""
        out = []
        if self.tclass:
            out.append("tclass:x%d" % len(self.tclass[1]))
        for f in self.funcs:
            if f.template:
                out.append("tmpl:%dx%d%s%s" % (len(f.tparams), len(f.template), "+explicit" if f.tsuffix and any(f.tsuffix) else "",
                                              "+result" if f.ret[0] == "tparam" else ""))
            if f.defaults:
                out.append("dflt:req%d+%d%s" % (len(f.params), len(f.defaults),
                                                (":list%d" % len(f.dsuffix)) if f.dsuffix is not None else ""))
        return out

    def tclass_instances(self):
        """[(documented class name, instantiation type, member functions bound to it)]: an instantiation `Box<int>` of a
        class template is wrapped as class `Box_int` (C_name_scope `Box_int_`, capsule type `<C_prefix>Box_int`)"""
        import copy
        out = []
        if not self.tclass:
            return out
        name, insts = self.tclass
        for t in insts:
            cname = "%s_%s" % (name, t.replace(" ", "_"))
            fs = []
            for f in self.tfuncs:
                g = copy.copy(f)
                g.cls = cname
                g.orig = f
                fs.append(g)
            out.append((cname, t, fs))
        return out

    def overload_shapes(self):
        """e.g. 'free:EAA' - E explicit suffix, A automatic number, D member with default arguments"""
        groups = {}
        for f in self.funcs:
            g = self.group_of(f)
            if g is not None:
                groups.setdefault(g, []).append(f)
        out = []
        for g, lst in groups.items():
            if len(lst) < 2 and not any(f.defaults for f in lst):
                continue
            kind = "ctor" if g[0] == "ctor" else ("method" if g[0] else ("ns" if g[1] else "free"))
            out.append(kind + ":" + "".join("E" if f.fmt_suffix is not None else ("D" if f.defaults else "A") for f in lst))
        return out


def ret_cxx(r):
    return {"void": "void", "bool": "bool", "enum": "Color", "cstr": "const char *", "stringref": "const std::string &",
            "struct": "Pt", "structptr": "Pt *"}.get(r[0], None) or (
        {"native": r[1], "nativeptr": r[1] + " *", "nativeref": r[1] + " &", "classptr": r[1] + " *", "classref": r[1] + " &",
         "classcref": "const " + r[1] + " &", "classval": r[1], "tparam": r[1]}[r[0]])


# ------------------------------------------------------------------ generation
def gen_param(r, spec, i, allow_class=True, allow_struct=True, in_ns=False):
    fams = ["native"] * 5 + ["bool", "bool", "char", "cstr", "string", "string", "string", "enum", "enum", "fnptr", "cstrarr",
            "voidarr"]
    if allow_struct:
        fams += ["struct", "struct"]
    if spec.classes and allow_class:
        fams += ["class", "class"]
    fam = r.choice(fams)
    n = "a%d" % i
    if fam == "native":
        t = r.choice(["int", "double"] + NATIVES)
        mode = r.choice(["val", "val", "val", "ptr", "ptr", "ref", "ref", "pp", "pr"])
        if mode in ("pp", "pr"):
            # pointer to pointer / reference to pointer: the callee reads through or re-seats the caller's pointer
            return Param(fam, t, mode, r.choice(["in", "out", "inout"]) if mode == "pp" else r.choice(["out", "inout"]), n)
        if mode == "val":
            return Param(fam, t, "val", "in", n)
        intent = r.choice(["in", "out", "inout"])
        return Param(fam, t, mode, intent, n, const=(intent == "in"))
    if fam == "bool":
        mode = r.choice(["val", "val", "ptr", "ref"])
        if mode == "val":
            return Param(fam, "bool", "val", "in", n)
        intent = r.choice(["out", "inout"])
        return Param(fam, "bool", mode, intent, n)
    if fam == "char":
        return Param(fam, "char", "val", "in", n)
    if fam in ("fnptr", "cstrarr", "voidarr"):
        # callback / char ** / void **: handed to the library unchanged
        return Param(fam, fam, "val", "in", n)
    if fam == "cstr":
        return Param(fam, "char", "ptr", "in", n, const=True)
    if fam == "string":
        mode = r.choice(["ref", "ref", "ptr", "val"])
        if mode == "val":
            return Param(fam, "string", "val", "in", n)     # std::string by value: C passes char *
        intent = r.choice(["in", "in", "out", "inout"])
        return Param(fam, "string", mode, intent, n, const=(intent == "in"))
    if fam == "enum":
        scopes = ["Color"]
        if "K0" in spec.classes:
            scopes.append("K0::Mood")
        if in_ns:
            scopes += ["ns1::Shade", "ns1::Shade"]
        et = r.choice(scopes)
        if et == "Color":
            spec.use_enum = True
        elif et == "K0::Mood":
            spec.use_cls_enum = True
        else:
            spec.use_ns_enum = True
        mode = r.choice(["val", "val", "ptr", "ref"])
        if mode == "val":
            return Param(fam, et, "val", "in", n)
        intent = r.choice(["in", "out", "inout"])
        return Param(fam, et, mode, intent, n, const=(intent == "in"))
    if fam == "struct":
        spec.use_struct = True
        k = r.choice(["val", "ptr", "cref", "cptr"])
        if k == "val":
            return Param(fam, "Pt", "val", "in", n)
        if k == "ptr":
            return Param(fam, "Pt", "ptr", "inout", n)
        return Param(fam, "Pt", "ref" if k == "cref" else "ptr", "in", n, const=True)
    c = r.choice(spec.classes)
    k = r.choice(["ref", "cref", "ptr", "cptr", "val"])
    if k == "val":
        return Param(fam, c, "val", "in", n)
    return Param(fam, c, "ref" if "ref" in k else "ptr", "in" if k[0] == "c" else "inout", n, const=(k[0] == "c"))


def gen_ret(r, spec, allow_struct=True):
    k = r.choice(["void", "void", "native", "native", "bool", "enum", "cstr", "stringref", "nativeptr", "nativeref", "struct",
                  "structptr", "classptr", "classref", "classcref", "classval"])
    if not allow_struct and k.startswith("struct"):
        k = "native"
    if k in ("native", "nativeptr", "nativeref"):
        return (k, r.choice(["int", "double"] + NATIVES))
    if k.startswith("class"):
        if not spec.classes:
            return ("void",)
        return (k, r.choice(spec.classes))
    if k == "enum":
        spec.use_enum = True
    if k.startswith("struct"):
        spec.use_struct = True
    return (k,)


SIGS = [("_int", lambda: [Param("native", "int", "val", "in", "a0")]),
        ("_dbl", lambda: [Param("native", "double", "val", "in", "a0")]),
        ("_lng", lambda: [Param("native", "long", "val", "in", "a0")]),
        ("_istr", lambda: [Param("native", "int", "val", "in", "a0"), Param("string", "string", "ref", "in", "a1", const=True)]),
        # signatures a C `const char *` converts to: a wrapper that hands the C form to the overloaded name without the
        # documented conversion reaches a different overload
        ("_str", lambda: [Param("string", "string", "ref", "in", "a0", const=True)]),
        ("_bool", lambda: [Param("bool", "bool", "val", "in", "a0")]),
        ("_cstr", lambda: [Param("cstr", "char", "ptr", "in", "a0", const=True)]),
        ("_sval", lambda: [Param("string", "string", "val", "in", "a0")])]


def explicit_pattern(r, k):
    """which members of an overload set of k carry an explicit function_suffix"""
    pat = r.choice(["none", "first", "middle", "last", "all", "random", "first", "random"])
    if pat == "none":
        return [False] * k
    if pat == "all":
        return [True] * k
    if pat == "first":
        return [i == 0 for i in range(k)]
    if pat == "last":
        return [i == k - 1 for i in range(k)]
    if pat == "middle":
        return [0 < i < k - 1 or (k == 2 and i == 1) for i in range(k)]
    return [r.random() < 0.5 for _ in range(k)]


def gen_overloads(r, name, cls=None, with_default=False):
    """2-4 overloads of one name (free function or method), explicit suffixes on any subset; optionally one
    member with a default argument (it stands for two overloads)"""
    k = r.randrange(2, 5)
    u = r.random()
    if u < 0.4:
        # f(std::string) and f(const std::string &) cannot be told apart by a call: never both
        drop = r.choice(["_str", "_sval"])
        sigs = r.sample([x for x in SIGS if x[0] != drop], k)
    elif u < 0.7:
        sigs = SIGS[:k]
    else:
        # std::string (const reference or by value) next to bool / const char *
        sigs = [r.choice([SIGS[4], SIGS[7]])] + r.sample([SIGS[5], SIGS[6], SIGS[0], SIGS[1]], k - 1)
    expl = explicit_pattern(r, k)
    out = []
    dflt_at = r.randrange(k) if with_default else -1
    for i, ((sfx, mk), e) in enumerate(zip(sigs, expl)):
        f = Func(name, mk(), ("native", "int") if i == 0 else ("void",), cls=cls, fmt_suffix=sfx if e else None)
        if i == dflt_at and not e:
            f.defaults = [(Param("native", "int", "val", "in", "d0"), "7")]
        out.append(f)
    return out


TTYPES = ["int", "double", "long"]


def gen_template(r, name):
    """function template with 1-3 type parameters used in arguments (and maybe the result), 2-4 instantiations with
    permuted types; explicit template_suffix on a random subset"""
    import itertools
    k = r.choice([1, 1, 2, 2, 3])
    tps = ["T", "U", "V"][:k]
    allinst = list(itertools.product(TTYPES, repeat=k))
    r.shuffle(allinst)
    if k > 1:
        # make sure a permuted pair is present: <int,double,..> and <double,int,..>
        a = tuple(["int", "double", "long"][:k])
        b = tuple(["double", "int", "long"][:k])
        allinst = [a, b] + [x for x in allinst if x not in (a, b)]
    inst = allinst[:r.randrange(2, min(4, len(allinst)) + 1)]
    params = [Param("native", tp, "val", "in", "a%d" % i) for i, tp in enumerate(tps)]
    if r.random() < 0.4:
        params.append(Param("native", tps[0], "ref", "in", "a%d" % len(params), const=True))
    if r.random() < 0.4:
        params.insert(r.randrange(len(params) + 1), Param("native", "int", "val", "in", "n0"))
        for i, p in enumerate(params):
            p.name = "a%d" % i
    ret = r.choice([("void",), ("tparam", tps[-1]), ("native", "double"), ("tparam", tps[0])])
    tsuffix = None
    if r.random() < 0.4:
        tsuffix = [("_x%d" % i if r.random() < 0.5 else None) for i in range(len(inst))]
    return Func(name, params, ret, template=inst, tparams=tps, tsuffix=tsuffix)


def gen_defaults(r, name, cls=None):
    """default arguments, the first default at position 0-2, optionally an explicit default_arg_suffix list that is
    exact, shorter or longer than the number of variants"""
    nreq = r.randrange(0, 3)
    nd = r.randrange(1, 4)
    params = [Param("native", r.choice(["int", "long", "double"]), "val", "in", "a%d" % i) for i in range(nreq)]
    # literals that are falsy in Python (0, 0.0, false) next to ordinary ones; sometimes every default is such a value
    allzero = r.random() < 0.35
    pool = [("int", ["0", "7"]), ("long", ["0", "9"]), ("double", ["0.0", "1.5"]), ("bool", ["false", "true"]), ("int", ["0", "3"])]
    r.shuffle(pool)
    defaults = []
    for i, (t, vs) in enumerate(pool[:nd]):
        dv = vs[0] if allzero else r.choice(vs)
        fam = "bool" if t == "bool" else "native"
        defaults.append((Param(fam, t, "val", "in", "d%d" % i), dv))
    dsuffix = None
    if r.random() < 0.6:
        n = r.choice([nd + 1, nd + 1, nd, nd + 2, 1])
        labels = ["_none", "_one", "_two", "_three", "_four", "_five"]
        dsuffix = labels[:n]
    return Func(name, params, ("native", "int"), cls=cls, defaults=defaults, dsuffix=dsuffix)


def gen_spec(r, name, rich=True, nfree=None):
    spec = Spec(name)
    if r.random() < 0.4:
        spec.prefix = r.choice(["XY_", "w", "Lib9_"])
    if r.random() < 0.3:
        spec.name_template = r.choice([
            "{C_prefix}w_{C_name_scope}{underscore_name}{function_suffix}{template_suffix}",
            "{C_prefix}{C_name_scope}{underscore_name}_c{function_suffix}{template_suffix}"])
    ncls = r.choice([0, 1, 1, 2]) if rich else 1
    allcls = ["K%d" % i for i in range(ncls)]
    funcs = []
    for ci, c in enumerate(allcls):
        spec.classes = allcls[:ci + 1]   # a class may mention itself and classes declared before it
        # constructors: the int constructor (used by the driver to make objects) plus 0-3 more, explicit
        # suffixes on any subset
        ctors = [Func("ctor", [Param("native", "int", "val", "in", "a0")], ("void",), cls=c, kind="ctor")]
        ctors[0].main = True
        if r.random() < 0.5:
            ctors.insert(r.randrange(2), Func("ctor", [], ("void",), cls=c, kind="ctor"))
        if r.random() < 0.5:
            ctors.insert(r.randrange(len(ctors) + 1), Func("ctor", [Param("native", "double", "val", "in", "a0")], ("void",), cls=c, kind="ctor"))
        if r.random() < 0.3:
            ctors.append(Func("ctor", [Param("native", "long", "val", "in", "a0"), Param("native", "int", "val", "in", "a1")],
                              ("void",), cls=c, kind="ctor"))
        if len(ctors) > 1:
            for x, e in zip(ctors, explicit_pattern(r, len(ctors))):
                if e:
                    x.fmt_suffix = "_default" if not x.params else "_" + "".join(p.t[0] for p in x.params)
        funcs += ctors
        funcs.append(Func("dtor", [], ("void",), cls=c, kind="dtor"))
        funcs.append(Func("ident", [], ("native", "int"), cls=c, const=True))
        for j in range(r.randrange(1, 5)):
            ps = [gen_param(r, spec, i, allow_struct=True) for i in range(r.randrange(0, 4))]
            static = r.random() < 0.25
            funcs.append(Func("m%d" % j, ps, gen_ret(r, spec, allow_struct=True), cls=c, const=(not static and r.random() < 0.4), static=static))
    spec.classes = allcls
    nfree = r.randrange(2, 7) if nfree is None else nfree
    for j in range(nfree):
        ps = [gen_param(r, spec, i) for i in range(r.randrange(0, 5))]
        funcs.append(Func("fn%d" % j, ps, gen_ret(r, spec)))
    if allcls and r.random() < 0.6:
        # overloads that differ only in the constness of a class reference / pointer parameter
        c = r.choice(allcls)
        mode = r.choice(["ref", "ptr"])
        where = r.choice([None] + [x for x in allcls if allcls.index(x) >= allcls.index(c)])
        pair = [Func("cq", [Param("class", c, mode, "inout", "a0")], ("void",), cls=where),
                Func("cq", [Param("class", c, mode, "in", "a0", const=True)], ("void",), cls=where)]
        if r.random() < 0.5:
            pair.reverse()
        funcs += pair
    if r.random() < 0.7:
        funcs += gen_overloads(r, "ov", with_default=r.random() < 0.3)
    for c in allcls:
        if r.random() < 0.5:
            funcs += gen_overloads(r, "put", cls=c)
    if r.random() < 0.7:
        funcs.append(gen_defaults(r, "df"))
    if allcls and r.random() < 0.4:
        funcs.append(gen_defaults(r, "dm", cls=r.choice(allcls)))
    if r.random() < 0.7:
        funcs.append(gen_template(r, "tf"))
    if r.random() < 0.3:
        funcs.append(gen_template(r, "tg"))
    if r.random() < 0.4:
        spec.ns = "ns1"
        for j in range(r.randrange(1, 3)):
            ps = [gen_param(r, spec, i, allow_class=False, allow_struct=True, in_ns=True) for i in range(r.randrange(0, 3))]
            ret = gen_ret(r, spec, allow_struct=True)
            if ret[0].startswith("class"):
                ret = ("void",)
            funcs.append(Func("nf%d" % j, ps, ret, ns=spec.ns))
    if r.random() < 0.5:
        insts = r.sample(TTYPES, r.randrange(2, 4))
        spec.tclass = ("Box", insts)
        T = lambda n, mode="val", const=False: Param("native", "T", mode, "in", n, const=const)
        tf = [Func("ctor", [Param("native", "int", "val", "in", "a0"), T("a1")], ("void",), cls="Box", kind="ctor"),
              Func("dtor", [], ("void",), cls="Box", kind="dtor"),
              Func("ident", [], ("native", "int"), cls="Box", const=True),
              Func("get", [], ("tparam", "T"), cls="Box", const=True),
              Func("set", [T("a0"), Param("native", "int", "val", "in", "a1")], ("void",), cls="Box")]
        if r.random() < 0.5:
            tf.append(Func("mix", [T("a0", "ref", True), Param("native", "double", "val", "in", "a1"), T("a2")], ("native", "double"),
                           cls="Box", const=r.random() < 0.5))
        tf[0].main = True
        spec.tfuncs = tf
        funcs_all = funcs + tf
    else:
        funcs_all = funcs
    # stable ids and constants
    for i, f in enumerate(funcs_all):
        f.fid = i
        for p in f.params:
            if p.fam == "native" and p.t not in ("T", "U", "V"):
                f.consts[p.name] = r.choice(vals_of(p.t))
            elif p.fam == "bool":
                f.consts[p.name] = r.random() < 0.5
            elif p.fam == "enum":
                f.consts[p.name] = r.choice(ENUMS[p.t])
            elif p.fam == "string":
                f.consts[p.name] = r.choice(["", "out", "new value", "zz top"])
            elif p.fam == "struct":
                f.consts[p.name] = (r.randrange(-9, 99), r.choice([0.25, -3.5]))
        if f.ret[0] in ("native", "nativeptr", "nativeref"):
            f.consts["ret"] = r.choice(vals_of(f.ret[1]))
        elif f.ret[0] == "tparam":
            f.consts["ret"] = r.choice([7.5, -2.25, 100.75])
        elif f.ret[0] == "bool":
            f.consts["ret"] = r.random() < 0.5
        elif f.ret[0] == "enum":
            f.consts["ret"] = r.choice(ENUM)
        elif f.ret[0] in ("cstr", "stringref"):
            f.consts["ret"] = r.choice(["", "ret text", "r%d" % i])
        elif f.ret[0] in ("struct", "structptr"):
            f.consts["ret"] = (r.randrange(-9, 99), r.choice([0.25, -3.5]))
        elif f.ret[0].startswith("class"):
            f.consts["ret"] = 900 + i
    spec.funcs = funcs
    return spec


def fixed_spec(name="ogf"):
    """A hand-picked description whose wrappers keep compiling under many source changes (adjacent
    parameters of equal type, every modelled kind once)."""
    import random
    r = random.Random(12345)
    spec = Spec(name)
    spec.classes = ["K0"]
    spec.use_enum = spec.use_struct = True
    spec.use_cls_enum = True
    N = lambda t, n, mode="val", intent="in", const=False: Param("native", t, mode, intent, n, const=const)
    S = lambda n, mode="ref", intent="in": Param("string", "string", mode, intent, n, const=(intent == "in"))
    K = lambda n, mode, const=False: Param("class", "K0", mode, "in" if const else "inout", n, const=const)
    funcs = [
        Func("ctor", [], ("void",), cls="K0", kind="ctor", fmt_suffix="_default"),
        Func("ctor", [N("int", "a0")], ("void",), cls="K0", kind="ctor"),
        Func("ctor", [N("double", "a0")], ("void",), cls="K0", kind="ctor"),
        Func("dtor", [], ("void",), cls="K0", kind="dtor"),
        Func("ident", [], ("native", "int"), cls="K0", const=True),
        Func("m0", [N("int", "a0"), N("int", "a1")], ("native", "int"), cls="K0", const=True),
        Func("m1", [K("a0", "ref"), K("a1", "ref"), K("a2", "ptr", const=True), K("a3", "val")], ("void",), cls="K0"),
        Func("m2", [N("long", "a0"), N("long", "a1")], ("native", "long"), cls="K0", static=True),
        Func("m3", [], ("classptr", "K0"), cls="K0"),
        Func("m4", [], ("classval", "K0"), cls="K0", const=True),
        Func("m5", [Param("enum", "Color", "val", "in", "a0")], ("enum",), cls="K0"),
        Func("m6", [Param("struct", "Pt", "val", "in", "a0"), Param("struct", "Pt", "ptr", "inout", "a1")], ("struct",), cls="K0"),
        Func("m7", [Param("enum", "Color", "ptr", "inout", "a0"), Param("enum", "Color", "ref", "out", "a1"),
                    Param("enum", "Color", "ptr", "in", "a2", const=True), Param("enum", "Color", "ref", "in", "a3", const=True)],
             ("void",), cls="K0"),
        Func("sw0", [N("int", "a0"), N("int", "a1"), N("double", "a2"), N("double", "a3")], ("native", "int")),
        Func("sw1", [S("a0"), S("a1"), S("a2", "ptr", "inout"), S("a3", "ref", "out")], ("stringref",)),
        Func("sw2", [N("double", "a0", "ptr", "out"), N("double", "a1", "ptr", "inout"), N("int", "a2", "ref", "inout"),
                     N("int", "a3", "ref", "in", const=True)], ("nativeref", "int")),
        Func("sw3", [Param("bool", "bool", "val", "in", "a0"), Param("bool", "bool", "val", "in", "a1"),
                     Param("bool", "bool", "ptr", "inout", "a2"),
                     Param("char", "char", "val", "in", "a3"), Param("cstr", "char", "ptr", "in", "a4", const=True)], ("bool",)),
        Func("sw4", [Param("struct", "Pt", "val", "in", "a0"), Param("struct", "Pt", "val", "in", "a1"),
                     Param("struct", "Pt", "ptr", "inout", "a2"),
                     Param("struct", "Pt", "ref", "in", "a3", const=True)], ("struct",)),
        Func("sw5", [Param("enum", "Color", "val", "in", "a0"), Param("enum", "Color", "val", "in", "a1")], ("structptr",)),
        Func("sw6", [K("a0", "ptr"), K("a1", "ptr"), K("a2", "ref", const=True)], ("classcref", "K0")),
        Func("sw7", [Param("string", "string", "val", "in", "a0"), Param("string", "string", "val", "in", "a1")], ("cstr",)),
        Func("sw9", [N("int", "a0", "pp", "out"), N("int", "a1", "pp", "inout"), N("double", "a2", "pr", "out"),
                     N("double", "a3", "pr", "inout"), N("int", "a4", "pp", "in")], ("void",)),
        Func("sw8", [], ("nativeptr", "double")),
        Func("df", [N("int", "a0")], ("native", "int"), defaults=[(N("int", "d0"), "7"), (N("long", "d1"), "9")]),
        Func("ov", [N("int", "a0")], ("native", "int"), fmt_suffix="_int"),
        Func("ov", [N("double", "a0")], ("void",)),
        Func("ov", [N("long", "a0")], ("void",)),
        Func("put", [N("int", "a0")], ("void",), cls="K0", fmt_suffix="_int"),
        Func("put", [N("double", "a0")], ("void",), cls="K0"),
        Func("put", [N("long", "a0")], ("void",), cls="K0"),
        Func("lab", [S("a0")], ("void",)),
        Func("lab", [Param("bool", "bool", "val", "in", "a0")], ("void",)),
        Func("lab", [Param("cstr", "char", "ptr", "in", "a0", const=True)], ("void",)),
        Func("cq", [K("a0", "ref")], ("void",)),
        Func("cq", [K("a0", "ref", const=True)], ("void",)),
        Func("cp", [K("a0", "ptr", const=True)], ("void",), cls="K0"),
        Func("cp", [K("a0", "ptr")], ("void",), cls="K0"),
        Func("wide", [N("unsigned long", "a0"), N("unsigned long", "a1"), N("size_t", "a2"), N("long long", "a3"),
                      N("unsigned int", "a4"), N("unsigned long", "a5", "ptr", "inout"), N("uint64_t", "a6", "ref", "out")],
             ("native", "unsigned long")),
        Func("zd", [], ("native", "int"), defaults=[(N("int", "d0"), "0")]),
        Func("zd", [N("double", "a0"), N("int", "a1")], ("void",)),
        Func("at", [], ("native", "int"), cls="K0", const=True, defaults=[(N("int", "d0"), "0"), (Param("bool", "bool", "val", "in", "d1"), "false")]),
        Func("mood", [Param("enum", "K0::Mood", "ptr", "inout", "a0"), Param("enum", "K0::Mood", "ref", "in", "a1", const=True),
                      Param("enum", "K0::Mood", "val", "in", "a2")], ("void",), cls="K0"),
        Func("fmood", [Param("enum", "K0::Mood", "ref", "out", "a0")], ("void",)),
        Func("byv", [Param("string", "string", "val", "in", "a0")], ("void",)),
        Func("byv", [Param("bool", "bool", "val", "in", "a0")], ("void",)),
        Func("tag", [S("a0")], ("void",), cls="K0"),
        Func("tag", [Param("bool", "bool", "val", "in", "a0")], ("void",), cls="K0"),
        Func("grow", [N("int", "a0")], ("classref", "K0"), cls="K0"),
        Func("shared", [], ("classref", "K0"), cls="K0", static=True),
        Func("tf", [N("T", "a0")], ("void",), template=["int", "double"]),
        Func("mix", [N("T", "a0"), N("U", "a1")], ("native", "double"), template=[("int", "double"), ("double", "int")],
             tparams=("T", "U")),
        Func("twice", [N("T", "a0")], ("tparam", "T"), template=["int", "double"]),
        Func("blend", [N("int", "a0")], ("native", "int"), defaults=[(N("int", "d0"), "7"), (N("int", "d1"), "9")],
             dsuffix=["_a", "_ab", "_abc"]),
    ]
    funcs[1].main = True
    for i, f in enumerate(funcs):
        f.fid = i
        for p in f.params:
            if p.fam == "native" and p.t not in ("T", "U", "V"):
                f.consts[p.name] = r.choice(vals_of(p.t))
            elif p.fam == "bool":
                f.consts[p.name] = r.random() < 0.5
            elif p.fam == "enum":
                f.consts[p.name] = r.choice(ENUMS[p.t])
            elif p.fam == "string":
                f.consts[p.name] = r.choice(["out", "new value", "zz top"])
            elif p.fam == "struct":
                f.consts[p.name] = (r.randrange(-9, 99), r.choice([0.25, -3.5]))
        k = f.ret[0]
        if k in ("native", "nativeptr", "nativeref"):
            f.consts["ret"] = r.choice((vals_of(f.ret[1]))[1:])
        elif k == "tparam":
            f.consts["ret"] = 7.5
        elif k == "bool":
            f.consts["ret"] = True
        elif k == "enum":
            f.consts["ret"] = ENUM[1]
        elif k in ("cstr", "stringref"):
            f.consts["ret"] = "ret text %d" % i
        elif k in ("struct", "structptr"):
            f.consts["ret"] = (40 + i, -3.5)
        elif k.startswith("class"):
            f.consts["ret"] = 900 + i
    spec.funcs = funcs
    return spec
