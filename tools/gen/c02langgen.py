"""Generator of library descriptions for the C02 language / result-kind tie (YAML only, nothing is compiled):

 * `language: c` libraries: enum, struct, functions over native / bool / char / enum / struct parameters by value and by
   pointer, `T **`, `char **` / `void **` (intent in), callbacks; results void / native / bool / enum / struct by value,
   native / struct / char pointers, `+deref(scalar)`; options C_force_wrapper, C_error_pattern (null / negative check);
 * `language: c++` libraries with the result kinds that the main generator (cxxgen) does not produce: enum returned by
   pointer / reference, `+deref(scalar)`, C_error_pattern on free functions, methods, constructors and class results.

All randomness comes from the rng passed in (common.rng).  `kinds` of a spec is the distribution written to the evidence.
"""

NATIVE = ["int", "double", "long", "float", "unsigned int", "size_t"]

# `return 0;` is a valid return statement for every result type the patterns are attached to (pointers, integers, handles)
PATTERNS_C = {
    "C_null_check": "if ({cxx_var} == NULL) {{\n    return 0;\n}}\n",
    "C_neg_check": "if ({cxx_var} < 0) {{\n    return 0;\n}}\n",
}
PATTERNS_CXX = {
    "C_null_check": "if ({cxx_var} == nullptr) {{\n    return 0;\n}}\n",
    "C_neg_check": "if ({cxx_var} < 0) {{\n    return 0;\n}}\n",
}


class Spec:
    def __init__(self, name, language):
        self.name = name
        self.language = language
        self.decls = []       # (indent, text, extra lines)
        self.kinds = {}

    def kind(self, k):
        self.kinds[k] = self.kinds.get(k, 0) + 1

    def yaml(self):
        pats = PATTERNS_C if self.language == "c" else PATTERNS_CXX
        out = ["library: %s" % self.name, "cxx_header: %s.%s" % (self.name, "h" if self.language == "c" else "hpp"),
               "language: %s" % self.language, "options:", "  wrap_fortran: false", "  wrap_python: false", "  wrap_lua: false",
               "patterns:"]
        for k, v in sorted(pats.items()):
            out.append("  %s: |" % k)
            out += ["      " + l for l in v.rstrip("\n").split("\n")]
        out.append("declarations:")
        for ind, text, extra in self.decls:
            out.append("%s- decl: %s" % (ind, text))
            out += [ind + "  " + e for e in extra]
        return "\n".join(out) + "\n"


def c_param(r, i, spec):
    n = "a%d" % i
    k = r.choice(["nval", "nval", "nptr", "ncptr", "bool", "boolp", "chr", "cstr", "ccstr", "enum", "enump", "sval", "sptr", "scptr",
                  "npp", "cpp", "vpp", "cb"])
    spec.kind("param:" + k)
    t = r.choice(NATIVE)
    return {
        "nval": "%s %s" % (t, n), "nptr": "%s *%s %s" % (t, n, r.choice(["", "+intent(out)", "+intent(inout)", "+intent(in)"])),
        "ncptr": "const %s *%s" % (t, n), "bool": "bool %s" % n, "boolp": "bool *%s +intent(%s)" % (n, r.choice(["out", "inout"])),
        "chr": "char %s" % n, "cstr": "char *%s +intent(%s)" % (n, r.choice(["out", "inout"])), "ccstr": "const char *%s" % n,
        "enum": "Color %s" % n, "enump": "Color *%s +intent(%s)" % (n, r.choice(["out", "inout", "in"])),
        "sval": "Pt %s" % n, "sptr": "Pt *%s +intent(%s)" % (n, r.choice(["out", "inout", "in"])), "scptr": "const Pt *%s" % n,
        "npp": "%s **%s +intent(%s)" % (t, n, r.choice(["in", "out"])), "cpp": "char **%s +intent(in)" % n,
        "vpp": "void **%s +intent(in)" % n, "cb": "int (*%s)(int)" % n,
    }[k].strip()


def result_kind(r, spec, language):
    ks = ["void", "nval", "nval", "bool", "enum", "sval", "sptr", "nptr", "cstr", "deref"]
    if language == "c++":
        ks += ["enump", "enumr", "enumcp", "nref", "enump", "enumr"]
    k = r.choice(ks)
    spec.kind("result:" + k)
    t = r.choice(NATIVE)
    return k, {"void": ("void", ""), "nval": (t, ""), "bool": ("bool", ""), "enum": ("Color", ""), "sval": ("Pt", ""),
               "sptr": ("Pt *", ""), "nptr": (t + " *", ""), "cstr": ("const char *", ""), "deref": (t + " *", " +deref(scalar)"),
               "enump": ("Color *", ""), "enumr": ("Color &", ""), "enumcp": ("const Color *", ""), "nref": (t + " &", "")}[k]


def pattern_for(k):
    if k in ("sptr", "nptr", "cstr", "enump", "enumcp", "deref"):
        return "C_null_check"
    if k in ("nval", "enum"):
        return "C_neg_check"
    return None


OVR_VALUES = {"pre_call": ["int ovr_pre = 1;"], "call": ["ovr_call();"], "post_call": ["int ovr_post = 2;"],
              "ret": ["return 0;"], "return_type": "long"}


def fstatements_lines(r, spec):
    """a declaration-level `fstatements: {c: {...}}` dictionary naming a random subset of clauses"""
    named = [c for c in sorted(OVR_VALUES) if r.random() < 0.4]
    mode = r.choice(["update", "update", "update", None, "replace"])
    out = ["fstatements:", "  c:"]
    if mode:
        out.append("    mode: %s" % mode)
    for c in named:
        v = OVR_VALUES[c]
        if isinstance(v, list):
            out.append("    %s:" % c)
            out += ["    - %s" % l for l in v]
        else:
            out.append("    %s: %s" % (c, v))
    if len(out) == 2:
        out[1] = "  c: {}"
    spec.kind("fstatements:%s:%d" % (mode or "default", len(named)))
    return out, named, mode


def gen_function(r, spec, i, language, ind="", method=False):
    k, (rt, attr) = result_kind(r, spec, language)
    params = [c_param(r, j, spec) for j in range(r.choice([0, 1, 1, 2, 3, 4]))]
    name = "%s%d" % ("m" if method else "f", i)
    const = " const" if method and r.random() < 0.3 else ""
    text = "%s%s(%s)%s%s" % (rt if rt.endswith("*") or rt.endswith("&") else rt + " ", name, ", ".join(params) or "void", const, attr)
    extra = []
    pat = pattern_for(k)
    if pat and r.random() < 0.45:
        extra.append("C_error_pattern: %s" % pat)
        spec.kind("pattern:" + k)
    elif pat and r.random() < 0.1:
        extra.append("C_error_pattern: C_not_defined")     # names no entry of `patterns`: no block
        spec.kind("pattern:undefined-name")
    if r.random() < 0.2:
        extra += ["options:", "  C_force_wrapper: true"]
        spec.kind("force_wrapper")
    if getattr(spec, "with_fstatements", False) and r.random() < 0.5:
        lines, named, mode = fstatements_lines(r, spec)
        extra += lines
        spec.overrides[name] = (named, mode)
    spec.decls.append((ind, text, extra))


def gen_spec(r, name, language, fstatements=False):
    spec = Spec(name, language)
    spec.with_fstatements = fstatements
    spec.overrides = {}
    spec.decls.append(("", "enum Color { RED, GREEN, BLUE }", []))
    spec.decls.append(("", "struct Pt { int x; double y; }", []))
    for i in range(r.randrange(5, 10)):
        gen_function(r, spec, i, language)
    if language == "c++":
        spec.decls.append(("", "class Kls", ["declarations:"]))
        ind = "  "
        ctor_extra = ["C_error_pattern: C_null_check"] if r.random() < 0.5 else []
        if ctor_extra:
            spec.kind("pattern:ctor")
        spec.decls.append((ind, "Kls()", ctor_extra))
        spec.decls.append((ind, "~Kls()", []))
        for i in range(r.randrange(2, 5)):
            gen_function(r, spec, i, language, ind=ind, method=True)
        for j, (decl, kk) in enumerate([("Kls *self%d(int n)", "shadowPtr"), ("Kls &ref%d(void)", "shadowRef"), ("Kls byval%d(int n)", "shadowVal")]):
            if r.random() < 0.7:
                pat = r.random() < 0.6 and kk != "shadowRef"    # a reference cannot be compared with nullptr
                spec.decls.append((ind, decl % j, ["C_error_pattern: C_null_check"] if pat else []))
                spec.kind("result:" + kk)
                if pat:
                    spec.kind("pattern:" + kk)
    return spec


def strip_attrs(text):
    import re
    return re.sub(r"\s*\+\w+(\([^)]*\))?", "", text)


def header(spec):
    """the library's own header: the declarations of the description without Shroud attributes"""
    guard = "LIB_%s_H" % spec.name.upper()
    out = ["#ifndef " + guard, "#define " + guard, "#include <stddef.h>"]
    if spec.language == "c":
        out.append("#include <stdbool.h>")
        out.append("enum Color { RED, GREEN, BLUE };")
        out.append("typedef enum Color Color;")
        out.append("struct Pt { int x; double y; };")
        out.append("typedef struct Pt Pt;")
    else:
        out.append("enum Color { RED, GREEN, BLUE };")
        out.append("struct Pt { int x; double y; };")
    in_class = False
    for ind, text, extra in spec.decls:
        if text.startswith("enum ") or text.startswith("struct "):
            continue
        if text.startswith("class "):
            out.append("class Kls {\npublic:")
            in_class = True
            continue
        if in_class and not ind:
            out.append("};")
            in_class = False
        out.append("%s%s;" % ("    " if in_class else "", strip_attrs(text)))
    if in_class:
        out.append("};")
    out.append("#endif")
    return "\n".join(out) + "\n"
