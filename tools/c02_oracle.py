def run(ctx, thorough):
    pass
