"""Compile-and-run oracle for C02 (implementation only, no Lean model involved).

For a generated description (tools/gen/cxxgen.py): real Shroud writes the C wrappers; this module
writes an instrumented C++ subject library (every function prints what it receives, incl. the id of
`this`, stores known values into output arguments, returns known values), a C driver that calls
only functions declared by the generated headers, under the names the documentation's name template
gives, with boundary values; everything is compiled with -fsanitize=address,undefined and run; the
trace is compared line by line with the expectation computed here from the declarations."""
import os
import re
import subprocess
from concurrent.futures import ThreadPoolExecutor

from tools import common, shroudrun
from tools.gen import cxxgen
from tools.gen.cxxgen import DBL, ENUM, ENUMS, INT_T, STRS, default_value, lit, rep, show

SAN = ["-fsanitize=address,undefined", "-fno-sanitize-recover=undefined", "-g", "-O0"]
IDS = (11, 22)


# ------------------------------------------------------------------ subject library
def cxx_show(p, i):
    n = p.name
    d = n if p.mode != "ptr" else "(*%s)" % n
    if p.fam in ("native", "bool") and p.t in ("T", "U", "V"):
        return "sh_t(%s);" % n
    if p.fam in ("native", "bool") and p.mode != "val" and p.intent == "out":
        return 'printf("_");'
    if p.fam == "native" and p.mode in ("pp", "pr"):
        return show(p.t, "**%s" % n if p.mode == "pp" else "*%s" % n)
    if p.fam == "native":
        return show(p.t, d)
    if p.fam == "bool":
        return 'printf("%%d", (int)%s);' % d
    if p.fam == "char":
        return 'printf("%%d", (int)%s);' % n
    if p.fam == "fnptr":
        return 'printf("%%d", %s(3, 0.5));' % n
    if p.fam == "cstrarr":
        return 'printf("[%%s|%%s]", %s[0], %s[1]);' % (n, n)
    if p.fam == "voidarr":
        return 'printf("%%d", *(int *)%s[0]);' % n
    if p.fam == "cstr":
        return 'printf("[%%s]", %s);' % n
    if p.fam == "string":
        return 'printf("[%%s]", %s.c_str());' % d
    if p.fam == "enum":
        if p.mode != "val" and p.intent == "out":
            return 'printf("_");'
        return 'printf("%%d", (int)%s);' % d
    if p.fam == "struct":
        return 'printf("{%%d,", %s.x); sh_d(%s.y); printf("}");' % (d, d)
    if p.fam == "class":
        return 'printf("#%%d", %s.id);' % d
    raise AssertionError(p.fam)


def cxx_set(f, p):
    if p.mode == "val" or p.const or p.intent == "in":
        return ""
    d = p.name if p.mode != "ptr" else "(*%s)" % p.name
    c = f.consts.get(p.name)
    if p.fam == "native" and p.mode in ("pp", "pr"):
        return "static %s keep_%s = %s; %s%s = &keep_%s;" % (p.t, p.name, lit(p.t, c), "*" if p.mode == "pp" else "", p.name, p.name)
    if p.fam == "native":
        return "%s = %s;" % (d, lit(p.t, c))
    if p.fam == "bool":
        return "%s = %s;" % (d, "true" if c else "false")
    if p.fam == "enum":
        return "%s = %s;" % (d, c[0])
    if p.fam == "string":
        return '%s = "%s";' % (d, c)
    if p.fam == "struct":
        return "%s.x = %d; %s.y = %s;" % (d, c[0], d, lit("double", c[1]))
    return ""


def ret_self(f):
    """a method returning its own class by pointer/reference returns the object it is called on"""
    return bool(f.cls) and len(f.ret) > 1 and f.ret[1] == f.cls and not f.static and not f.const and f.ret[0] in ("classref", "classptr")


def cxx_return(f):
    k = f.ret[0]
    c = f.consts.get("ret")
    if ret_self(f):
        return "return %sthis;" % ("*" if k == "classref" else "")
    if k == "void":
        return ""
    if k == "native":
        return "return %s;" % lit(f.ret[1], c)
    if k == "tparam":
        return "return (%s)%s;" % (f.ret[1], lit("double", c))
    if k == "bool":
        return "return %s;" % ("true" if c else "false")
    if k == "enum":
        return "return %s;" % c[0]
    if k == "cstr":
        return 'return "%s";' % c
    if k == "stringref":
        return 'static std::string keep("%s"); return keep;' % c
    if k in ("nativeptr", "nativeref"):
        return "static %s keep = %s; return %skeep;" % (f.ret[1], lit(f.ret[1], c), "&" if k == "nativeptr" else "")
    if k == "struct":
        return "Pt r; r.x = %d; r.y = %s; return r;" % (c[0], lit("double", c[1]))
    if k == "structptr":
        return "static Pt keep; keep.x = %d; keep.y = %s; return &keep;" % (c[0], lit("double", c[1]))
    if k == "classptr":
        return "static %s keep(%d, true); return &keep;" % (f.ret[1], c)
    if k in ("classref", "classcref"):
        return "static %s keep(%d, true); return keep;" % (f.ret[1], c)
    if k == "classval":
        return "return %s(%d, true);" % (f.ret[1], c)
    raise AssertionError(k)


def cxx_function(f, in_class):
    params = [p.cxx_decl() for p in f.params] + ["%s%s = %s" % (p.cxx_type(), p.name, dv) for p, dv in f.defaults]
    allp = f.params + [p for p, _ in f.defaults]
    body = ['printf("C %d this=");' % f.fid]
    if f.kind == "ctor":
        body.append('printf("new");')
    elif in_class and not f.static:
        body.append('printf("%d", id);')
    else:
        body.append('printf("-");')
    for i, p in enumerate(allp):
        body.append('printf(" p%d=");' % i)
        body.append(cxx_show(p, i))
    body.append('printf("\\n");')
    for p in f.params:
        s = cxx_set(f, p)
        if s:
            body.append(s)
    if f.kind == "ctor":
        head = "%s(%s) : id(%s)" % (f.cls, ", ".join(params), ("a0" if f.main else "7") if f.params else "100")
        if not f.params:
            body = []          # the default constructor is silent (the wrapper for by-value results uses it)
    elif f.kind == "dtor":
        return "    ~%s() { last() = id; }" % f.cls
    else:
        body.append("return id;" if (in_class and f.name == "ident") else cxx_return(f))
        head = "%s%s%s %s(%s)%s" % (("template<%s> " % ", ".join("typename " + t for t in f.tparams)) if f.template else "", "static " if f.static else "",
                                     cxxgen.ret_cxx(f.ret), f.name, ", ".join(params), " const" if f.const else "")
        if not in_class:
            head = "inline " + head if not f.template else head
    return "    %s {\n        %s\n    }" % (head, "\n        ".join(b for b in body if b))


def decoys(spec, f, in_class):
    """ordinary overloads the library has but the description does not wrap.  A correct wrapper never reaches them:
    (1) for a `const std::string &` / `const std::string *` / by-value `std::string` parameter: the same signature with `bool` and with
    `const char *` (what a C string converts to without the documented std::string construction); (2) for a function
    template: a non-template function with the parameter types of the first instantiation (chosen by overload resolution
    when the call has no explicit template arguments)."""
    if f.kind != "func" or f.defaults or f.ret[0] not in ("void", "native", "bool", "tparam"):
        return []
    if f.fmt_suffix is not None or spec.positions().get((id(f), 0), "") != "":
        return []          # member of a wrapped overload set
    out = []
    pre = "    %s" % ("static " if f.static else "")
    if not in_class:
        pre = "    inline "
    cst = " const" if f.const else ""

    def text(params, ret):
        body = 'std::printf("C %d DECOY\\n"); %s' % (f.fid, "" if ret == "void" else "return (%s)0;" % ret)
        return "%s%s %s(%s)%s { %s }" % (pre, ret, f.name, ", ".join(params), cst, body)
    if f.template:
        tm = cxxgen.Spec.tmap(f, f.template[0])
        params = [(("const " if p.const else "") + tm.get(p.t, p.t) + {"val": " ", "ref": " &", "ptr": " *"}[p.mode] + p.name)
                  for p in f.params]
        ret = tm.get(f.ret[1], f.ret[1]) if len(f.ret) > 1 else "void"
        return [text(params, ret)]
    idx = [i for i, p in enumerate(f.params) if p.fam == "string" and ((p.const and p.mode in ("ref", "ptr")) or p.mode == "val")]
    if not idx:
        return []
    ret = cxxgen.ret_cxx(f.ret)
    for alt in ("bool ", "const char *"):
        params = [(alt + p.name) if i == idx[0] else p.cxx_decl() for i, p in enumerate(f.params)]
        out.append(text(params, ret))
    return out


def subject_header(spec):
    out = ["#ifndef SUBJECT_%s_HPP" % spec.name.upper(), "#define SUBJECT_%s_HPP" % spec.name.upper(),
           "#include <cstdio>", "#include <cstring>", "#include <string>", "#include <cstdint>", "#include <cstddef>",
           "static inline void sh_f(float v) { unsigned int b; std::memcpy(&b, &v, 4); std::printf(\"%08x\", b); }",
           "static inline void sh_d(double v) { unsigned long long b; std::memcpy(&b, &v, 8); std::printf(\"%016llx\", b); }",
           'static inline void sh_t(int v) { std::printf("%lld", (long long)v); }',
           'static inline void sh_t(long v) { std::printf("L%lld", (long long)v); }',
           "static inline void sh_t(double v) { sh_d(v); }",
           "enum Color { %s };" % ", ".join("%s = %d" % m for m in ENUM),
           "struct Pt { int x; double y; };"]
    for c in spec.classes:
        out.append("class %s {\npublic:\n    int id;" % c)
        if c == "K0" and spec.use_cls_enum:
            out.append("    enum Mood { %s };" % ", ".join("%s = %d" % (n.split("::")[-1], v) for n, v in ENUMS["K0::Mood"]))
        out.append("    static int &last() { static int v = -1; return v; }")
        out.append("    %s(int a, bool) : id(a) {}" % c)
        if not any(f.cls == c and f.kind == "ctor" and not f.params for f in spec.funcs):
            out.append("    %s() : id(100) {}" % c)
        out.append('    static void operator delete(void *p) { std::printf("DEL %d\\n", last()); ::operator delete(p); }')
        for f in spec.funcs:
            if f.cls == c:
                out.append(cxx_function(f, True))
                out += decoys(spec, f, True)
        out.append("};")
    if spec.tclass:
        c = spec.tclass[0]
        out.append("template<typename T> class %s {\npublic:\n    int id;" % c)
        out.append("    static int &last() { static int v = -1; return v; }")
        out.append('    static void operator delete(void *p) { std::printf("DEL %d\\n", last()); ::operator delete(p); }')
        for f in spec.tfuncs:
            out.append(cxx_function(f, True))
        out.append("};")
    for f in spec.funcs:
        if f.cls is None and f.ns is None:
            out.append(cxx_function(f, False))
            out += decoys(spec, f, False)
    if spec.ns:
        out.append("namespace %s {" % spec.ns)
        if spec.use_ns_enum:
            out.append("enum Shade { %s };" % ", ".join("%s = %d" % (n.split("::")[-1], v) for n, v in ENUMS["ns1::Shade"]))
        for f in spec.funcs:
            if f.ns:
                out.append(cxx_function(f, False))
                out += decoys(spec, f, False)
        out.append("}")
    out.append("#endif")
    return "\n".join(out) + "\n"


# ------------------------------------------------------------------ driver + expectation
def pick(vals, rnd, i):
    return vals[(rnd + i) % len(vals)]


class Emit:
    def __init__(self, spec):
        self.spec = spec
        self.c = []        # driver statements
        self.exp = []      # expected trace lines
        self.ctx = []      # (line index in exp) -> description for replays
        self.uid = 0

    def struct_t(self):
        return self.spec.c_prefix() + "pt"

    def cap_t(self, cls):
        return self.spec.c_prefix() + cls

    def ident_name(self, cls):
        f = [g for g in self.spec.funcs if g.cls == cls and g.name == "ident"][0]
        return self.spec.c_names(f)[0][0], f.fid


def c_show_native(t, expr):
    return show(t, expr)


def emit_call(E, f, cname, ndef, tt, rnd, self_obj=None):
    """one call of wrapper `cname` for round `rnd`; appends driver code and expected lines"""
    spec = E.spec
    E.uid += 1
    u = E.uid
    pre, args, after, exp_in, exp_out, vals = [], [], [], [], [], {}
    allp = list(f.params) + [p for p, _ in f.defaults[:ndef]]
    for i, p in enumerate(allp):
        v = "v%d_%d" % (u, i)
        tm = cxxgen.Spec.tmap(f, tt)
        t = tm.get(p.t, p.t)
        tpl = p.t in tm
        if p.fam == "native":
            val = pick(cxxgen.vals_of(t), rnd, i)
            vals[p.name] = val
            if tpl:
                # sh_t marks the instantiated type: plain for int, L for long, 16 hex digits for double
                r_ = ("L" if t == "long" else "") + rep(t, val)
                if p.mode == "val":
                    args.append(lit(t, val))
                else:
                    pre.append("%s %s = %s;" % (t, v, lit(t, val)))
                    args.append("&" + v)
                exp_in.append(r_)
            elif p.mode == "val":
                args.append(lit(t, val))
                exp_in.append(rep(t, val))
            elif p.mode in ("pp", "pr"):
                pre.append("%s %s = %s; %s *p%s = &%s;" % (t, v, lit(t, val), t, v, v))
                args.append("&p" + v)
                exp_in.append("_" if p.intent == "out" else rep(t, val))
                after.append((i, c_show_native(t, "*p" + v)))
                exp_out.append((i, rep(t, val if p.intent == "in" else f.consts[p.name])))
            else:
                pre.append("%s %s = %s;" % (t, v, lit(t, val)))
                args.append("&" + v)
                exp_in.append("_" if p.intent == "out" else rep(t, val))
                after.append((i, c_show_native(t, v)))
                exp_out.append((i, rep(t, val if p.intent == "in" else f.consts[p.name])))
        elif p.fam == "bool":
            val = bool((rnd + i) % 2)
            vals[p.name] = val
            if p.mode == "val":
                args.append("true" if val else "false")
                exp_in.append("%d" % val)
            else:
                pre.append("bool %s = %s;" % (v, "true" if val else "false"))
                args.append("&" + v)
                exp_in.append("_" if p.intent == "out" else "%d" % val)
                after.append((i, 'printf("%%d", (int)%s);' % v))
                exp_out.append((i, "%d" % (val if p.intent == "in" else f.consts[p.name])))
        elif p.fam == "char":
            val = pick([65, 122, 32, 126, 48], rnd, i)
            vals[p.name] = val
            args.append("(char)%d" % val)
            exp_in.append("%d" % val)
        elif p.fam == "fnptr":
            which = (rnd + i) % 2
            vals[p.name] = "cbk%d" % which
            args.append("cbk%d" % which)
            exp_in.append("%d" % (3 * 2 + 1 if which == 0 else 3 - 5))
        elif p.fam == "cstrarr":
            a, b = pick(STRS, rnd, i), pick(STRS, rnd, i + 1)
            vals[p.name] = [a, b]
            pre.append('char s0%s[64] = "%s"; char s1%s[64] = "%s"; char *%s[2]; %s[0] = s0%s; %s[1] = s1%s;' % (v, a, v, b, v, v, v, v, v))
            args.append(v)
            exp_in.append("[%s|%s]" % (a, b))
        elif p.fam == "voidarr":
            val = pick(INT_T["int"], rnd, i)
            vals[p.name] = val
            pre.append("int x%s = %s; void *%s[1]; %s[0] = &x%s;" % (v, lit("int", val), v, v, v))
            args.append(v)
            exp_in.append("%d" % val)
        elif p.fam == "cstr":
            val = pick(STRS, rnd, i)
            vals[p.name] = val
            args.append('"%s"' % val)
            exp_in.append("[%s]" % val)
        elif p.fam == "string":
            val = pick(STRS, rnd, i)
            vals[p.name] = val
            pre.append('char %s[64] = "%s";' % (v, val))
            args.append(v)
            exp_in.append("[]" if p.intent == "out" else "[%s]" % val)
            after.append((i, 'printf("[%%s]", %s);' % v))
            exp_out.append((i, "[%s]" % (val if p.intent == "in" else f.consts[p.name])))
        elif p.fam == "enum":
            val = pick([m[1] for m in ENUMS[p.t]], rnd, i)
            vals[p.name] = val
            if p.mode == "val":
                args.append("%d" % val)
                exp_in.append("%d" % val)
            else:
                pre.append("int %s = %d;" % (v, val))
                args.append("&" + v)
                exp_in.append("_" if p.intent == "out" else "%d" % val)
                after.append((i, 'printf("%%d", %s);' % v))
                exp_out.append((i, "%d" % (val if p.intent == "in" else f.consts[p.name][1])))
        elif p.fam == "struct":
            x, y = pick([0, -7, 2147483647], rnd, i), pick([0.5, -1.25, 1e300], rnd, i)
            vals[p.name] = (x, y)
            pre.append("%s %s; %s.x = %s; %s.y = %s;" % (E.struct_t(), v, v, lit("int", x), v, lit("double", y)))
            args.append(v if p.mode == "val" else "&" + v)
            exp_in.append("{%d,%s}" % (x, rep("double", y)))
            if p.mode != "val":
                after.append((i, 'printf("{%%d,", %s.x); sh_d(%s.y); printf("}");' % (v, v)))
                if p.const:
                    exp_out.append((i, "{%d,%s}" % (x, rep("double", y))))
                else:
                    cx, cy = f.consts[p.name]
                    exp_out.append((i, "{%d,%s}" % (cx, rep("double", cy))))
        elif p.fam == "class":
            obj = "k_%s_a" % p.t
            vals[p.name] = "object #%d" % IDS[0]
            args.append(obj if p.mode == "val" else "&" + obj)
            exp_in.append("#%d" % IDS[0])
    # defaults not supplied are filled in by C++
    for p, dv in f.defaults[ndef:]:
        v_ = default_value(p, dv)
        exp_in.append("%d" % v_ if p.fam == "bool" else rep(p.t, v_))
    this = "-"
    if f.kind == "ctor":
        this = "new"
    elif self_obj is not None:
        args.insert(0, "&" + self_obj[0])
        this = "%d" % self_obj[1]
    callee = "C %d this=%s%s" % (f.fid, this, "".join(" p%d=%s" % (i, s) for i, s in enumerate(exp_in)))
    k = f.ret[0]
    c = f.consts.get("ret")
    tm = cxxgen.Spec.tmap(f, tt)
    rt = tm.get(f.ret[1], f.ret[1]) if len(f.ret) > 1 else None
    lines = ["{"] + pre
    exp = [callee]
    rprint, rexp = "", ""
    call = "%s(%s)" % (cname, ", ".join(args))
    if f.kind == "ctor":
        cap = E.cap_t(f.cls)
        iname, ifid = E.ident_name(f.cls)
        args.append("&rv")
        lines.append("%s rv; %s *r = %s(%s);" % (cap, cap, cname, ", ".join(args)))
        lines.append("int idr = %s(r);" % iname)
        exp.append("C %d this=7" % ifid)
        rprint, rexp = 'printf("%d#%d", (int)(r == &rv), idr);', "1#7"
    elif k == "void":
        lines.append(call + ";")
    elif k == "tparam":
        lines.append("%s r = %s;" % (rt, call))
        rprint, rexp = c_show_native(rt, "r"), rep(rt, c if rt == "double" else int(c))
    elif k == "native":
        lines.append("%s r = %s;" % (rt, call))
        rprint, rexp = c_show_native(rt, "r"), rep(rt, c)
    elif k == "bool":
        lines.append("bool r = %s;" % call)
        rprint, rexp = 'printf("%d", (int)r);', "%d" % c
    elif k == "enum":
        lines.append("int r = %s;" % call)
        rprint, rexp = 'printf("%d", r);', "%d" % c[1]
    elif k in ("cstr", "stringref"):
        lines.append("const char *r = %s;" % call)
        rprint, rexp = 'printf("[%s]", r);', "[%s]" % c
    elif k in ("nativeptr", "nativeref"):
        lines.append("%s *r = %s;" % (rt, call))
        rprint, rexp = c_show_native(rt, "*r"), rep(rt, c)
    elif k == "struct":
        lines.append("%s r = %s;" % (E.struct_t(), call))
        rprint, rexp = 'printf("{%d,", r.x); sh_d(r.y); printf("}");', "{%d,%s}" % (c[0], rep("double", c[1]))
    elif k == "structptr":
        lines.append("%s *r = %s;" % (E.struct_t(), call))
        rprint, rexp = 'printf("{%d,", r->x); sh_d(r->y); printf("}");', "{%d,%s}" % (c[0], rep("double", c[1]))
    elif k.startswith("class"):
        cap = E.cap_t(f.ret[1])
        iname, ifid = E.ident_name(f.ret[1])
        args.append("&rv")
        call = "%s(%s)" % (cname, ", ".join(args))
        lines.append("%s rv; %s *r = %s;" % (cap, cap, call))
        lines.append("int idr = %s(r);" % iname)
        if ret_self(f):
            c = self_obj[1]
        exp.append("C %d this=%d" % (ifid, c))
        # identity of the returned object: a pointer/reference result names the library's object itself (same address on
        # every call, not owned by the caller, `*this` is the object the method was called on); a by-value result is a
        # caller-owned copy
        if k == "classval":
            rprint, rexp = 'printf("%d#%d own=%d", (int)(r == &rv), idr, (int)(rv.idtor != 0));', "1#%d own=1" % c
        else:
            rprint = ('printf("%%d#%%d st=%%d own=%%d", (int)(r == &rv), idr, (int)(lastaddr[%d] == NULL || lastaddr[%d] == rv.addr), '
                      '(int)(rv.idtor != 0)); lastaddr[%d] = rv.addr;' % (f.fid, f.fid, f.fid))
            rexp = "1#%d st=1 own=0" % c
            if ret_self(f):
                rprint += ' printf(" self=%%d", (int)(rv.addr == %s.addr));' % self_obj[0]
                rexp += " self=1"
    rline = 'printf("R %d ret=");' % f.fid
    lines.append(rline + (rprint or 'printf("-");'))
    e = "R %d ret=%s" % (f.fid, rexp or "-")
    for (i, code), (_, ev) in zip(after, exp_out):
        lines.append('printf(" o%d=");' % i + code)
        e += " o%d=%s" % (i, ev)
    lines.append('printf("\\n");')
    lines.append("}")
    exp.append(e)
    for ln in exp:
        E.ctx.append({"function": "%s (%s)" % (spec.fdecl(f)["decl"], cname), "values": vals, "func": f})
    E.exp += exp
    E.c += lines


def build_driver(spec, headers, rounds):
    E = Emit(spec)
    P = spec.c_prefix()
    E.c += ["static void *lastaddr[4096];", "static void sh_f(float v) { unsigned int b; memcpy(&b, &v, 4); printf(\"%08x\", b); }"]
    E.c += ["static int cbk0(int x, double y) { (void)y; return x * 2 + 1; }", "static int cbk1(int x, double y) { (void)y; return x - 5; }"]
    E.c += ["static void sh_d(double v) { unsigned long long b; memcpy(&b, &v, 8); printf(\"%016llx\", b); }", "int main(void) {",
            "setvbuf(stdout, NULL, _IONBF, 0);"]
    # objects of every class: a (id 11) is passed as argument, b (id 22) is `this`
    for c in spec.classes:
        ctor = [f for f in spec.funcs if f.cls == c and f.kind == "ctor" and f.main][0]
        cname = spec.c_names(ctor)[0][0]
        cap = E.cap_t(c)
        iname, ifid = E.ident_name(c)
        for tag, idv in zip("ab", IDS):
            obj = "k_%s_%s" % (c, tag)
            E.c += ["%s %s; { %s *pc = %s(%d, &%s); printf(\"R %d ret=%%d\\n\", (int)(pc == &%s)); }" % (
                cap, obj, cap, cname, idv, obj, ctor.fid, obj)]
            E.exp += ["C %d this=new p0=%d" % (ctor.fid, idv), "R %d ret=1" % ctor.fid]
            E.ctx += [{"function": "%s (%s)" % (spec.fdecl(ctor)["decl"], cname), "values": {"a0": idv}, "func": ctor}] * 2
            E.c += ['printf("R %d ret=%%d\\n", %s(&%s));' % (ifid, iname, obj)]
            E.exp += ["C %d this=%d" % (ifid, idv), "R %d ret=%d" % (ifid, idv)]
            E.ctx += [{"function": "ident after %s" % cname, "values": {"a0": idv}, "func": ctor}] * 2
        dflt = [f for f in spec.funcs if f.cls == c and f.kind == "ctor" and not f.params]
        if dflt:
            cname = spec.c_names(dflt[0])[0][0]
            E.c += ["%s k_%s_c; %s(&k_%s_c);" % (cap, c, cname, c), 'printf("R %d ret=%%d\\n", %s(&k_%s_c));' % (ifid, iname, c)]
            E.exp += ["C %d this=100" % ifid, "R %d ret=100" % ifid]
            E.ctx += [{"function": "%s (%s)" % (spec.fdecl(dflt[0])["decl"], cname), "values": {}, "func": dflt[0]}] * 2
    for f in spec.funcs:
        if f.kind == "dtor" or f.name == "ident" or (f.kind == "ctor" and (f.main or not f.params)):
            continue
        for cname, ndef, tt in spec.c_names(f):
            for rnd in range(rounds):
                so = None
                if f.cls and not f.static:
                    so = ("k_%s_b" % f.cls, IDS[1])
                emit_call(E, f, cname, ndef, tt, rnd, self_obj=so)
    for c in spec.classes:
        dtor = [f for f in spec.funcs if f.cls == c and f.kind == "dtor"][0]
        cname = spec.c_names(dtor)[0][0]
        for tag, idv in zip("ba", (IDS[1], IDS[0])):
            obj = "k_%s_%s" % (c, tag)
            E.c += ['{ int idt = %s.idtor; %s(&%s); printf("R %d ret=%%d\\n", (int)(%s.addr == NULL && %s.idtor == idt)); }' % (
                obj, cname, obj, dtor.fid, obj, obj)]
            E.exp += ["DEL %d" % idv, "R %d ret=1" % dtor.fid]
            E.ctx += [{"function": "%s (%s)" % (spec.fdecl(dtor)["decl"], cname), "values": {"this": idv}, "func": dtor}] * 2
    for cname_cls, t, fs in spec.tclass_instances():
        cap = E.cap_t(cname_cls)
        by = {f.name if f.kind == "func" else f.kind: f for f in fs}
        ctor, dtor, ident = by["ctor"], by["dtor"], by["ident"]
        obj = "k_%s_b" % cname_cls
        val = {"int": 42, "long": 77, "double": 1.5}[t]
        tl = ("L" if t == "long" else "") + rep(t, val)
        n_ctor, n_dtor, n_ident = spec.c_names(ctor)[0][0], spec.c_names(dtor)[0][0], spec.c_names(ident)[0][0]
        E.c += ["%s %s; { %s *pc = %s(%d, %s, &%s); printf(\"R %d ret=%%d\\n\", (int)(pc == &%s)); }" % (
            cap, obj, cap, n_ctor, IDS[1], lit(t, val), obj, ctor.fid, obj)]
        E.exp += ["C %d this=new p0=%d p1=%s" % (ctor.fid, IDS[1], tl), "R %d ret=1" % ctor.fid]
        E.ctx += [{"function": "%s<%s>::ctor (%s)" % (spec.tclass[0], t, n_ctor), "values": {"a0": IDS[1], "a1": val}, "func": ctor}] * 2
        E.c += ['printf("R %d ret=%%d\\n", %s(&%s));' % (ident.fid, n_ident, obj)]
        E.exp += ["C %d this=%d" % (ident.fid, IDS[1]), "R %d ret=%d" % (ident.fid, IDS[1])]
        E.ctx += [{"function": "%s<%s>::ident (%s)" % (spec.tclass[0], t, n_ident), "values": {}, "func": ident}] * 2
        for f in fs:
            if f.kind != "func" or f.name == "ident":
                continue
            for rnd in range(rounds):
                emit_call(E, f, spec.c_names(f)[0][0], 0, (t,), rnd, self_obj=(obj, IDS[1]))
        E.c += ['{ int idt = %s.idtor; %s(&%s); printf("R %d ret=%%d\\n", (int)(%s.addr == NULL && %s.idtor == idt)); }' % (
            obj, n_dtor, obj, dtor.fid, obj, obj)]
        E.exp += ["DEL %d" % IDS[1], "R %d ret=1" % dtor.fid]
        E.ctx += [{"function": "%s<%s>::dtor (%s)" % (spec.tclass[0], t, n_dtor), "values": {"this": IDS[1]}, "func": dtor}] * 2
    E.c += ["return 0;", "}"]
    head = ["#include <stdio.h>", "#include <string.h>", "#include <stdbool.h>", "#include <stdint.h>", "#include <stddef.h>"] + ['#include "%s"' % h for h in headers]
    return "\n".join(head + E.c) + "\n", E


# ------------------------------------------------------------------ running
def sh(cmd, cwd, timeout=600, env=None):
    p = subprocess.run(cmd, cwd=cwd, stdout=subprocess.PIPE, stderr=subprocess.STDOUT, text=True, timeout=timeout, env=env)
    return p.returncode, p.stdout


def kind_key(f):
    return "%s(%s)" % ("/".join(str(x) for x in f.ret), ",".join(p.key() for p in f.params))


def find_function_for_error(d, log, spec):
    """map the first compiler error to the wrapped function whose wrapper contains it"""
    m = re.search(r"^(\S+?\.(?:cpp|c|h|hpp)):(\d+):\d+: error: (.*)$", log, re.M)
    if not m:
        return None, log[-600:]
    fn, ln, msg = m.group(1), int(m.group(2)), m.group(3)
    try:
        src = open(os.path.join(d, os.path.basename(fn))).read().split("\n")
    except OSError:
        return None, msg
    names = {}
    for f in spec.funcs:
        for cname, _, _ in spec.c_names(f):
            names[cname] = f
    for i in range(min(ln, len(src)) - 1, -1, -1):
        mm = re.search(r"\b(\w+)\(", src[i])
        if mm and mm.group(1) in names and not src[i].startswith(" "):
            return names[mm.group(1)], "%s:%d: %s | %s" % (os.path.basename(fn), ln, msg, src[ln - 1].strip())
    return None, "%s:%d: %s | %s" % (os.path.basename(fn), ln, msg, src[ln - 1].strip() if ln <= len(src) else "")


def compile_and_run(d, spec, rounds):
    """returns dict(status, ...)"""
    files = sorted(os.listdir(d))
    cpps = [f for f in files if f.endswith(".cpp")]
    headers = [f for f in files if f.startswith("wrap") and f.endswith(".h")]
    open(os.path.join(d, spec.name + ".hpp"), "w").write(subject_header(spec))
    drv, E = build_driver(spec, headers, rounds)
    open(os.path.join(d, "driver.c"), "w").write(drv)
    objs = []
    for c in cpps:
        rc, out = sh(["g++", "-std=c++17", "-c", "-I.", c, "-o", c + ".o"] + SAN, d)
        if rc:
            return {"status": "wrapper-compile", "log": out, "E": E}
        objs.append(c + ".o")
    rc, out = sh(["gcc", "-std=c99", "-c", "-I.", "driver.c", "-o", "driver.o", "-Werror=implicit-function-declaration",
                  "-Werror=incompatible-pointer-types", "-Werror=int-conversion"] + SAN, d)
    if rc:
        return {"status": "driver-compile", "log": out, "E": E}
    rc, out = sh(["g++", "driver.o"] + objs + ["-o", "prog"] + SAN, d)
    if rc:
        return {"status": "link", "log": out, "E": E}
    env = dict(os.environ, ASAN_OPTIONS="detect_leaks=0:abort_on_error=0", UBSAN_OPTIONS="print_stacktrace=0")
    try:
        rc, out = sh([os.path.join(d, "prog")], d, timeout=120, env=env)
    except subprocess.TimeoutExpired:
        return {"status": "timeout", "log": "", "E": E}
    return {"status": "ran", "rc": rc, "out": out, "E": E}


def first_diff(exp, act):
    for i, (a, b) in enumerate(zip(exp, act)):
        if a != b:
            return i
    if len(exp) != len(act):
        return min(len(exp), len(act))
    return None


def token_diff(e, a):
    et, at = e.split(" "), a.split(" ")
    for x, y in zip(et, at):
        if x != y:
            return x.split("=")[0]
    return "length"


def judge(ctx, spec, res, ytext):
    E = res["E"]
    st = res["status"]
    if st == "wrapper-compile":
        f, msg = find_function_for_error("", res["log"], spec) if False else (None, None)
        return ("compile", res["log"])
    return None


def run_corpus(ctx, work):
    """corpus/c02.txt first: minimised past failures (description + subject header); wrappers must compile"""
    import json
    path = os.path.join(common.CORPUS, "c02.txt")
    if not os.path.exists(path):
        return
    for n, line in enumerate(open(path)):
        line = line.strip()
        if not line or line.startswith("#"):
            continue
        row = json.loads(line)
        d = os.path.join(work, "corpus%d" % n)
        os.makedirs(d)
        name = re.search(r"library:\s*(\w+)", row["yaml"]).group(1)
        y = shroudrun.write_yaml(d, name + ".yaml", row["yaml"])
        open(os.path.join(d, name + ".hpp"), "w").write(row["header"])
        cfg, exc, out = shroudrun.run_inproc([y], d)
        ctx.count(1)
        if exc is not None:
            ctx.fail(row["key"], "Shroud failed: %r" % (exc,), {"yaml": row["yaml"]})
            continue
        for c in sorted(f for f in os.listdir(d) if f.endswith(".cpp")):
            rc, log = sh(["g++", "-std=c++17", "-c", "-I.", c, "-o", c + ".o"], d)
            if rc:
                m = re.search(r"error: (.*)", log)
                ctx.fail(row["key"], "%s: %s: %s" % (row["what"], c, m.group(1) if m else "compile error"),
                         {"yaml": row["yaml"], "header": row["header"], "log": log[-1200:]})
                break


def run(ctx, thorough):
    r = common.rng("c02-oracle")
    nlib = 60 if thorough else 10
    rounds = 5 if thorough else 3
    work = common.scratch()
    jobs = []
    kinds = {}
    shapes = {}
    try:
        run_corpus(ctx, work)
        for i in range(nlib + 1):
            spec = cxxgen.fixed_spec() if i == 0 else cxxgen.gen_spec(r, "og%d" % i, rich=True)
            d = os.path.join(work, "o%d" % i)
            os.makedirs(d)
            y = shroudrun.write_yaml(d, spec.name + ".yaml", spec.yaml())
            cfg, exc, out = shroudrun.run_inproc([y], d)
            if exc is not None:
                ctx.fail("c02:shroud-exception:%s" % type(exc).__name__, "Shroud failed on a generated description: %r" % (exc,),
                         {"yaml": spec.yaml()})
                continue
            jobs.append((spec, d))
            for sh_ in spec.overload_shapes() + spec.variant_shapes():
                shapes[sh_] = shapes.get(sh_, 0) + 1
        with ThreadPoolExecutor(max_workers=min(8, max(1, len(jobs)))) as ex:
            results = list(ex.map(lambda j: compile_and_run(j[1], j[0], rounds), jobs))
        ncalls = 0
        for (spec, d), res in zip(jobs, results):
            E = res["E"]
            ytext = spec.yaml()
            st = res["status"]
            if st in ("wrapper-compile", "driver-compile", "link"):
                f, msg = find_function_for_error(d, res["log"], spec)
                if st == "link":
                    m = re.search(r"undefined reference to `(\w+)'", res["log"])
                    msg = "undefined reference to %s" % (m.group(1) if m else "?")
                    names = {cn: g for g in spec.funcs for cn, _, _ in spec.c_names(g)}
                    f = names.get(m.group(1)) if m else None
                if st == "driver-compile" and f is None:
                    m = re.search(r"implicit declaration of function .(\w+)", res["log"])
                    if m:
                        names = {cn: g for g in spec.funcs for cn, _, _ in spec.c_names(g)}
                        f = names.get(m.group(1))
                        msg = "the documented C name %s is not declared by the generated headers" % m.group(1)
                key = "c02:%s:%s" % (st, kind_key(f) if f else "unattributed")
                ctx.fail(key, "generated C API does not build (%s): %s" % (st, msg),
                         {"yaml": ytext, "function": spec.fdecl(f)["decl"] if f else None, "log": res["log"][-1500:]})
                continue
            if st == "timeout":
                ctx.fail("c02:timeout", "driver did not terminate", {"yaml": ytext})
                continue
            act = [l for l in res["out"].split("\n") if l != ""]
            exp = E.exp
            ncalls += len(exp)
            i = first_diff(exp, act)
            for c in E.ctx:
                f = c["func"]
                kinds[kind_key(f)] = 1
                for p in f.params:
                    ctx.nontrivial(("param", p.key()))
                ctx.nontrivial(("ret", f.ret[0], f.kind, bool(f.cls), f.static, f.const))
            if i is None and res["rc"] == 0:
                continue
            if i is None:
                ctx.fail("c02:sanitizer-or-exit", "driver exit code %s with a matching trace" % res["rc"],
                         {"yaml": ytext, "tail": res["out"][-1500:]})
                continue
            e = exp[i] if i < len(exp) else "<end>"
            a = act[i] if i < len(act) else "<end>"
            c = E.ctx[min(i, len(E.ctx) - 1)]
            f = c["func"]
            tok = token_diff(e, a) if e != "<end>" and a != "<end>" else "length"
            side = "received" if e.startswith("C ") else ("returned" if tok == "ret" else "output")
            pk = ""
            m = re.match(r"[po](\d+)$", tok)
            allp = list(f.params) + [p for p, _ in f.defaults]
            if m and int(m.group(1)) < len(allp):
                pk = allp[int(m.group(1))].key()
            elif tok == "this":
                side, pk = "this", "%s%s" % (f.kind, ":const" if f.const else "")
            elif tok == "ret":
                pk = "/".join(str(x) for x in f.ret)
            if e.startswith("C ") and a.startswith("C ") and ("DECOY" in a or e.split(" ")[1] != a.split(" ")[1]):
                # another C++ function ran than the one the C name is documented for
                side, pk = "wrong-overload", kind_key(f)
            if "ERROR: AddressSanitizer" in res["out"] or "runtime error" in res["out"]:
                side = "sanitizer-" + side
            ctx.fail("c02:%s:%s" % (side, pk or tok),
                     "calling the wrapper differs from the C++ call for %s: expected trace `%s`, got `%s`" % (c["function"], e, a),
                     {"yaml": ytext, "function": c["function"], "values": c["values"], "expected": e, "actual": a,
                      "sanitizer": [l for l in res["out"].split("\n") if "Sanitizer" in l or "runtime error" in l][:3]})
        ctx.count(ncalls)
        ctx.note("overload_shapes_oracle", dict(sorted(shapes.items())))
        ctx.note("oracle_libraries", len(jobs))
        ctx.note("oracle_trace_lines", ncalls)
        ctx.note("oracle_function_kinds", len(kinds))
    finally:
        common.rmtree(work)
