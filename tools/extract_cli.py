"""Translator for C14: the command-line interface data of shroud/main.py ->
lean/ShroudVerif/Gen/Cli.lean.

Regenerated from the working tree (AST scan, nothing is executed):
  * parserDefaults  - dest and default of every parser.add_argument(...) in main()
  * wrapperAssigns  - every `args.<field> = <expr>` in create_wrapper()
  * reads           - every `args.<field>` read in main_with_args()
Text is emitted as lists of code points; fields are interned to Nat ids.
"""
import ast
import os

from tools import common

OUT = os.path.join(common.LEAN, "ShroudVerif", "Gen", "Cli.lean")


def _func(tree, name):
    for n in tree.body:
        if isinstance(n, ast.FunctionDef) and n.name == name:
            return n
    raise RuntimeError("extract_cli: function %s not found in main.py" % name)


def _value(node, params=()):
    """Classify an expression: ('str', s) ('emptyList',) ('bool', b) ('none',) ('int', i)
    ('param', name) ('listOfParam', name) ('unknown', src)."""
    if isinstance(node, ast.Constant):
        v = node.value
        if v is None:
            return ("none",)
        if isinstance(v, bool):
            return ("bool", v)
        if isinstance(v, int):
            return ("int", v)
        if isinstance(v, str):
            return ("str", v)
    if isinstance(node, ast.List):
        if not node.elts:
            return ("emptyList",)
        if len(node.elts) == 1 and isinstance(node.elts[0], ast.Name) and node.elts[0].id in params:
            return ("listOfParam", node.elts[0].id)
        if all(isinstance(e, ast.Constant) and isinstance(e.value, str) for e in node.elts):
            return ("strList", [e.value for e in node.elts])
    if isinstance(node, ast.Name) and node.id in params:
        return ("param", node.id)
    return ("unknown", ast.dump(node)[:60])


def scan(repo=None):
    repo = repo or common.REPO
    src = open(os.path.join(repo, "shroud", "main.py")).read()
    tree = ast.parse(src)

    # ---- parser defaults
    defaults = []
    appends = []
    for call in ast.walk(_func(tree, "main")):
        if not (isinstance(call, ast.Call) and isinstance(call.func, ast.Attribute)
                and call.func.attr == "add_argument"):
            continue
        names = [a.value for a in call.args if isinstance(a, ast.Constant) and isinstance(a.value, str)]
        kw = {k.arg: k.value for k in call.keywords}
        action = kw.get("action")
        if isinstance(action, ast.Constant) and action.value in ("version", "help"):
            continue  # no attribute on the namespace
        if "dest" in kw and isinstance(kw["dest"], ast.Constant):
            dest = kw["dest"].value
        else:
            longs = [n for n in names if n.startswith("--")]
            if longs:
                dest = longs[0][2:].replace("-", "_")
            elif names and not names[0].startswith("-"):
                dest = names[0]
            else:
                dest = names[0].lstrip("-")
        positional = bool(names) and not names[0].startswith("-")
        if "default" in kw:
            val = _value(kw["default"])
        elif positional and isinstance(kw.get("nargs"), ast.Constant) and kw["nargs"].value == "*":
            val = ("emptyList",)  # argparse: a '*' positional without default parses to []
        else:
            val = ("none",)
        defaults.append((dest, val, call.lineno))
        if isinstance(action, ast.Constant) and action.value == "append":
            appends.append(dest)
    defaults.sort(key=lambda t: t[2])

    # ---- create_wrapper assignments
    cw = _func(tree, "create_wrapper")
    params = tuple(a.arg for a in cw.args.args)
    assigns = []
    for n in ast.walk(cw):
        if isinstance(n, ast.Assign):
            for t in n.targets:
                if isinstance(t, ast.Attribute) and isinstance(t.value, ast.Name) and t.value.id == "args":
                    assigns.append((t.attr, _value(n.value, params), n.lineno))
    assigns.sort(key=lambda t: t[2])

    # ---- reads in main_with_args
    reads = []
    for n in ast.walk(_func(tree, "main_with_args")):
        if (isinstance(n, ast.Attribute) and isinstance(n.value, ast.Name) and n.value.id == "args"
                and isinstance(n.ctx, ast.Load)):
            if n.attr not in reads:
                reads.append(n.attr)
    reads.sort()

    # ---- class Config: attributes bound at class level to a mutable object are shared by every Config()
    cfg_class_mutable, cfg_class_attrs, cfg_init_attrs = [], [], []
    for n in tree.body:
        if isinstance(n, ast.ClassDef) and n.name == "Config":
            for st in n.body:
                if isinstance(st, (ast.Assign, ast.AnnAssign)):
                    targets = st.targets if isinstance(st, ast.Assign) else [st.target]
                    for t in targets:
                        if isinstance(t, ast.Name):
                            cfg_class_attrs.append(t.id)
                            v = st.value
                            if v is not None and not isinstance(v, ast.Constant) and not (
                                    isinstance(v, ast.Tuple) and all(isinstance(e, ast.Constant) for e in v.elts)):
                                cfg_class_mutable.append(t.id)
                elif isinstance(st, ast.FunctionDef) and st.name == "__init__":
                    for a in ast.walk(st):
                        if isinstance(a, ast.Assign):
                            for t in a.targets:
                                if isinstance(t, ast.Attribute) and isinstance(t.value, ast.Name) and t.value.id == "self":
                                    cfg_init_attrs.append(t.attr)
    return dict(appends=appends, cfg_class_mutable=cfg_class_mutable, cfg_class_attrs=cfg_class_attrs, cfg_init_attrs=cfg_init_attrs,
                defaults=[(d, v) for d, v, _ in defaults], assigns=[(d, v) for d, v, _ in assigns],
                reads=reads, params=list(params))


def _nats(s):
    return "[" + ", ".join(str(ord(c)) for c in s) + "]"


def _lean_v(v):
    k = v[0]
    if k == "str":
        return ".str " + _nats(v[1])
    if k == "emptyList":
        return ".emptyList"
    if k == "bool":
        return ".bool " + ("true" if v[1] else "false")
    if k == "none":
        return ".none"
    if k == "int":
        return ".int (%d)" % v[1]
    if k == "param":
        return ".param " + _nats(v[1])
    if k == "listOfParam":
        return ".listOfParam " + _nats(v[1])
    if k == "strList":
        return ".strList [" + ", ".join(_nats(x) for x in v[1]) + "]"
    return ".unknown"


def render(data):
    names = []
    for d, _ in data["defaults"] + data["assigns"]:
        if d not in names:
            names.append(d)
    for d in data["reads"]:
        if d not in names:
            names.append(d)
    idx = {n: i for i, n in enumerate(names)}
    out = []
    out.append("/-! GENERATED by tools/extract_cli.py from shroud/main.py -- do not edit.")
    out.append("Command-line data: parser defaults of `main()`, the assignments of")
    out.append("`create_wrapper()`, the `args.<field>` reads of `main_with_args()`. -/")
    out.append("namespace Shroud.Gen.Cli")
    out.append("")
    out.append("inductive V where")
    out.append("  | str (s : List Nat) | emptyList | bool (b : Bool) | none | int (i : Int)")
    out.append("  | param (n : List Nat) | listOfParam (n : List Nat) | strList (l : List (List Nat)) | unknown")
    out.append("deriving Repr, DecidableEq")
    out.append("")
    out.append("/-- field id -> name (code points) -/")
    out.append("def fieldNames : List (List Nat) := [")
    out.append(",\n".join("  %s  -- %d %s" % (_nats(n), i, n) if False else "  /- %d %s -/ %s" % (i, n, _nats(n))
                          for i, n in enumerate(names)))
    out.append("]")
    out.append("")
    out.append("def parserDefaults : List (Nat × V) := [")
    out.append(",\n".join("  /- %s -/ (%d, %s)" % (d, idx[d], _lean_v(v)) for d, v in data["defaults"]))
    out.append("]")
    out.append("")
    out.append("def wrapperAssigns : List (Nat × V) := [")
    out.append(",\n".join("  /- %s -/ (%d, %s)" % (d, idx[d], _lean_v(v)) for d, v in data["assigns"]))
    out.append("]")
    out.append("")
    out.append("/-- fields filled by argparse `action=\"append\"`: every occurrence is appended to the DEFAULT list -/")
    out.append("def appendFields : List Nat := [" + ", ".join("/- %s -/ %d" % (d, idx[d]) for d in data["appends"]) + "]")
    out.append("")
    out.append("/-- attributes of `class Config` bound at class level to a mutable object (shared by all instances) -/")
    out.append("def configClassMutable : List (List Nat) := [" + ", ".join(_nats(n) for n in data["cfg_class_mutable"]) + "]")
    out.append("")
    out.append("/-- attributes `Config.__init__` creates per instance -/")
    out.append("def configInitAttrs : List (List Nat) := [" + ", ".join("/- %s -/ %s" % (n, _nats(n)) for n in data["cfg_init_attrs"]) + "]")
    out.append("")
    out.append("def reads : List Nat := [" + ", ".join("/- %s -/ %d" % (d, idx[d]) for d in data["reads"]) + "]")
    out.append("")
    out.append("end Shroud.Gen.Cli")
    return "\n".join(out) + "\n"


def regenerate(repo=None):
    """Write Gen/Cli.lean if its content changed.  Returns (data, changed)."""
    data = scan(repo)
    text = render(data)
    os.makedirs(os.path.dirname(OUT), exist_ok=True)
    old = None
    if os.path.exists(OUT):
        old = open(OUT).read()
    if old != text:
        with open(OUT, "w") as f:
            f.write(text)
        return data, True
    return data, False


if __name__ == "__main__":
    d, ch = regenerate()
    print("changed" if ch else "unchanged", d)
