"""Run a sequence of Shroud invocations in ONE fresh Python process (programmatic entry point).
usage: python -m tools.seqrun '<json list of {"corpus": name | "yaml": path, "outdir": dir, "options": [...], "language": ..}>'
Prints a JSON list with the exception (or null) of every invocation."""
import json
import sys

from tools import shroudrun


def main():
    spec = json.loads(sys.argv[1])
    res = []
    for item in spec:
        if "corpus" in item:
            cfg, exc, out = shroudrun.run_corpus_inproc(item["corpus"], item["outdir"], item.get("options", ()))
        else:
            cfg, exc, out = shroudrun.run_inproc([item["yaml"]], item["outdir"], options=item.get("options", ()),
                                                 language=item.get("language"), path=item.get("path"))
        res.append(None if exc is None else "%s: %s" % (type(exc).__name__, exc))
    print(json.dumps(res))


if __name__ == "__main__":
    main()
