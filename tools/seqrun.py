"""Run a sequence of Shroud invocations in ONE fresh Python process (programmatic entry point).
usage: python -m tools.seqrun '<json list of {"corpus": name | "yaml": path, "outdir": dir, "options": [...], "language": ..}>'
Prints a JSON list with the exception (or null) of every invocation."""
import json
import sys

from tools import shroudrun


def main():
    spec = json.loads(sys.argv[1])
    res = []
    import os
    for item in spec:
        # the file lists a build system asks for are output too (their order must be repeatable)
        lists = dict(cfiles=os.path.join(item["outdir"], "_cfiles.txt"), ffiles=os.path.join(item["outdir"], "_ffiles.txt"),
                     write_helpers="_helpers")      # the helper dump (--write-helpers) is output too
        if "corpus" in item:
            cfg, exc, out = shroudrun.run_corpus_inproc(item["corpus"], item["outdir"], item.get("options", ()), **lists)
        else:
            cfg, exc, out = shroudrun.run_inproc([item["yaml"]], item["outdir"], options=item.get("options", ()),
                                                 language=item.get("language"), path=item.get("path"), **lists)
        res.append(None if exc is None else "%s: %s" % (type(exc).__name__, exc))
    print(json.dumps(res))


if __name__ == "__main__":
    main()
