"""Confirm a seeded change and run our checks against it.

usage: python -m tools.seedtest <seeded_dir> [--props C13,C07] [--tier quick|thorough]

<seeded_dir> holds patch.diff, demo.py|demo.sh and meta.json (property, ...).  A scratch worktree of /repo
is created under /tmp, the pinned tests are run with the patch, the demonstration is run with and
without it, then `SHROUD_REPO=<worktree> ./check <prop>` is run and the outcome is recorded in
<seeded_dir>/result.json.  The worktree is removed afterwards.  /repo itself is never modified."""
import argparse
import json
import os
import subprocess
import sys
import tempfile

VERIF = os.path.dirname(os.path.dirname(os.path.abspath(__file__)))


def sh(cmd, **kw):
    p = subprocess.run(cmd, stdout=subprocess.PIPE, stderr=subprocess.STDOUT, text=True, **kw)
    return p.returncode, p.stdout


def run_demo(sd, checkout):
    for name, interp in (("demo.py", ["/venv/bin/python"]), ("demo.sh", ["bash"])):
        p = os.path.join(sd, name)
        if os.path.exists(p):
            env = dict(os.environ, PYTHONPATH=checkout, PYTHONDONTWRITEBYTECODE="1")
            return sh(interp + [p, checkout], env=env, timeout=900)
    return None, "no demo"


def main():
    ap = argparse.ArgumentParser()
    ap.add_argument("seeded_dir")
    ap.add_argument("--props", default=None)
    ap.add_argument("--tier", default="quick")
    a = ap.parse_args()
    sd = os.path.abspath(a.seeded_dir)
    meta = json.load(open(os.path.join(sd, "meta.json")))
    props = (a.props or meta["property"]).split(",")
    wt = tempfile.mkdtemp(prefix="seedwt-")
    os.rmdir(wt)
    res = {"props": props, "tier": a.tier}
    try:
        rc, out = sh(["git", "-C", "/repo", "worktree", "add", "-q", "--detach", wt, "HEAD"])
        assert rc == 0, out
        rc0, out0 = run_demo(sd, wt)
        res["demo_without_patch_rc"] = rc0
        rc, out = sh(["git", "-C", wt, "apply", os.path.join(sd, "patch.diff")])
        head = sh(["git", "-C", "/repo", "rev-parse", "--short", "HEAD"])[1].strip()
        base = meta.get("base_commit")
        if rc != 0:
            rc, out = sh(["git", "-C", wt, "apply", "-3", os.path.join(sd, "patch.diff")])
            if rc == 0:
                res["applied_with_3way"] = True
            else:
                sh(["git", "-C", wt, "reset", "-q", "--hard", "HEAD"])
        if rc != 0 and base:
            # /repo moved on (fix: commits) and the patch no longer applies to HEAD: use the commit it was made against
            sh(["git", "-C", wt, "checkout", "-q", "--detach", base])
            rc, out = sh(["git", "-C", wt, "apply", os.path.join(sd, "patch.diff")])
            res["applied_to"] = base
        elif rc == 0:
            res["applied_to"] = head
            if not base:
                meta["base_commit"] = head
                json.dump(meta, open(os.path.join(sd, "meta.json"), "w"), indent=1)
        res["patch_applies"] = rc == 0
        if rc != 0:
            res["apply_output"] = out[-2000:]
        else:
            rc, out = sh(["/venv/bin/python", "-m", "pytest", "-q", "-p", "no:cacheprovider", "tests", "--ignore=tests/test_shroud.py"], cwd=wt)
            res["pinned_tests"] = out.strip().split("\n")[-1]
            rc1, out1 = run_demo(sd, wt)
            res["demo_with_patch_rc"] = rc1
            res["demo_with_patch_tail"] = (out1 or "")[-600:]
            res["checks"] = {}
            for p in props:
                env = dict(os.environ, SHROUD_REPO=wt)
                rc, out = sh([os.path.join(VERIF, "check"), p, "--tier", a.tier], cwd=VERIF, env=env, timeout=7200)
                lines = [l for l in out.split("\n") if l.startswith(("VIOLATION", "KNOWN-FINDING", p + " "))]
                res["checks"][p] = {"rc": rc, "lines": lines[-6:]}
    finally:
        sh(["git", "-C", "/repo", "worktree", "remove", "--force", wt])
    json.dump(res, open(os.path.join(sd, "result.json"), "w"), indent=1)
    print(json.dumps(res, indent=1))
    # the run against the patched checkout rewrote Gen files and evidence: regenerate them from /repo
    for p in props:
        rc, out = sh([os.path.join(VERIF, "check"), p, "--tier", "quick"], cwd=VERIF, timeout=7200)
        print("restore", p, "rc", rc)
    return 0


if __name__ == "__main__":
    sys.exit(main())
