"""Registry probe for C07 (runs in a FRESH interpreter):
    python -m tools.regprobe '<json: {"seq": [item, ...]}>'
Enumerates every module-level and class-level mutable container of shroud.*,
wraps dict registries in a tracing dict, runs the sequence of in-process
invocations and prints, per invocation, a canonical snapshot digest of every
registry plus the keys that were read before being written in that invocation
(with digests of the values read).  The caller compares [A, B] against [B]."""
import collections
import hashlib
import importlib
import json
import pkgutil
import sys
import types

from tools import shroudrun

MUTABLE = (dict, list, set, collections.OrderedDict)


def canon(obj, depth=0, seen=None):
    """Deterministic structural rendering (no addresses)."""
    if seen is None:
        seen = set()
    if depth > 12:
        return "<deep>"
    if obj is None or isinstance(obj, (bool, int, float, str, bytes)):
        return repr(obj)
    if isinstance(obj, Poison):
        return "<stale-unread>"
    oid = id(obj)
    if oid in seen:
        return "<cycle>"
    seen = seen | {oid}
    if isinstance(obj, dict):
        items = []
        for k in obj.keys():
            items.append((canon(k, depth + 1, seen), canon(obj[k] if not isinstance(obj, TraceDict) else dict.__getitem__(obj, k), depth + 1, seen)))
        return "{" + ",".join("%s:%s" % kv for kv in sorted(items)) + "}"
    if isinstance(obj, (list, tuple)):
        return "[" + ",".join(canon(x, depth + 1, seen) for x in list.__iter__(obj) if True) + "]" if isinstance(obj, list) else \
            "[" + ",".join(canon(x, depth + 1, seen) for x in obj) + "]"
    if isinstance(obj, (set, frozenset)):
        return "set(" + ",".join(sorted(canon(x, depth + 1, seen) for x in obj)) + ")"
    if isinstance(obj, (types.FunctionType, types.BuiltinFunctionType, types.MethodType, type, types.ModuleType)):
        return "<%s %s>" % (type(obj).__name__, getattr(obj, "__qualname__", getattr(obj, "__name__", "?")))
    d = getattr(obj, "__dict__", None)
    if d is not None:
        # Scope: do not follow the parent chain through AST nodes more than structurally
        return "<%s %s>" % (type(obj).__name__, canon({k: v for k, v in d.items() if not k.startswith("_Scope__parent")}, depth + 1, seen))
    return "<%s>" % type(obj).__name__


def digest(obj):
    return hashlib.sha1(canon(obj).encode()).hexdigest()[:16]


EVENTS = []        # ordered first events of the current run: (kind, registry id, canonical key)
_SEEN = set()


def ev(kind, td, key=None):
    """kind: reset | w (write key) | rk (read key) | ra (read whole container / its order / its size)"""
    rid = getattr(td, "t_rid", None)
    if rid is None:
        return
    try:
        k = None if key is None else canon(key)
    except Exception:
        k = "?"
    e = (kind, rid, k)
    if e not in _SEEN:
        _SEEN.add(e)
        EVENTS.append(e)


def new_run():
    del EVENTS[:]
    _SEEN.clear()


class TraceDict(dict):
    """dict that records keys read before being written since the last `epoch()`."""
    t_rid = None

    def __contains__(self, key):
        ev("rk", self, key)
        return dict.__contains__(self, key)

    def __iter__(self):
        ev("ra", self)
        return dict.__iter__(self)

    def keys(self):
        ev("ra", self)
        return dict.keys(self)

    def __len__(self):
        ev("ra", self)
        return dict.__len__(self)

    def copy(self):
        ev("ra", self)
        return dict.copy(self)

    def __delitem__(self, key):
        ev("rk", self, key)
        ev("w", self, key)
        dict.__delitem__(self, key)

    def pop(self, key, *a):
        ev("rk", self, key)
        ev("w", self, key)
        return dict.pop(self, key, *a)

    def popitem(self):
        ev("ra", self)
        return dict.popitem(self)

    def _init(self):
        self.t_written = set()
        self.t_read_first = {}

    def epoch(self):
        self._init()

    def _note_read(self, key):
        if key not in self.t_written and key not in self.t_read_first and dict.__contains__(self, key):
            try:
                self.t_read_first[key] = digest(dict.__getitem__(self, key))
            except Exception:
                self.t_read_first[key] = "?"

    def __getitem__(self, key):
        ev("rk", self, key)
        self._note_read(key)
        return dict.__getitem__(self, key)

    def get(self, key, default=None):
        ev("rk", self, key)
        self._note_read(key)
        return dict.get(self, key, default)

    def __setitem__(self, key, value):
        ev("w", self, key)
        self.t_written.add(key)
        dict.__setitem__(self, key, value)

    def setdefault(self, key, default=None):
        ev("rk", self, key)
        if dict.__contains__(self, key):
            self._note_read(key)
        else:
            ev("w", self, key)
            self.t_written.add(key)
        return dict.setdefault(self, key, default)

    def update(self, *a, **kw):
        other = dict(*a, **kw)
        for k in other:
            ev("w", self, k)
            self.t_written.add(k)
        dict.update(self, other)

    def items(self):
        ev("ra", self)
        for k in list(dict.keys(self)):
            self._note_read(k)
        return dict.items(self)

    def values(self):
        ev("ra", self)
        for k in list(dict.keys(self)):
            self._note_read(k)
        return dict.values(self)

    def clear(self):
        ev("reset", self)
        dict.clear(self)
        self.t_written = set()


class TraceList(list):
    """list that records whether it was accessed at all since the last `epoch()`."""
    t_rid = None

    def _init(self):
        self.t_accessed = False

    def epoch(self):
        self.t_accessed = False

    def __iter__(self):
        ev("ra", self)
        self.t_accessed = True
        return list.__iter__(self)

    def __getitem__(self, i):
        ev("ra", self)
        self.t_accessed = True
        return list.__getitem__(self, i)

    def __len__(self):
        ev("ra", self)
        self.t_accessed = True
        return list.__len__(self)

    def __contains__(self, x):
        ev("ra", self)
        self.t_accessed = True
        return list.__contains__(self, x)

    # a list keeps order: every in-place change both reads (position depends on what is there) and writes
    def _rw(self):
        ev("ra", self)
        ev("w", self, "<list>")

    def append(self, x):
        self._rw()
        list.append(self, x)

    def extend(self, x):
        self._rw()
        list.extend(self, x)

    def insert(self, i, x):
        self._rw()
        list.insert(self, i, x)

    def __setitem__(self, i, x):
        self._rw()
        list.__setitem__(self, i, x)

    def __delitem__(self, i):
        self._rw()
        list.__delitem__(self, i)

    def pop(self, *a):
        self._rw()
        return list.pop(self, *a)

    def remove(self, x):
        self._rw()
        list.remove(self, x)

    def sort(self, *a, **kw):
        self._rw()
        list.sort(self, *a, **kw)

    def reverse(self):
        self._rw()
        list.reverse(self)

    def clear(self):
        ev("reset", self)
        list.clear(self)


IMMUTABLE_TYPES = (type(None), bool, int, float, complex, str, bytes, frozenset, types.FunctionType, types.BuiltinFunctionType,
                   types.ModuleType, type, property, staticmethod, classmethod, types.MethodDescriptorType,
                   types.GetSetDescriptorType, types.MemberDescriptorType, types.WrapperDescriptorType, type(len),
                   type(__import__("re").compile("")), type(__import__("operator").itemgetter(0)),
                   type(collections.namedtuple("_nt", "a").a), type(__import__("__future__").print_function))


class Unclassifiable(Exception):
    pass


class PoisonRead(Exception):
    pass


class Poison(object):
    """stands in, at the start of a run, for a module-level object an EARLIER run bound through `global`: the run may
    rebind the name (a reset) or leave it alone, but any use of the stale object raises"""

    def __init__(self, rid):
        object.__setattr__(self, "_rid", rid)

    def _boom(self, *a, **kw):
        raise PoisonRead("stale object of an earlier run used: " + object.__getattribute__(self, "_rid"))

    def __getattr__(self, name):
        if name.startswith("__") and name.endswith("__"):
            raise AttributeError(name)
        self._boom()
    __getitem__ = __iter__ = __len__ = __bool__ = __call__ = __contains__ = __setattr__ = _boom


REBOUND_OBJS = {}     # rid -> (module, name, import-time value) for non-container names rebound through `global`


def deep_immutable(v, depth=0):
    if isinstance(v, IMMUTABLE_TYPES):
        return True
    if isinstance(v, tuple) and depth < 6:
        return all(deep_immutable(x, depth + 1) for x in v)
    return False


def global_rebinds():
    """AST scan: {module: {function qualname: [names declared global]}} for every function of shroud.* with a
    `global` statement - the only way module-level names are rebound at run time"""
    import ast
    import os
    import shroud
    res = {}
    d = os.path.dirname(shroud.__file__)
    for f in sorted(os.listdir(d)):
        if not f.endswith(".py"):
            continue
        tree = ast.parse(open(os.path.join(d, f)).read())

        def walk(node, qual):
            for ch in ast.iter_child_nodes(node):
                if isinstance(ch, (ast.FunctionDef, ast.ClassDef)):
                    q = qual + [ch.name]
                    if isinstance(ch, ast.FunctionDef):
                        names = [n for g in ast.walk(ch) if isinstance(g, ast.Global) for n in g.names]
                        if names:
                            res.setdefault(f[:-3], {})[".".join(q)] = sorted(set(names))
                    walk(ch, q)
                else:
                    walk(ch, qual)
        walk(tree, [])
    return res


def kind_of(val):
    if isinstance(val, collections.OrderedDict):
        return "OrderedDict"
    if isinstance(val, dict):
        return "dict"
    if isinstance(val, list):
        return "list"
    if isinstance(val, set):
        return "set"
    if type(val).__name__ == "Scope":
        return "Scope"
    if isinstance(val, tuple):
        return "tuple"          # a tuple holding mutable values (e.g. Typemap._order default lists)
    return "object"


class DefaultsHolder(object):
    """the default values of a function's parameters live as long as the function: `getattr(h, "d<i>")` is
    `fn.__defaults__[i]`, `setattr` replaces it (so a mutable default can be traced like any other registry)"""

    def __init__(self, fn):
        object.__setattr__(self, "_fn", fn)

    def __getattr__(self, name):
        fn = object.__getattribute__(self, "_fn")
        if name.startswith("d") and name[1:].isdigit():
            return fn.__defaults__[int(name[1:])]
        if name.startswith("k_"):
            return fn.__kwdefaults__[name[2:]]
        raise AttributeError(name)

    def __setattr__(self, name, value):
        fn = object.__getattribute__(self, "_fn")
        if name.startswith("d") and name[1:].isdigit():
            d = list(fn.__defaults__)
            d[int(name[1:])] = value
            fn.__defaults__ = tuple(d)
        else:
            fn.__kwdefaults__[name[2:]] = value


def function_defaults(regs, prefix, fn):
    """mutable default argument values are process-wide state too"""
    if not isinstance(fn, types.FunctionType):
        return
    h = None
    for i, v in enumerate(fn.__defaults__ or ()):
        if not deep_immutable(v):
            h = h or DefaultsHolder(fn)
            regs["%s.<default %d>" % (prefix, i)] = (h, "d%d" % i, None)
    for k, v in (fn.__kwdefaults__ or {}).items():
        if not deep_immutable(v):
            h = h or DefaultsHolder(fn)
            regs["%s.<default %s>" % (prefix, k)] = (h, "k_" + k, None)


def enumerate_registries():
    """every module-level and class-level attribute of shroud.* that is not deeply immutable, plus every name some
    function rebinds through `global`.  Anything whose kind cannot be determined raises (no silent skipping)."""
    import shroud
    regs = {}
    rebinds = global_rebinds()
    for m in pkgutil.iter_modules(shroud.__path__):
        if m.name in ("__main__",):
            continue
        mod = importlib.import_module("shroud." + m.name)
        rebound = {n for names in rebinds.get(m.name, {}).values() for n in names}
        for name, val in list(vars(mod).items()):
            if name.startswith("__"):
                continue
            if isinstance(val, types.FunctionType) and val.__module__ == mod.__name__:
                function_defaults(regs, "%s.%s" % (m.name, name), val)
            if isinstance(val, MUTABLE):
                regs["%s.%s" % (m.name, name)] = (mod, name, None)
            elif isinstance(val, type) and val.__module__ == mod.__name__:
                for an, av in list(vars(val).items()):
                    f = av.__func__ if isinstance(av, (staticmethod, classmethod)) else av
                    if isinstance(f, types.FunctionType):
                        function_defaults(regs, "%s.%s.%s" % (m.name, name, an), f)
                    if an.startswith("__"):
                        continue
                    if isinstance(av, MUTABLE):
                        regs["%s.%s.%s" % (m.name, name, an)] = (val, an, None)
                    elif not deep_immutable(av):
                        if type(av).__module__.startswith("shroud") or hasattr(av, "__dict__") or isinstance(av, tuple):
                            regs["%s.%s.%s" % (m.name, name, an)] = (val, an, None)
                        else:
                            raise Unclassifiable("class attribute %s.%s.%s of type %s" % (m.name, name, an, type(av).__name__))
            elif type(val).__name__ == "Scope" and type(val).__module__ == "shroud.util":
                regs["%s.%s" % (m.name, name)] = (mod, name, None)
            elif name in rebound:
                regs["%s.%s" % (m.name, name)] = (mod, name, None)        # rebound by a `global` statement
                REBOUND_OBJS["%s.%s" % (m.name, name)] = (mod, name, val)
            elif isinstance(val, type) or deep_immutable(val):
                continue
            elif type(val).__module__.startswith("shroud") or hasattr(val, "__dict__") or isinstance(val, tuple):
                regs["%s.%s" % (m.name, name)] = (mod, name, None)        # module-level instance with attributes
            else:
                raise Unclassifiable("module attribute %s.%s of type %s" % (m.name, name, type(val).__name__))
        for fn, names in rebinds.get(m.name, {}).items():
            for n in names:
                if not hasattr(mod, n):
                    raise Unclassifiable("%s.%s declares `global %s` but the module has no such name at import" % (m.name, fn, n))
    return regs


def _resolve(mod, qual):
    owner, obj = None, mod
    for part in qual.split("."):
        owner, obj = obj, getattr(obj, part)
    return owner, qual.split(".")[-1], obj


def install_sites(regs, traced):
    """wrap the functions that reset a registry as a whole, so the trace shows a `reset` stage where the code has one:
      * functions with a `global` statement: a rebound name is a reset (new value re-wrapped for tracing)
      * statements.update_for_language(stmts, lang): history independent for every history (Props/C07 update_table_pure)
      * statements.update_stmt_tree(stmts, tree, defaults): rewrites every path of `tree` from `stmts`
      * whelpers.set_library: prunes CHelpers / FHelpers to their import-time key set"""
    import functools
    from shroud import statements, whelpers

    def rid_of(obj):
        for rid, (o, a, _) in regs.items():
            if getattr(o, a, None) is obj:
                return rid
        return None

    class _R(object):
        def __init__(self, rid):
            self.t_rid = rid

    def wrap(owner, attr, fn, before=None, after=None):
        @functools.wraps(fn)
        def w(*a, **kw):
            tok = before(*a, **kw) if before else None
            try:
                return fn(*a, **kw)
            finally:
                if after:
                    after(tok)
        setattr(owner, attr, w)

    for mname, fns in global_rebinds().items():
        mod = importlib.import_module("shroud." + mname)
        for qual, names in fns.items():
            owner, attr, fn = _resolve(mod, qual)
            if not isinstance(fn, types.FunctionType):
                continue

            def before(*a, _mod=mod, _names=names, **kw):
                return [(n, id(getattr(_mod, n, None))) for n in _names]

            def after(tok, _mod=mod, _mname=mname):
                for n, old in tok:
                    cur = getattr(_mod, n, None)
                    if id(cur) != old:
                        rid = "%s.%s" % (_mname, n)
                        ev("reset", _R(rid))
                        if type(cur) is dict:
                            td = TraceDict(cur); td._init(); td.t_rid = rid
                            setattr(_mod, n, td); traced[rid] = td
                        elif type(cur) is list:
                            tl = TraceList(cur); tl._init(); tl.t_rid = rid
                            setattr(_mod, n, tl); traced[rid] = tl
            wrap(owner, attr, fn, before, after)

    def b_ufl(stmts, lang, *a, **kw):
        rid = rid_of(stmts)
        if rid:
            ev("reset", _R(rid))
    wrap(statements, "update_for_language", statements.update_for_language, b_ufl)

    def b_ust(stmts, tree, defaults, *a, **kw):
        rid = rid_of(tree)
        if rid:
            ev("reset", _R(rid))
    wrap(statements, "update_stmt_tree", statements.update_stmt_tree, b_ust)

    static = {"whelpers.CHelpers": digest({k: dict.__getitem__(whelpers.CHelpers, k) for k in whelpers._static_chelpers}),
              "whelpers.FHelpers": digest({k: dict.__getitem__(whelpers.FHelpers, k) for k in whelpers._static_fhelpers})}

    def b_sl(*a, **kw):
        # the prune leaves exactly the import-time keys: a reset, provided their values are still the import-time ones
        for rid, keys, tab in (("whelpers.CHelpers", whelpers._static_chelpers, whelpers.CHelpers),
                               ("whelpers.FHelpers", whelpers._static_fhelpers, whelpers.FHelpers)):
            if digest({k: dict.__getitem__(tab, k) for k in keys if dict.__contains__(tab, k)}) == static[rid]:
                ev("reset", _R(rid))
    if hasattr(whelpers, "set_library") and hasattr(whelpers, "_static_chelpers"):
        wrap(whelpers, "set_library", whelpers.set_library, b_sl)


def main():
    spec = json.loads(sys.argv[1])
    regs = enumerate_registries()
    traced = {}
    for rid, (owner, attr, _) in regs.items():
        val = getattr(owner, attr) if not isinstance(owner, type) else vars(owner)[attr]
        if type(val) is dict:
            td = TraceDict(val)
            td._init()
            td.t_rid = rid
            setattr(owner, attr, td)
            traced[rid] = td
        elif type(val) is list:
            tl = TraceList(val)
            tl._init()
            tl.t_rid = rid
            setattr(owner, attr, tl)
            traced[rid] = tl
    install_sites(regs, traced)
    kinds = {rid: kind_of(getattr(o, a, None)) for rid, (o, a, _) in regs.items()}
    initial = {rid: digest(getattr(o, a)) for rid, (o, a, _) in regs.items()}
    out = {"registries": sorted(regs), "initial": initial, "kinds": kinds, "runs": []}
    for item in spec["seq"]:
        for td in traced.values():
            td.epoch()
        new_run()
        for rid, (mod, name, init) in REBOUND_OBJS.items():
            if getattr(mod, name, None) is not init:
                setattr(mod, name, Poison(rid))
        # registries may be rebound by the run (e.g. `global x; x = {}`): re-resolve afterwards
        if "corpus" in item:
            cfg, exc, _ = shroudrun.run_corpus_inproc(item["corpus"], item["outdir"], item.get("options", ()))
        else:
            cfg, exc, _ = shroudrun.run_inproc([item["yaml"]], item["outdir"], options=item.get("options", ()),
                                               language=item.get("language"), path=item.get("path"))
        events = [list(e) for e in EVENTS]
        unread = []
        for rid, (mod, name, init) in REBOUND_OBJS.items():
            if isinstance(getattr(mod, name, None), Poison):
                unread.append(rid)
        snap, reads, rebound = {}, {}, []
        for rid, (o, a, _) in regs.items():
            cur = getattr(o, a, None)
            snap[rid] = digest(cur)
            if rid in traced:
                if cur is not traced[rid]:
                    rebound.append(rid)
                elif isinstance(traced[rid], TraceList):
                    # a list registry: "read" = accessed at all (whole-list granularity)
                    reads[rid] = {"<list>": snap[rid]} if list.__len__(traced[rid]) and traced[rid].t_accessed else {}
                else:
                    reads[rid] = {canon(k): v for k, v in traced[rid].t_read_first.items()}
        out["runs"].append({"exc": None if exc is None else "%s: %s" % (type(exc).__name__, exc),
                            "snap": snap, "reads": reads, "rebound": rebound, "events": events, "unread_stale": unread})
    print(json.dumps(out))


if __name__ == "__main__":
    main()
