"""Registry probe for C07 (runs in a FRESH interpreter):
    python -m tools.regprobe '<json: {"seq": [item, ...]}>'
Enumerates every module-level and class-level mutable container of shroud.*,
wraps dict registries in a tracing dict, runs the sequence of in-process
invocations and prints, per invocation, a canonical snapshot digest of every
registry plus the keys that were read before being written in that invocation
(with digests of the values read).  The caller compares [A, B] against [B]."""
import collections
import hashlib
import importlib
import json
import pkgutil
import sys
import types

from tools import shroudrun

MUTABLE = (dict, list, set, collections.OrderedDict)


def canon(obj, depth=0, seen=None):
    """Deterministic structural rendering (no addresses)."""
    if seen is None:
        seen = set()
    if depth > 12:
        return "<deep>"
    if obj is None or isinstance(obj, (bool, int, float, str, bytes)):
        return repr(obj)
    oid = id(obj)
    if oid in seen:
        return "<cycle>"
    seen = seen | {oid}
    if isinstance(obj, dict):
        items = []
        for k in obj.keys():
            items.append((canon(k, depth + 1, seen), canon(obj[k] if not isinstance(obj, TraceDict) else dict.__getitem__(obj, k), depth + 1, seen)))
        return "{" + ",".join("%s:%s" % kv for kv in sorted(items)) + "}"
    if isinstance(obj, (list, tuple)):
        return "[" + ",".join(canon(x, depth + 1, seen) for x in list.__iter__(obj) if True) + "]" if isinstance(obj, list) else \
            "[" + ",".join(canon(x, depth + 1, seen) for x in obj) + "]"
    if isinstance(obj, (set, frozenset)):
        return "set(" + ",".join(sorted(canon(x, depth + 1, seen) for x in obj)) + ")"
    if isinstance(obj, (types.FunctionType, types.BuiltinFunctionType, types.MethodType, type, types.ModuleType)):
        return "<%s %s>" % (type(obj).__name__, getattr(obj, "__qualname__", getattr(obj, "__name__", "?")))
    d = getattr(obj, "__dict__", None)
    if d is not None:
        # Scope: do not follow the parent chain through AST nodes more than structurally
        return "<%s %s>" % (type(obj).__name__, canon({k: v for k, v in d.items() if not k.startswith("_Scope__parent")}, depth + 1, seen))
    return "<%s>" % type(obj).__name__


def digest(obj):
    return hashlib.sha1(canon(obj).encode()).hexdigest()[:16]


class TraceDict(dict):
    """dict that records keys read before being written since the last `epoch()`."""

    def _init(self):
        self.t_written = set()
        self.t_read_first = {}

    def epoch(self):
        self._init()

    def _note_read(self, key):
        if key not in self.t_written and key not in self.t_read_first and dict.__contains__(self, key):
            try:
                self.t_read_first[key] = digest(dict.__getitem__(self, key))
            except Exception:
                self.t_read_first[key] = "?"

    def __getitem__(self, key):
        self._note_read(key)
        return dict.__getitem__(self, key)

    def get(self, key, default=None):
        self._note_read(key)
        return dict.get(self, key, default)

    def __setitem__(self, key, value):
        self.t_written.add(key)
        dict.__setitem__(self, key, value)

    def setdefault(self, key, default=None):
        if dict.__contains__(self, key):
            self._note_read(key)
        else:
            self.t_written.add(key)
        return dict.setdefault(self, key, default)

    def update(self, *a, **kw):
        other = dict(*a, **kw)
        for k in other:
            self.t_written.add(k)
        dict.update(self, other)

    def items(self):
        for k in list(dict.keys(self)):
            self._note_read(k)
        return dict.items(self)

    def values(self):
        for k in list(dict.keys(self)):
            self._note_read(k)
        return dict.values(self)

    def clear(self):
        dict.clear(self)
        self.t_written = set()


class TraceList(list):
    """list that records whether it was accessed at all since the last `epoch()`."""

    def _init(self):
        self.t_accessed = False

    def epoch(self):
        self.t_accessed = False

    def __iter__(self):
        self.t_accessed = True
        return list.__iter__(self)

    def __getitem__(self, i):
        self.t_accessed = True
        return list.__getitem__(self, i)

    def __len__(self):
        self.t_accessed = True
        return list.__len__(self)

    def __contains__(self, x):
        self.t_accessed = True
        return list.__contains__(self, x)


def enumerate_registries():
    import shroud
    regs = {}
    for m in pkgutil.iter_modules(shroud.__path__):
        if m.name in ("__main__",):
            continue
        mod = importlib.import_module("shroud." + m.name)
        for name, val in list(vars(mod).items()):
            if name.startswith("__"):
                continue
            if isinstance(val, MUTABLE):
                regs["%s.%s" % (m.name, name)] = (mod, name, None)
            elif isinstance(val, type) and val.__module__ == mod.__name__:
                for an, av in list(vars(val).items()):
                    if not an.startswith("__") and isinstance(av, MUTABLE):
                        regs["%s.%s.%s" % (m.name, name, an)] = (val, an, None)
            elif type(val).__name__ == "Scope" and type(val).__module__ == "shroud.util":
                regs["%s.%s" % (m.name, name)] = (mod, name, None)
    return regs


def main():
    spec = json.loads(sys.argv[1])
    regs = enumerate_registries()
    traced = {}
    for rid, (owner, attr, _) in regs.items():
        val = getattr(owner, attr) if not isinstance(owner, type) else vars(owner)[attr]
        if type(val) is dict:
            td = TraceDict(val)
            td._init()
            setattr(owner, attr, td)
            traced[rid] = td
        elif type(val) is list:
            tl = TraceList(val)
            tl._init()
            setattr(owner, attr, tl)
            traced[rid] = tl
    initial = {rid: digest(getattr(o, a)) for rid, (o, a, _) in regs.items()}
    out = {"registries": sorted(regs), "initial": initial, "runs": []}
    for item in spec["seq"]:
        for td in traced.values():
            td.epoch()
        # registries may be rebound by the run (e.g. `global x; x = {}`): re-resolve afterwards
        if "corpus" in item:
            cfg, exc, _ = shroudrun.run_corpus_inproc(item["corpus"], item["outdir"], item.get("options", ()))
        else:
            cfg, exc, _ = shroudrun.run_inproc([item["yaml"]], item["outdir"], options=item.get("options", ()),
                                               language=item.get("language"), path=item.get("path"))
        snap, reads, rebound = {}, {}, []
        for rid, (o, a, _) in regs.items():
            cur = getattr(o, a, None)
            snap[rid] = digest(cur)
            if rid in traced:
                if cur is not traced[rid]:
                    rebound.append(rid)
                elif isinstance(traced[rid], TraceList):
                    # a list registry: "read" = accessed at all (whole-list granularity)
                    reads[rid] = {"<list>": snap[rid]} if list.__len__(traced[rid]) and traced[rid].t_accessed else {}
                else:
                    reads[rid] = {canon(k): v for k, v in traced[rid].t_read_first.items()}
        out["runs"].append({"exc": None if exc is None else "%s: %s" % (type(exc).__name__, exc),
                            "snap": snap, "reads": reads, "rebound": rebound})
    print(json.dumps(out))


if __name__ == "__main__":
    main()
