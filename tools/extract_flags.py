"""Translator for C15: /repo working tree -> lean/ShroudVerif/Gen/Flags.lean

 * writeSites: AST scan of shroud/wrap*.py for every `self.write_output_file(fname, self.config.<dir>, ...)`
   call with, for the same statement block, the immediately preceding
   `self.config.<list>.append(os.path.join(self.config.<dir2>, <name>))` if any.
   Row = (emitter code, directory code, list code, append-directory code, same-name flag).
 * appendSites: number of cfiles/ffiles append statements in each emitter (so an append without a
   following write is visible).
 * driverGuards: the ordered emitter invocations of main.main_with_args with the wrap flag guarding each.
 * defaultCloneAssign: the keyword arguments of the `wrap.assign(...)` call in GenFunctions.has_default_args,
   encoded as (c source, fortran source) with 0 = constant False/absent, 1 = constant True, 2 = node.wrap.<same>.
"""
import ast
import os

from tools import common
from tools.extract_registry import write_if_changed

GEN = os.path.join(common.LEAN, "ShroudVerif", "Gen", "Flags.lean")

EMITTERS = {"wrapc.py": 0, "wrapf.py": 1, "wrapp.py": 2, "wrapl.py": 3}
DIRS = {"c_fortran_dir": 0, "python_dir": 1, "lua_dir": 2, "out_dir": 3, "yaml_dir": 4}
LISTS = {"cfiles": 0, "ffiles": 1, "pyfiles": 2}
NONE = 9


def _cfg_attr(node):
    """self.config.<x> -> x"""
    if isinstance(node, ast.Attribute) and isinstance(node.value, ast.Attribute) and node.value.attr == "config":
        return node.attr
    return None


def _append_info(stmt):
    """self.config.<list>.append(os.path.join(self.config.<dir>, <name>)) -> (list, dir, name-src)"""
    if not (isinstance(stmt, ast.Expr) and isinstance(stmt.value, ast.Call)):
        return None
    call = stmt.value
    f = call.func
    if not (isinstance(f, ast.Attribute) and f.attr == "append"):
        return None
    lst = _cfg_attr(f.value)
    if lst not in LISTS:
        return None
    arg = call.args[0] if call.args else None
    d, name = None, None
    if isinstance(arg, ast.Call) and isinstance(arg.func, ast.Attribute) and arg.func.attr == "join" and len(arg.args) == 2:
        d = _cfg_attr(arg.args[0])
        name = ast.dump(arg.args[1])
    return lst, d, name


def _write_info(stmt):
    if not (isinstance(stmt, ast.Expr) and isinstance(stmt.value, ast.Call)):
        return None
    call = stmt.value
    f = call.func
    if isinstance(f, ast.Attribute) and f.attr == "write_output_file" and len(call.args) >= 2:
        return _cfg_attr(call.args[1]), ast.dump(call.args[0])
    return None


def scan_sites():
    rows, appends, unknown = [], {}, []
    d = os.path.join(common.REPO, "shroud")
    for fn, em in sorted(EMITTERS.items()):
        tree = ast.parse(open(os.path.join(d, fn)).read())
        appends[em] = 0
        for node in ast.walk(tree):
            for field in ("body", "orelse", "finalbody"):
                block = getattr(node, field, None)
                if not isinstance(block, list):
                    continue
                for i, st in enumerate(block):
                    ai = _append_info(st)
                    if ai and ai[0] in ("cfiles", "ffiles"):
                        appends[em] += 1
                    wi = _write_info(st)
                    if wi is None:
                        continue
                    wdir, wname = wi
                    prev = _append_info(block[i - 1]) if i > 0 else None
                    if wdir not in DIRS:
                        unknown.append("%s:%d directory %r" % (fn, st.lineno, wdir))
                    rows.append({
                        "file": fn, "line": st.lineno, "em": em, "dir": DIRS.get(wdir, NONE),
                        "list": LISTS[prev[0]] if prev else NONE,
                        "adir": DIRS.get(prev[1], NONE) if prev else NONE,
                        "same": 1 if (prev and prev[2] == wname) else 0,
                    })
    rows.sort(key=lambda r: (r['file'], r['line']))
    return rows, appends, unknown


def scan_driver():
    """Ordered (guard, emitter) pairs inside main_with_args' try block.
    guard codes: 0 c, 1 fortran, 2 python, 3 lua, 9 none.  emitter codes: 0 Wrapc.wrap_library, 1 Wrapf, 2 Wrapp, 3 Wrapl, 4 write_impl_utility"""
    src = open(os.path.join(common.REPO, "shroud", "main.py")).read()
    tree = ast.parse(src)
    fn = [n for n in ast.walk(tree) if isinstance(n, ast.FunctionDef) and n.name == "main_with_args"][0]
    guards = {"c": 0, "fortran": 1, "python": 2, "lua": 3}
    steps = []

    def emitter_of(call_src):
        if "write_impl_utility" in call_src:
            return 4
        if "wrapf.Wrapf" in call_src:
            return 1
        if "wrapp.Wrapp" in call_src:
            return 2
        if "wrapl.Wrapl" in call_src:
            return 3
        if "clibrary.wrap_library" in call_src or "wrapc.Wrapc" in call_src and "wrap_library" in call_src:
            return 0
        return None

    def visit(stmts, guard):
        for st in stmts:
            if isinstance(st, ast.If):
                t = st.test
                g = NONE
                if isinstance(t, ast.Attribute) and isinstance(t.value, ast.Name) and t.value.id == "wrap" and t.attr in guards:
                    g = guards[t.attr]
                    visit(st.body, g)
                    visit(st.orelse, NONE)
                    continue
                visit(st.body, guard)
                visit(st.orelse, guard)
            elif isinstance(st, ast.Try):
                visit(st.body, guard)
            elif isinstance(st, ast.Expr) and isinstance(st.value, ast.Call):
                e = emitter_of(ast.unparse(st.value))
                if e is not None:
                    steps.append((guard, e))
    visit(fn.body, NONE)
    return steps


def scan_default_clone():
    src = open(os.path.join(common.REPO, "shroud", "generate.py")).read()
    tree = ast.parse(src)
    fn = [n for n in ast.walk(tree) if isinstance(n, ast.FunctionDef) and n.name == "has_default_args"][0]
    res = {"c": 0, "fortran": 0, "lua": 0, "python": 0, "c_f": 0}
    found = False
    for n in ast.walk(fn):
        if isinstance(n, ast.Call) and isinstance(n.func, ast.Attribute) and n.func.attr == "assign" \
                and isinstance(n.func.value, ast.Attribute) and n.func.value.attr == "wrap":
            found = True
            for kw in n.keywords:
                v = kw.value
                if isinstance(v, ast.Constant):
                    res[kw.arg] = 1 if v.value else 0
                elif isinstance(v, ast.Attribute) and v.attr == kw.arg and isinstance(v.value, ast.Attribute) and v.value.attr == "wrap":
                    res[kw.arg] = 2
                else:
                    res[kw.arg] = 9
    if not found:
        res = {k: 9 for k in res}
    return res


def scan_wrap_defaults():
    """wrap_* keyword defaults in ast.py (the dict(...) call of default_options)"""
    src = open(os.path.join(common.REPO, "shroud", "ast.py")).read()
    tree = ast.parse(src)
    out = {}
    for n in ast.walk(tree):
        if isinstance(n, ast.Call):
            kws = {kw.arg: kw.value for kw in n.keywords if kw.arg}
            if "wrap_c" in kws and "wrap_fortran" in kws:
                for k in ("wrap_fortran", "wrap_c", "wrap_lua", "wrap_python"):
                    v = kws.get(k)
                    out[k] = v.value if isinstance(v, ast.Constant) and isinstance(v.value, bool) else None
    return out


def scan_flag_writes():
    """every write to a `.wrap` flag in generate.py:
       assigns: (function, keywords of `<x>.wrap.assign(...)` encoded 0 False/absent 1 True 2 node.wrap.<same> 9 other, in
                the order fortran c_f c lua python)
       direct:  (function, language, value) of `<x>.wrap.<lang> = <value>`; value 0 False 1 True 2 <y>.wrap.<same lang> 9 other
       clears:  functions calling `<x>.wrap.clear()`"""
    src = open(os.path.join(common.REPO, "shroud", "generate.py")).read()
    tree = ast.parse(src)
    langs = ("fortran", "c_f", "c", "lua", "python")
    assigns, direct, clears = [], [], []

    def is_wrap(n):
        return isinstance(n, ast.Attribute) and n.attr == "wrap"

    for fn in ast.walk(tree):
        if not isinstance(fn, ast.FunctionDef):
            continue
        for n in ast.walk(fn):
            if isinstance(n, ast.Call) and isinstance(n.func, ast.Attribute) and is_wrap(n.func.value):
                if n.func.attr == "assign":
                    enc = dict.fromkeys(langs, 0)
                    for kw in n.keywords:
                        v = kw.value
                        if isinstance(v, ast.Constant):
                            enc[kw.arg] = 1 if v.value else 0
                        elif isinstance(v, ast.Attribute) and v.attr == kw.arg and is_wrap(v.value):
                            enc[kw.arg] = 2
                        else:
                            enc[kw.arg] = 9
                    if n.args:
                        enc = dict.fromkeys(langs, 9)
                    assigns.append((fn.name, n.lineno, tuple(enc[k] for k in langs)))
                elif n.func.attr == "clear":
                    clears.append((fn.name, n.lineno))
            elif isinstance(n, ast.Assign):
                for t in n.targets:
                    if isinstance(t, ast.Attribute) and t.attr in langs and is_wrap(t.value):
                        v = n.value
                        if isinstance(v, ast.Constant) and isinstance(v.value, bool):
                            code = 1 if v.value else 0
                        elif isinstance(v, ast.Attribute) and v.attr == t.attr and is_wrap(v.value):
                            code = 2
                        else:
                            code = 9
                        direct.append((fn.name, n.lineno, t.attr, code))
    key = lambda r: r[1]
    return sorted(assigns, key=key), sorted(direct, key=key), sorted(clears, key=key)


def scan_container_guards():
    """In every emitter's wrap_namespace: each loop `for V in node.namespaces/classes` and the wrap flag that decides
    whether V is processed.  Row = (emitter, collection 0 namespaces 1 classes, guard subject 1 = the loop variable
    2 = the enclosing node 9 = other/none, language of the flag 0 c 1 fortran 2 python 3 lua 9 none)."""
    lang = {"c": 0, "fortran": 1, "python": 2, "lua": 3}
    rows = []
    for fn, em in sorted(EMITTERS.items(), key=lambda kv: kv[1]):
        tree = ast.parse(open(os.path.join(common.REPO, "shroud", fn)).read())
        for f in ast.walk(tree):
            if not (isinstance(f, ast.FunctionDef) and f.name == "wrap_namespace"):
                continue
            for n in ast.walk(f):
                if not (isinstance(n, ast.For) and isinstance(n.target, ast.Name) and isinstance(n.iter, ast.Attribute)
                        and n.iter.attr in ("namespaces", "classes")):
                    continue
                subj, lg = 9, 9
                for st in n.body[:3]:
                    if isinstance(st, ast.If):
                        for a in ast.walk(st.test):
                            if isinstance(a, ast.Attribute) and a.attr in lang and isinstance(a.value, ast.Attribute) \
                                    and a.value.attr == "wrap" and isinstance(a.value.value, ast.Name):
                                who = a.value.value.id
                                subj = 1 if who == n.target.id else (2 if who == "node" else 9)
                                lg = lang[a.attr]
                        break
                rows.append((em, 0 if n.iter.attr == "namespaces" else 1, subj, lg, n.lineno))
    return rows


def render(rows, appends, steps, clone, wdef=None, writes=None, guards=None):
    L = ["/- GENERATED by tools/extract_flags.py from the /repo working tree.  Do not edit. -/",
         "namespace Shroud.Gen.Flags", "",
         "/-- (emitter, directory, registered list, append directory, same file name) per write_output_file site;",
         "    emitter 0 wrapc 1 wrapf 2 wrapp 3 wrapl; directory 0 c_fortran 1 python 2 lua 3 out 4 yaml;",
         "    list 0 cfiles 1 ffiles 2 pyfiles 9 none -/",
         "def writeSites : List (Nat × Nat × Nat × Nat × Nat) := ["]
    L.append(",\n".join("  (%d, %d, %d, %d, %d)" % (r["em"], r["dir"], r["list"], r["adir"], r["same"]) for r in rows))
    L += ["]", "", "def writeSiteNames : List String := ["]
    L.append(",\n".join('  "%s:%d"' % (r["file"], r["line"]) for r in rows))
    L += ["]", "", "/-- number of cfiles/ffiles append statements per emitter (0 wrapc, 1 wrapf, 2 wrapp, 3 wrapl) -/",
          "def appendCounts : List (Nat × Nat) := [" + ", ".join("(%d, %d)" % (k, v) for k, v in sorted(appends.items())) + "]", "",
          "/-- ordered (guard, emitter) steps of main_with_args; guard 0 c 1 fortran 2 python 3 lua 9 none;",
          "    emitter 0 Wrapc 1 Wrapf 2 Wrapp 3 Wrapl 4 write_impl_utility -/",
          "def driverSteps : List (Nat × Nat) := [" + ", ".join("(%d, %d)" % s for s in steps) + "]", "",
          "/-- wrap.assign in has_default_args: (c, fortran, lua, python, c_f); 0 False, 1 True, 2 node.wrap.<same>, 9 other -/",
          "def defaultCloneAssign : Nat × Nat × Nat × Nat × Nat := (%d, %d, %d, %d, %d)" % (
              clone["c"], clone["fortran"], clone["lua"], clone["python"], clone["c_f"]), ""]
    b = lambda v: "true" if v else "false"
    L += ["/-- defaults of wrap_fortran, wrap_c, wrap_lua, wrap_python in ast.default_options -/",
          "def wrapDefaults : Bool × Bool × Bool × Bool := (%s, %s, %s, %s)" % tuple(
              b(wdef.get(k)) for k in ("wrap_fortran", "wrap_c", "wrap_lua", "wrap_python")), "",
          "/-- every `<x>.wrap.assign(...)` in generate.py: (function, (fortran, c_f, c, lua, python));",
          "    0 False/absent 1 True 2 <y>.wrap.<same> 9 other -/",
          "def cloneAssigns : List (String × Nat × Nat × Nat × Nat × Nat) := ["]
    L.append(",\n".join('  ("%s", %d, %d, %d, %d, %d)' % ((f,) + e) for f, _, e in writes[0]))
    lcode = {"fortran": 0, "c_f": 1, "c": 2, "lua": 3, "python": 4}
    L += ["]", "", "/-- every direct `<x>.wrap.<lang> = v` in generate.py: (function, lang 0 fortran 1 c_f 2 c 3 lua 4 python,",
          "    v 0 False 1 True 2 <y>.wrap.<same lang> 9 other) -/",
          "def directWrites : List (String × Nat × Nat) := ["]
    L.append(",\n".join('  ("%s", %d, %d)' % (f, lcode[l], c) for f, _, l, c in writes[1]))
    L += ["]", "", "/-- functions of generate.py that call `<x>.wrap.clear()` -/",
          "def clearSites : List String := [" + ", ".join('"%s"' % f for f, _ in writes[2]) + "]", "",
          "/-- loops over namespaces / classes in each emitter's wrap_namespace: (emitter 0 wrapc 1 wrapf 2 wrapp 3 wrapl,",
          "    collection 0 namespaces 1 classes, guard subject 1 loop variable 2 enclosing node 9 none, flag language) -/",
          "def containerGuards : List (Nat × Nat × Nat × Nat) := [" + ", ".join("(%d, %d, %d, %d)" % g[:4] for g in (guards or [])) + "]", "",
          "end Shroud.Gen.Flags"]
    return "\n".join(L) + "\n"


def regenerate():
    rows, appends, unknown = scan_sites()
    steps = scan_driver()
    clone = scan_default_clone()
    wdef = scan_wrap_defaults()
    writes = scan_flag_writes()
    guards = scan_container_guards()
    changed = write_if_changed(GEN, render(rows, appends, steps, clone, wdef, writes, guards))
    return {"write_sites": len(rows), "appends": appends, "driver_steps": steps, "default_clone": clone,
            "wrap_defaults": wdef, "flag_assign_sites": len(writes[0]), "flag_direct_writes": len(writes[1]),
            "flag_clear_sites": len(writes[2]), "container_guards": guards, "unknown": unknown, "changed": changed}


if __name__ == "__main__":
    import json
    print(json.dumps(regenerate(), indent=1))
