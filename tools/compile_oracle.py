"""C05 compile oracle (implementation only, no model).

One job = one library description + command line.  The job runs the real Shroud (in a fresh worker
process) into a scratch directory and hands every written file to the matching compiler front end:

  C sources       gcc  -std=c99   -fsyntax-only -Werror=implicit-function-declaration
  C++ sources     g++  -std=c++11 -fsyntax-only
  C headers       each on its own (`#include "x.h"` as the only line) from C and from C++
                  (wrap*.h / types*.h say "For C users and C++ implementation")
  Fortran         gfortran -cpp -ffree-form -fsyntax-only -J <scratch>, in `use` order
  Python sources  the same C/C++ front end with the CPython 3.12 include directory; files that need
                  NumPy headers (absent here) are skipped and counted
  Lua sources     against the C-API emulator headers in tools/ccheck/luaemu, if present

Include path: the scratch directory, then the library's own header directory (upstream corpus:
/repo/regression/run/*; generated libraries: a synthesized header).
"""
import os
import re
import shutil
import subprocess
import sys
import sysconfig

from tools import common

LUAEMU = os.path.join(common.VERIF, "tools", "ccheck", "luaemu")
RUNDIR = os.path.join(common.REPO, "regression", "run")
PYINC = sysconfig.get_paths()["include"]

# NB: no -w: it also silences diagnostics promoted with -Werror=...
CFLAGS = ["-std=c99", "-fsyntax-only", "-Werror=implicit-function-declaration", "-Werror=implicit-int"]
CXXFLAGS = ["-std=c++11", "-fsyntax-only", "-w"]
# free-form limit of 132 columns stays in force (gfortran: -Werror=line-truncation by default); no -w, no -ffree-line-length-none
FFLAGS = ["-cpp", "-ffree-form", "-fsyntax-only", "-Werror=line-truncation"]


def corpus_incdirs():
    out = []
    if os.path.isdir(RUNDIR):
        for d in sorted(os.listdir(RUNDIR)):
            p = os.path.join(RUNDIR, d)
            if os.path.isdir(p):
                out.append(p)
    return out


def norm_err(text, outdir):
    """first error line, normalised (no paths, no line numbers)"""
    for ln in text.split("\n"):
        if re.search(r"\berror\b|Error:", ln) or "Fatal Error" in ln:
            ln = ln.replace(outdir + "/", "").replace(outdir, "")
            ln = re.sub(r"^[^ ]*?:\d+(:\d+)?:\s*", "", ln)
            ln = re.sub(r"/[^ :]*/", "", ln)
            ln = re.sub(r"\s+", " ", ln).strip()
            return ln[:160]
    t = text.strip().split("\n")
    return (t[0] if t else "")[:160]


def fortran_error(text):
    """gfortran prints the message on the line after `Error:`-less header; collect `Error: ...` lines"""
    m = re.findall(r"^(?:Fatal )?Error: .*$", text, re.M)
    return re.sub(r"\s+", " ", m[0])[:160] if m else None


def run_cmd(cmd, cwd, timeout=120, stdin=None):
    try:
        p = subprocess.run(cmd, cwd=cwd, input=stdin, stdout=subprocess.PIPE, stderr=subprocess.STDOUT, text=True, timeout=timeout)
        return p.returncode, p.stdout
    except subprocess.TimeoutExpired:
        return 124, "timeout"


def classify(fn):
    low = fn.lower()
    if low.endswith((".json", ".log", ".py", ".yaml", ".txt", ".mod", ".o")):
        return None
    if low.endswith((".f", ".f90")):
        return "fortran"
    if fn.startswith("py") and low.endswith((".c", ".cpp", ".cxx", ".h", ".hpp")):
        return "python"
    if fn.startswith("lua") and low.endswith((".c", ".cpp", ".cxx", ".h", ".hpp")):
        return "lua"
    if low.endswith((".h", ".hpp", ".hh")):
        return "header"
    if low.endswith((".c",)):
        return "c"
    if low.endswith((".cpp", ".cxx", ".cc")):
        return "cxx"
    return None


def fortran_order(outdir, files):
    """topological order by `use <module>` among the generated files"""
    defines, uses = {}, {}
    for f in files:
        txt = open(os.path.join(outdir, f), errors="replace").read().lower()
        for m in re.findall(r"^\s*module\s+(\w+)\s*$", txt, re.M):
            defines[m] = f
        uses[f] = set(re.findall(r"^\s*use\s+(\w+)", txt, re.M))
    order, seen = [], set()

    def go(f, depth=0):
        if f in seen or depth > 50:
            return
        seen.add(f)
        for m in sorted(uses[f]):
            g = defines.get(m)
            if g and g != f:
                go(g, depth + 1)
        order.append(f)
    for f in sorted(files):
        go(f)
    return order


def compile_dir(outdir, language, incdirs, skip_numpy=True, defines=()):
    """returns list of results: dict(file, tool, status in ok|fail|skip, why, err, log); with `defines` the tool names
    carry the suffix +D (second pass with the cpp_if macros of the description defined)"""
    res = []
    inc = ["-I", outdir] + ["-D%s" % m for m in defines]
    sfx = "+D" if defines else ""
    for d in incdirs:
        inc += ["-I", d]
    files = sorted(os.listdir(outdir))
    kinds = {}
    for f in files:
        k = classify(f)
        if k:
            kinds.setdefault(k, []).append(f)

    def add(f, tool, rc, out, why=""):
        tool = tool + sfx
        if rc == 0:
            res.append({"file": f, "tool": tool, "status": "ok"})
            return
        m = re.search(r"fatal error: ([^:]+): No such file or directory", out)
        if m and not os.path.exists(os.path.join(outdir, os.path.basename(m.group(1)))):
            res.append({"file": f, "tool": tool, "status": "skip", "why": "header %s not available" % m.group(1).strip()})
            return
        err = (fortran_error(out) if tool.startswith("gfortran") else None) or norm_err(out, outdir)
        res.append({"file": f, "tool": tool, "status": "fail", "err": err, "log": out[-1500:]})

    for f in kinds.get("c", []):
        rc, out = run_cmd(["gcc"] + CFLAGS + inc + [f], outdir)
        add(f, "gcc", rc, out)
    for f in kinds.get("cxx", []):
        rc, out = run_cmd(["g++"] + CXXFLAGS + inc + [f], outdir)
        add(f, "g++", rc, out)
    for f in kinds.get("header", []):
        src = '#include "%s"\n' % f
        # the C view
        rc, out = run_cmd(["gcc", "-x", "c"] + CFLAGS + inc + ["-"], outdir, stdin=src)
        add(f, "gcc-header", rc, out)
        rc, out = run_cmd(["g++", "-x", "c++"] + CXXFLAGS + inc + ["-"], outdir, stdin=src)
        add(f, "g++-header", rc, out)
    ff = kinds.get("fortran", [])
    if ff:
        for f in fortran_order(outdir, ff):
            rc, out = run_cmd(["gfortran"] + FFLAGS + ["-J", outdir] + inc + [f], outdir)
            add(f, "gfortran", rc, out)
    for f in kinds.get("python", []):
        txt = open(os.path.join(outdir, f), errors="replace").read()
        if f.endswith((".h", ".hpp")):
            continue   # module header: compiled through the sources that include it
        if skip_numpy and ("arrayobject.h" in txt or "numpy" in txt.lower() and "NPY_" in txt):
            res.append({"file": f, "tool": "python", "status": "skip", "why": "needs NumPy headers (absent)"})
            continue
        if f.endswith(".c"):
            rc, out = run_cmd(["gcc"] + CFLAGS + inc + ["-I", PYINC, f], outdir)
            add(f, "gcc-python", rc, out)
        else:
            rc, out = run_cmd(["g++"] + CXXFLAGS + inc + ["-I", PYINC, f], outdir)
            add(f, "g++-python", rc, out)
    for f in kinds.get("lua", []):
        if f.endswith((".h", ".hpp")):
            continue
        if not os.path.exists(os.path.join(LUAEMU, "lua.h")):
            res.append({"file": f, "tool": "lua", "status": "skip", "why": "no Lua headers / emulator"})
            continue
        if f.endswith(".c"):
            rc, out = run_cmd(["gcc"] + CFLAGS + inc + ["-I", LUAEMU, f], outdir)
            add(f, "gcc-lua", rc, out)
        else:
            rc, out = run_cmd(["g++"] + CXXFLAGS + inc + ["-I", LUAEMU, f], outdir)
            add(f, "g++-lua", rc, out)
    return res


def duplicate_includes(outdir):
    """files that carry the same #include line twice at the same conditional nesting (informational)"""
    dup = []
    for f in sorted(os.listdir(outdir)):
        if classify(f) in ("c", "cxx", "header", "python", "lua"):
            seen, stack = {}, [0]
            n = 0
            for ln in open(os.path.join(outdir, f), errors="replace"):
                s = ln.strip()
                if re.match(r"#\s*if", s):
                    n += 1
                    stack.append(n)
                elif re.match(r"#\s*(else|elif)", s):
                    n += 1
                    if len(stack) > 1:
                        stack[-1] = n
                elif re.match(r"#\s*endif", s):
                    if len(stack) > 1:
                        stack.pop()
                m = re.match(r'#\s*include\s*([<"][^>"]+[>"])', s)
                if m:
                    key = (tuple(stack), m.group(1))
                    if key in seen:
                        dup.append("%s:%s" % (f, m.group(1)))
                    seen[key] = True
    return dup


def bracket_balance(outdir):
    """implementation-level statement of theorem 3 on the files actually written: #if/#endif balanced in every
    C/C++ file and `extern "C" {` closed (by `}` right after `#ifdef __cplusplus`, or by `}  // extern "C"`)"""
    bad = []
    for f in sorted(os.listdir(outdir)):
        if classify(f) in ("c", "cxx", "header", "python", "lua"):
            depth, ext, low = 0, 0, False
            prev = ""
            for ln in open(os.path.join(outdir, f), errors="replace"):
                s = ln.strip()
                if s == "":
                    continue
                if re.match(r"#\s*if", s):
                    depth += 1
                elif re.match(r"#\s*endif", s):
                    depth -= 1
                    if depth < 0:
                        low = True
                if re.match(r'extern\s+"C"\s*\{', s):
                    ext += 1
                elif s == "}" and prev == "#ifdef __cplusplus":
                    ext -= 1
                elif s.startswith('}  // extern "C"'):
                    ext -= 1
                prev = s
            if depth != 0 or low:
                bad.append("%s:#if-depth-%d" % (f, depth))
            if ext != 0:
                bad.append("%s:extern-depth-%d" % (f, ext))
    return bad


def link_step(outdir, incdirs, impl_files, workdir, impl_as_cxx=False):
    """Compile every generated C/C++/Fortran source (not the Python/Lua extension sources) and the library implementation to
    position independent objects and link them into one shared object with -Wl,--no-undefined: every object is linked whole, so
    an undefined or a doubly defined symbol anywhere is reported (stronger than a main program that calls each wrapper).
    Returns dict(status ok|fail|skip, why, messages)."""
    inc = ["-I", outdir]
    for d in incdirs:
        inc += ["-I", d]
    objdir = os.path.join(workdir, "obj")
    os.makedirs(objdir, exist_ok=True)
    files = sorted(os.listdir(outdir))
    gen_c = [f for f in files if classify(f) == "c"]
    gen_x = [f for f in files if classify(f) == "cxx"]
    gen_f = [f for f in files if classify(f) == "fortran"]
    if not (gen_c or gen_x or gen_f):
        return {"status": "skip", "why": "no C/Fortran wrapper written"}
    objs, n = [], 0

    def cc(cmd, src, cwd):
        nonlocal n
        n += 1
        o = os.path.join(objdir, "o%d.o" % n)
        rc, out = run_cmd(cmd + ["-c", "-fPIC", "-w", src, "-o", o], cwd)
        if rc == 0:
            objs.append(o)
        return rc, out
    for f in impl_files:
        if f.endswith(".c") and impl_as_cxx:
            cmd = ["g++", "-std=c++11", "-x", "c++"] + inc      # upstream builds <lib>.c with the C++ compiler for the -cxx configurations
        else:
            cmd = (["gcc", "-std=c99"] if f.endswith(".c") else ["g++", "-std=c++11"]) + inc
        rc, out = cc(cmd, f, outdir)
        if rc != 0:
            return {"status": "skip", "why": "library implementation %s does not compile here: %s" % (os.path.basename(f), norm_err(out, outdir))}
    for f in gen_c:
        rc, out = cc(["gcc", "-std=c99"] + inc, f, outdir)
        if rc != 0:
            return {"status": "skip", "why": "generated source does not compile (reported by the compile step): %s" % f}
    for f in gen_x:
        rc, out = cc(["g++", "-std=c++11"] + inc, f, outdir)
        if rc != 0:
            return {"status": "skip", "why": "generated source does not compile (reported by the compile step): %s" % f}
    for f in (fortran_order(outdir, gen_f) if gen_f else []):
        rc, out = cc(["gfortran", "-cpp", "-ffree-form", "-ffree-line-length-none", "-J", objdir] + inc, f, outdir)
        if rc != 0:
            return {"status": "skip", "why": "generated source does not compile (reported by the compile step): %s" % f}
    rc, out = run_cmd(["gfortran", "-shared", "-Wl,--no-undefined", "-o", os.path.join(objdir, "all.so")] + objs + ["-lstdc++"], outdir)
    if rc == 0:
        return {"status": "ok", "objects": len(objs)}
    msgs = []
    for ln in out.split("\n"):
        m = re.search(r"(undefined reference to|multiple definition of) [`‘']([^'’]+)['’]", ln)
        if m:
            msg = "%s '%s'" % (m.group(1), m.group(2))
            if msg not in msgs:
                msgs.append(msg)
    return {"status": "fail", "messages": msgs[:12] or [norm_err(out, outdir)], "log": out[-1500:]}


def job(spec):
    """spec: dict(tag, yaml (path) or yaml_text, options, language, incdirs, header=(name,text)|None, write_version)
    Runs in a worker process.  Returns dict(tag, exc, files:[...], results:[...])."""
    sys.path.insert(0, common.REPO)
    from tools import shroudrun
    d = common.scratch("c05-")
    try:
        outdir = os.path.join(d, "out")
        os.makedirs(outdir)
        incdirs = list(spec.get("incdirs", []))
        if spec.get("yaml_text") is not None:
            y = shroudrun.write_yaml(d, spec.get("yaml_name", "lib.yaml"), spec["yaml_text"])
        else:
            y = spec["yaml"]
        hdrs = list(spec.get("headers") or []) + ([spec["header"]] if spec.get("header") else [])
        if hdrs:
            hd = os.path.join(d, "inc")
            os.makedirs(hd)
            for hn, ht in hdrs:
                with open(os.path.join(hd, hn), "w") as f:
                    f.write(ht)
            incdirs.insert(0, hd)
        cfg, exc, out = shroudrun.run_inproc([y], outdir, options=spec.get("options", []), language=spec.get("language"),
                                             write_version=spec.get("write_version", False))
        r = {"tag": spec["tag"], "exc": None, "stdout": out[-800:], "results": [], "dups": [], "brackets": []}
        if exc is not None:
            r["exc"] = "%s: %s" % (type(exc).__name__, str(exc)[:300])
            return r
        r["files"] = sorted(os.listdir(outdir))
        stm = set()
        for f in r["files"]:
            if f.endswith(".json"):
                stm.update(re.findall(r'"stmt[0-9]*": "([^"]+)"', open(os.path.join(outdir, f), errors="replace").read()))
        r["stmts"] = sorted(stm)
        r["results"] = compile_dir(outdir, spec.get("language"), incdirs)
        if spec.get("defines"):
            r["results"] += compile_dir(outdir, spec.get("language"), incdirs, defines=spec["defines"])
        if spec.get("link"):
            impl = []
            for idir in spec.get("impl_dirs", []):
                for f in sorted(os.listdir(idir)):
                    if f.endswith((".c", ".cpp", ".cxx")):
                        txt = open(os.path.join(idir, f), errors="replace").read()
                        if not re.search(r"\bmain\s*\(", txt):
                            impl.append(os.path.join(idir, f))
            if spec.get("stub"):
                sp = os.path.join(d, "inc", spec["stub"][0])
                with open(sp, "w") as fh:
                    fh.write(spec["stub"][1])
                impl.append(sp)
            r["link"] = link_step(outdir, incdirs, impl, d)
            if r["link"]["status"] == "fail" and any(f.endswith(".c") for f in impl) and any(classify(f) == "cxx" for f in r["files"]):
                shutil.rmtree(os.path.join(d, "obj"), ignore_errors=True)
                again = link_step(outdir, incdirs, impl, d, impl_as_cxx=True)
                if again["status"] != "skip":
                    r["link"] = again
            r["link"]["library_text"] = ""
            if r["link"]["status"] == "fail":
                txt = []
                for idir in list(spec.get("impl_dirs", [])):
                    for f in os.listdir(idir):
                        if f.endswith((".c", ".cpp", ".h", ".hpp", ".cxx")):
                            txt.append(open(os.path.join(idir, f), errors="replace").read())
                r["link"]["library_text"] = "\n".join(txt)[:400000]
        r["dups"] = duplicate_includes(outdir)
        r["brackets"] = bracket_balance(outdir)
        return r
    finally:
        common.rmtree(d)
