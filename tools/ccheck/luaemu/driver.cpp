// Test driver for a Shroud-generated Lua binding running on the emulator (tools/props/c18.py).
// Compile with -DC18_HEADER="\"lib.hpp\"" -DC18_LUAOPEN=luaopen_lib.
// stdin:  open | call <name> <arg>* | callm <metatable> <name> <arg>*
//   arg:  i:<int> d:<double> b:<0|1> s:<hex> z (nil) t (table) f (userdata without metatable) o:<handle>
// stdout, one line per command:
//   opened | openfail ..
//   ok n=<returned count> pushed=<stack growth> res=<values,..|-> trace=<entries|..|->
//   err msg=<hex> trace=..        (luaL_error / luaL_checkudata)
//   exc what=<hex> trace=..       (C++ exception out of the binding)
//   nofunc
// The library under test appends one entry per call to c18_trace() (defined in its header).
#include C18_HEADER
#include <cstdio>
#include <cstdlib>
#include <exception>
#include <iostream>
#include <sstream>
#include <string>
#include <vector>
extern "C" {
#include "lua.h"
#include "lauxlib.h"
int C18_LUAOPEN(lua_State *L);
}

static std::string hex(const std::string &s) {
    static const char *d = "0123456789abcdef";
    std::string o;
    for (unsigned char c : s) { o += d[c >> 4]; o += d[c & 15]; }
    return o.empty() ? "-" : o;
}
static std::string unhex(const std::string &h) {
    std::string o;
    if (h == "-") return o;
    for (size_t i = 0; i + 1 < h.size(); i += 2) o += (char) strtol(h.substr(i, 2).c_str(), NULL, 16);
    return o;
}

static lua_CFunction g_target;
static std::string g_exc;
static int tramp(lua_State *L) {
    try {
        return g_target(L);
    } catch (std::exception &e) {
        g_exc = std::string("std::exception:") + e.what();
    } catch (...) {
        g_exc = "unknown";
    }
    return -99;
}

static std::string trace_text() {
    std::string o;
    for (size_t i = 0; i < c18_trace().size(); i++) { if (i) o += "|"; o += c18_trace()[i]; }
    return o.empty() ? "-" : o;
}

static std::string value_text(lua_State *L, int idx) {
    char buf[64];
    switch (lua_type(L, idx)) {
    case LUA_TNIL: return "z";
    case LUA_TBOOLEAN: return lua_toboolean(L, idx) ? "b:1" : "b:0";
    case LUA_TNUMBER:
        if (luaemu_isinteger(L, idx)) snprintf(buf, sizeof buf, "i:%lld", lua_tointeger(L, idx));
        else snprintf(buf, sizeof buf, "d:%.17g", lua_tonumber(L, idx));
        return buf;
    case LUA_TSTRING: return "s:" + hex(lua_tostring(L, idx));
    case LUA_TUSERDATA: snprintf(buf, sizeof buf, "u:%d", luaemu_keep(L, idx)); return buf;
    case LUA_TTABLE: return "t";
    default: return "?";
    }
}

int main() {
    lua_State *L = luaemu_new();
    int module = -1;
    std::string line;
    while (std::getline(std::cin, line)) {
        std::istringstream is(line);
        std::string cmd;
        is >> cmd;
        int nres = 0;
        lua_settop(L, 0);
        if (cmd == "open") {
            g_target = C18_LUAOPEN; g_exc.clear();
            int rc = luaemu_pcall(L, tramp, &nres);
            if (rc || !g_exc.empty() || lua_type(L, -1) != LUA_TTABLE)
                std::cout << "openfail " << hex(luaemu_errmsg(L)) << " " << hex(g_exc) << std::endl;
            else {
                module = luaemu_keep(L, -1);
                std::cout << "opened" << std::endl;
            }
            continue;
        }
        if (cmd != "call" && cmd != "callm") { std::cout << "badcmd" << std::endl; continue; }
        std::string tname, fname;
        if (cmd == "callm") is >> tname;
        is >> fname;
        lua_CFunction f = NULL;
        if (cmd == "call") {
            luaemu_pushkept(L, module);
            f = luaemu_field_function(L, -1, fname.c_str());
            lua_settop(L, 0);
        } else {
            f = luaemu_meta_function(L, tname.c_str(), fname.c_str());
        }
        if (!f) { std::cout << "nofunc" << std::endl; continue; }
        std::string a;
        int nargs = 0;
        while (is >> a) {
            nargs++;
            if (a == "z") lua_pushnil(L);
            else if (a == "t") lua_createtable(L, 0, 0);
            else if (a == "f") luaemu_push_foreign(L);
            else if (a[0] == 'i') lua_pushinteger(L, atoll(a.c_str() + 2));
            else if (a[0] == 'd') lua_pushnumber(L, atof(a.c_str() + 2));
            else if (a[0] == 'b') lua_pushboolean(L, atoi(a.c_str() + 2));
            else if (a[0] == 's') lua_pushstring(L, unhex(a.substr(2)).c_str());
            else if (a[0] == 'o') luaemu_pushkept(L, atoi(a.c_str() + 2));
            else lua_pushnil(L);
        }
        c18_trace().clear();
        g_target = f; g_exc.clear();
        int rc = luaemu_pcall(L, tramp, &nres);
        if (rc) {
            std::cout << "err msg=" << hex(luaemu_errmsg(L)) << " trace=" << trace_text() << std::endl;
        } else if (!g_exc.empty()) {
            std::cout << "exc what=" << hex(g_exc) << " trace=" << trace_text() << std::endl;
        } else {
            int top = lua_gettop(L);
            std::string res;
            // Lua takes the top `nres` values as the results
            for (int i = 0; i < nres; i++) {
                int idx = top - nres + 1 + i;
                if (i) res += ",";
                res += idx >= 1 ? value_text(L, idx) : std::string("none");
            }
            std::cout << "ok n=" << nres << " pushed=" << (top - nargs) << " res=" << (res.empty() ? "-" : res)
                      << " trace=" << trace_text() << std::endl;
        }
    }
    luaemu_free(L);
    return 0;
}
