/* Emulator of the subset of the Lua 5.3 C API that Shroud's generated Lua bindings use.
 * NOT Lua: a value stack with nil/boolean/number/string/userdata/table/function values,
 * metatables by registry name, errors through longjmp.  Used by tools/props/c18.py. */
#ifndef LUAEMU_LUA_H
#define LUAEMU_LUA_H
#include <stddef.h>
#ifdef __cplusplus
extern "C" {
#endif

#define LUA_VERSION_NUM 503

#define LUA_TNONE (-1)
#define LUA_TNIL 0
#define LUA_TBOOLEAN 1
#define LUA_TLIGHTUSERDATA 2
#define LUA_TNUMBER 3
#define LUA_TSTRING 4
#define LUA_TTABLE 5
#define LUA_TFUNCTION 6
#define LUA_TUSERDATA 7
#define LUA_TTHREAD 8

typedef struct lua_State lua_State;
typedef double lua_Number;
typedef long long lua_Integer;
typedef int (*lua_CFunction)(lua_State *L);

int lua_gettop(lua_State *L);
void lua_settop(lua_State *L, int idx);
#define lua_pop(L, n) lua_settop(L, -(n)-1)
int lua_type(lua_State *L, int idx);
const char *lua_typename(lua_State *L, int tp);

lua_Integer lua_tointegerx(lua_State *L, int idx, int *isnum);
lua_Number lua_tonumberx(lua_State *L, int idx, int *isnum);
int lua_toboolean(lua_State *L, int idx);
const char *lua_tolstring(lua_State *L, int idx, size_t *len);
void *lua_touserdata(lua_State *L, int idx);
#define lua_tointeger(L, i) lua_tointegerx(L, (i), NULL)
#define lua_tonumber(L, i) lua_tonumberx(L, (i), NULL)
#define lua_tostring(L, i) lua_tolstring(L, (i), NULL)

void lua_pushnil(lua_State *L);
void lua_pushinteger(lua_State *L, lua_Integer n);
void lua_pushnumber(lua_State *L, lua_Number n);
void lua_pushboolean(lua_State *L, int b);
const char *lua_pushstring(lua_State *L, const char *s);
void lua_pushvalue(lua_State *L, int idx);
void lua_pushcfunction(lua_State *L, lua_CFunction f);
void *lua_newuserdata(lua_State *L, size_t sz);
void lua_createtable(lua_State *L, int narr, int nrec);
#define lua_newtable(L) lua_createtable(L, 0, 0)
int lua_setmetatable(lua_State *L, int idx);
void lua_setfield(lua_State *L, int idx, const char *k);
int lua_getfield(lua_State *L, int idx, const char *k);

/* ---- emulator interface for the test driver (not part of Lua) ---- */
lua_State *luaemu_new(void);
void luaemu_free(lua_State *L);
/* call f on the current stack; 0: returned (count in *nres), 1: luaL_error / check failure */
int luaemu_pcall(lua_State *L, lua_CFunction f, int *nres);
const char *luaemu_errmsg(lua_State *L);
/* C function stored under `name` in the table at idx / in the metatable registered as tname */
lua_CFunction luaemu_field_function(lua_State *L, int idx, const char *name);
lua_CFunction luaemu_meta_function(lua_State *L, const char *tname, const char *name);
/* number pushed as integer subtype? */
int luaemu_isinteger(lua_State *L, int idx);
/* identity of the userdata at idx (serial number given by lua_newuserdata), 0 if none */
int luaemu_udserial(lua_State *L, int idx);
/* copy the value at idx into the emulator's keep list (survives lua_settop), answer its handle */
int luaemu_keep(lua_State *L, int idx);
void luaemu_pushkept(lua_State *L, int handle);
/* push a userdata without metatable */
void luaemu_push_foreign(lua_State *L);

#ifdef __cplusplus
}
#endif
#endif
