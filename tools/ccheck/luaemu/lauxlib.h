/* Emulator of the lauxlib subset used by Shroud's generated Lua bindings. */
#ifndef LUAEMU_LAUXLIB_H
#define LUAEMU_LAUXLIB_H
#include "lua.h"
#ifdef __cplusplus
extern "C" {
#endif

typedef struct luaL_Reg {
    const char *name;
    lua_CFunction func;
} luaL_Reg;

int luaL_error(lua_State *L, const char *fmt, ...);
int luaL_newmetatable(lua_State *L, const char *tname);
void luaL_setmetatable(lua_State *L, const char *tname);
int luaL_getmetatable(lua_State *L, const char *tname);
void *luaL_checkudata(lua_State *L, int idx, const char *tname);
void *luaL_testudata(lua_State *L, int idx, const char *tname);
void luaL_setfuncs(lua_State *L, const luaL_Reg *l, int nup);
void luaL_newlib_(lua_State *L, const luaL_Reg *l);
#define luaL_newlib(L, l) luaL_newlib_(L, l)
lua_Integer luaL_checkinteger(lua_State *L, int idx);
lua_Number luaL_checknumber(lua_State *L, int idx);
const char *luaL_checklstring(lua_State *L, int idx, size_t *len);
#define luaL_checkstring(L, i) luaL_checklstring(L, (i), NULL)

#ifdef __cplusplus
}
#endif
#endif
