/* Emulator of the Lua 5.3 C-API subset used by Shroud's generated Lua bindings.
 * See lua.h.  Semantics follow the Lua 5.3 reference manual for the functions provided:
 *  - an index above the top is "acceptable but not valid": lua_type answers LUA_TNONE,
 *    lua_to* answer 0/NULL, lua_toboolean answers 0;
 *  - lua_tointeger/lua_tonumber convert numeric strings; a float without an exact integer
 *    representation does not convert to an integer (answer 0);
 *  - lua_tolstring converts a number in place to a string;
 *  - luaL_checkudata raises unless the value is a full userdata whose metatable is the one
 *    registered under the name;
 *  - luaL_error does not return (longjmp to luaemu_pcall). */
#include "lua.h"
#include "lauxlib.h"
#include <setjmp.h>
#include <stdarg.h>
#include <stdio.h>
#include <stdlib.h>
#include <string.h>
#include <math.h>

typedef struct Table Table;

typedef struct Value {
    int type;
    int isint;
    double n;
    long long i;
    char *s;       /* string (owned by the state's arena) */
    void *ud;      /* userdata block */
    int serial;    /* userdata identity */
    Table *meta;   /* userdata metatable */
    Table *tbl;    /* table */
    lua_CFunction fn;
} Value;

typedef struct Field {
    char *key;
    Value v;
    struct Field *next;
} Field;

struct Table {
    Field *fields;
    Table *meta;
};

typedef struct Named {
    char *name;
    Table *t;
    struct Named *next;
} Named;

#define STACKMAX 256
struct lua_State {
    Value stack[STACKMAX];
    int top;
    Named *registry;
    jmp_buf *jb;
    char err[512];
    int nserial;
    void *arena[4096];
    int narena;
    Value kept[256];
    int nkept;
};

static void *emu_alloc(lua_State *L, size_t n) {
    void *p = calloc(1, n ? n : 1);
    if (!p || L->narena >= 4096) { fprintf(stderr, "luaemu: out of memory\n"); abort(); }
    L->arena[L->narena++] = p;
    return p;
}

static char *emu_strdup(lua_State *L, const char *s) {
    size_t n = strlen(s);
    char *p = (char *) emu_alloc(L, n + 1);
    memcpy(p, s, n + 1);
    return p;
}

static void emu_throw(lua_State *L) {
    if (!L->jb) { fprintf(stderr, "luaemu: error outside pcall: %s\n", L->err); abort(); }
    longjmp(*L->jb, 1);
}

lua_State *luaemu_new(void) {
    lua_State *L = (lua_State *) calloc(1, sizeof(lua_State));
    return L;
}

void luaemu_free(lua_State *L) {
    int i;
    for (i = 0; i < L->narena; i++) free(L->arena[i]);
    free(L);
}

/* pointer to the slot of an index, NULL when not valid */
static Value *slot(lua_State *L, int idx) {
    if (idx > 0) return idx <= L->top ? &L->stack[idx - 1] : NULL;
    if (idx < 0 && -idx <= L->top) return &L->stack[L->top + idx];
    return NULL;
}

static Value *push(lua_State *L) {
    Value *v;
    if (L->top >= STACKMAX) { snprintf(L->err, sizeof L->err, "stack overflow"); emu_throw(L); }
    v = &L->stack[L->top++];
    memset(v, 0, sizeof *v);
    return v;
}

int lua_gettop(lua_State *L) { return L->top; }

void lua_settop(lua_State *L, int idx) {
    int nt = idx >= 0 ? idx : L->top + idx + 1;
    if (nt < 0) nt = 0;
    while (L->top < nt) { Value *v = push(L); v->type = LUA_TNIL; }
    L->top = nt;
}

int lua_type(lua_State *L, int idx) {
    Value *v = slot(L, idx);
    return v ? v->type : LUA_TNONE;
}

const char *lua_typename(lua_State *L, int tp) {
    static const char *names[] = {"no value", "nil", "boolean", "userdata", "number", "string",
                                  "table", "function", "userdata", "thread"};
    (void) L;
    return (tp >= -1 && tp <= 8) ? names[tp + 1] : "?";
}

static int str2num(const char *s, double *d, long long *i, int *isint) {
    char *end;
    while (*s == ' ' || *s == '\t' || *s == '\n') s++;
    if (!*s) return 0;
    *i = strtoll(s, &end, 10);
    {
        const char *e = end;
        while (*e == ' ' || *e == '\t' || *e == '\n') e++;
        if (end != s && !*e) { *isint = 1; *d = (double) *i; return 1; }
    }
    *d = strtod(s, &end);
    if (end == s) return 0;
    while (*end == ' ' || *end == '\t' || *end == '\n') end++;
    if (*end) return 0;
    *isint = 0;
    return 1;
}

lua_Number lua_tonumberx(lua_State *L, int idx, int *isnum) {
    Value *v = slot(L, idx);
    if (isnum) *isnum = 0;
    if (!v) return 0;
    if (v->type == LUA_TNUMBER) {
        if (isnum) *isnum = 1;
        return v->isint ? (double) v->i : v->n;
    }
    if (v->type == LUA_TSTRING) {
        double d; long long i; int isint;
        if (str2num(v->s, &d, &i, &isint)) { if (isnum) *isnum = 1; return d; }
    }
    return 0;
}

lua_Integer lua_tointegerx(lua_State *L, int idx, int *isnum) {
    Value *v = slot(L, idx);
    double d = 0; long long i = 0; int isint = 0, ok = 0;
    if (isnum) *isnum = 0;
    if (!v) return 0;
    if (v->type == LUA_TNUMBER) { ok = 1; isint = v->isint; i = v->i; d = v->n; }
    else if (v->type == LUA_TSTRING) ok = str2num(v->s, &d, &i, &isint);
    if (!ok) return 0;
    if (!isint) {
        if (floor(d) != d || d < -9.2e18 || d > 9.2e18) return 0;
        i = (long long) d;
    }
    if (isnum) *isnum = 1;
    return i;
}

int lua_toboolean(lua_State *L, int idx) {
    Value *v = slot(L, idx);
    if (!v || v->type == LUA_TNIL) return 0;
    if (v->type == LUA_TBOOLEAN) return v->i != 0;
    return 1;
}

const char *lua_tolstring(lua_State *L, int idx, size_t *len) {
    Value *v = slot(L, idx);
    if (!v) { if (len) *len = 0; return NULL; }
    if (v->type == LUA_TNUMBER) {
        char buf[64];
        if (v->isint) snprintf(buf, sizeof buf, "%lld", v->i);
        else {
            snprintf(buf, sizeof buf, "%.14g", v->n);
            if (!strpbrk(buf, ".eEni")) strcat(buf, ".0");
        }
        v->s = emu_strdup(L, buf);
        v->type = LUA_TSTRING;
    }
    if (v->type != LUA_TSTRING) { if (len) *len = 0; return NULL; }
    if (len) *len = strlen(v->s);
    return v->s;
}

void *lua_touserdata(lua_State *L, int idx) {
    Value *v = slot(L, idx);
    if (!v || (v->type != LUA_TUSERDATA && v->type != LUA_TLIGHTUSERDATA)) return NULL;
    return v->ud;
}

void lua_pushnil(lua_State *L) { Value *v = push(L); v->type = LUA_TNIL; }

void lua_pushinteger(lua_State *L, lua_Integer n) {
    Value *v = push(L); v->type = LUA_TNUMBER; v->isint = 1; v->i = n; v->n = (double) n;
}

void lua_pushnumber(lua_State *L, lua_Number n) {
    Value *v = push(L); v->type = LUA_TNUMBER; v->isint = 0; v->n = n;
}

void lua_pushboolean(lua_State *L, int b) { Value *v = push(L); v->type = LUA_TBOOLEAN; v->i = b != 0; }

const char *lua_pushstring(lua_State *L, const char *s) {
    Value *v = push(L);
    if (!s) { v->type = LUA_TNIL; return NULL; }
    v->type = LUA_TSTRING;
    v->s = emu_strdup(L, s);
    return v->s;
}

void lua_pushvalue(lua_State *L, int idx) {
    Value *src = slot(L, idx);
    Value copy;
    if (src) copy = *src; else { memset(&copy, 0, sizeof copy); copy.type = LUA_TNIL; }
    *push(L) = copy;
}

void lua_pushcfunction(lua_State *L, lua_CFunction f) { Value *v = push(L); v->type = LUA_TFUNCTION; v->fn = f; }

void *lua_newuserdata(lua_State *L, size_t sz) {
    void *p = emu_alloc(L, sz);
    Value *v = push(L);
    v->type = LUA_TUSERDATA; v->ud = p; v->serial = ++L->nserial;
    return p;
}

void luaemu_push_foreign(lua_State *L) { (void) lua_newuserdata(L, 64); }

static Table *newtable(lua_State *L) { return (Table *) emu_alloc(L, sizeof(Table)); }

void lua_createtable(lua_State *L, int narr, int nrec) {
    Value *v;
    (void) narr; (void) nrec;
    v = push(L); v->type = LUA_TTABLE; v->tbl = newtable(L);
}

static void table_set(lua_State *L, Table *t, const char *k, const Value *val) {
    Field *f;
    for (f = t->fields; f; f = f->next)
        if (strcmp(f->key, k) == 0) { f->v = *val; return; }
    f = (Field *) emu_alloc(L, sizeof(Field));
    f->key = emu_strdup(L, k); f->v = *val; f->next = t->fields; t->fields = f;
}

static Value *table_get(Table *t, const char *k) {
    Field *f;
    for (f = t->fields; f; f = f->next)
        if (strcmp(f->key, k) == 0) return &f->v;
    return NULL;
}

/* pops a table (or nil) and sets it as the metatable of the value at idx */
int lua_setmetatable(lua_State *L, int idx) {
    Value *obj = slot(L, idx);
    Value *mt = slot(L, -1);
    Table *t = (mt && mt->type == LUA_TTABLE) ? mt->tbl : NULL;
    if (obj) {
        if (obj->type == LUA_TUSERDATA) obj->meta = t;
        else if (obj->type == LUA_TTABLE) obj->tbl->meta = t;
    }
    if (L->top > 0) L->top--;
    return 1;
}

/* t[k] = v where t is at idx and v on top; pops v */
void lua_setfield(lua_State *L, int idx, const char *k) {
    Value *t = slot(L, idx);
    Value *v = slot(L, -1);
    if (!t || t->type != LUA_TTABLE || !v) { snprintf(L->err, sizeof L->err, "lua_setfield: not a table"); emu_throw(L); }
    table_set(L, t->tbl, k, v);
    L->top--;
}

int lua_getfield(lua_State *L, int idx, const char *k) {
    Value *t = slot(L, idx);
    Value *f, copy;
    if (!t || t->type != LUA_TTABLE) { snprintf(L->err, sizeof L->err, "lua_getfield: not a table"); emu_throw(L); }
    f = table_get(t->tbl, k);
    if (f) copy = *f; else { memset(&copy, 0, sizeof copy); copy.type = LUA_TNIL; }
    *push(L) = copy;
    return copy.type;
}

/* ------------------------------------------------------------------ lauxlib */
int luaL_error(lua_State *L, const char *fmt, ...) {
    va_list ap;
    va_start(ap, fmt);
    vsnprintf(L->err, sizeof L->err, fmt, ap);
    va_end(ap);
    emu_throw(L);
    return 0;
}

static Table *registry_get(lua_State *L, const char *name) {
    Named *n;
    for (n = L->registry; n; n = n->next)
        if (strcmp(n->name, name) == 0) return n->t;
    return NULL;
}

int luaL_newmetatable(lua_State *L, const char *tname) {
    Table *t = registry_get(L, tname);
    Value *v;
    int created = 0;
    if (!t) {
        Named *n = (Named *) emu_alloc(L, sizeof(Named));
        Value name;
        t = newtable(L);
        n->name = emu_strdup(L, tname); n->t = t; n->next = L->registry; L->registry = n;
        memset(&name, 0, sizeof name); name.type = LUA_TSTRING; name.s = n->name;
        table_set(L, t, "__name", &name);
        created = 1;
    }
    v = push(L); v->type = LUA_TTABLE; v->tbl = t;
    return created;
}

int luaL_getmetatable(lua_State *L, const char *tname) {
    Table *t = registry_get(L, tname);
    Value *v = push(L);
    if (t) { v->type = LUA_TTABLE; v->tbl = t; return LUA_TTABLE; }
    v->type = LUA_TNIL;
    return LUA_TNIL;
}

void luaL_setmetatable(lua_State *L, const char *tname) {
    luaL_getmetatable(L, tname);
    lua_setmetatable(L, -2);
}

void *luaL_testudata(lua_State *L, int idx, const char *tname) {
    Value *v = slot(L, idx);
    Table *t = registry_get(L, tname);
    if (!v || v->type != LUA_TUSERDATA || !t || v->meta != t) return NULL;
    return v->ud;
}

void *luaL_checkudata(lua_State *L, int idx, const char *tname) {
    void *p = luaL_testudata(L, idx, tname);
    if (!p) {
        snprintf(L->err, sizeof L->err, "bad argument #%d (%s expected, got %s)", idx, tname,
                 lua_typename(L, lua_type(L, idx)));
        emu_throw(L);
    }
    return p;
}

void luaL_setfuncs(lua_State *L, const luaL_Reg *l, int nup) {
    Value *t = slot(L, -1);
    (void) nup;
    if (!t || t->type != LUA_TTABLE) { snprintf(L->err, sizeof L->err, "luaL_setfuncs: not a table"); emu_throw(L); }
    for (; l->name; l++) {
        Value f;
        memset(&f, 0, sizeof f);
        f.type = LUA_TFUNCTION; f.fn = l->func;
        table_set(L, t->tbl, l->name, &f);
    }
}

void luaL_newlib_(lua_State *L, const luaL_Reg *l) {
    lua_createtable(L, 0, 0);
    luaL_setfuncs(L, l, 0);
}

lua_Integer luaL_checkinteger(lua_State *L, int idx) {
    int ok;
    lua_Integer i = lua_tointegerx(L, idx, &ok);
    if (!ok) { snprintf(L->err, sizeof L->err, "bad argument #%d (number expected)", idx); emu_throw(L); }
    return i;
}

lua_Number luaL_checknumber(lua_State *L, int idx) {
    int ok;
    lua_Number d = lua_tonumberx(L, idx, &ok);
    if (!ok) { snprintf(L->err, sizeof L->err, "bad argument #%d (number expected)", idx); emu_throw(L); }
    return d;
}

const char *luaL_checklstring(lua_State *L, int idx, size_t *len) {
    const char *s = lua_tolstring(L, idx, len);
    if (!s) { snprintf(L->err, sizeof L->err, "bad argument #%d (string expected)", idx); emu_throw(L); }
    return s;
}

/* ------------------------------------------------------------------ driver interface */
int luaemu_pcall(lua_State *L, lua_CFunction f, int *nres) {
    jmp_buf jb;
    jmp_buf *saved = L->jb;
    volatile int rc = 0;
    L->jb = &jb;
    L->err[0] = 0;
    if (setjmp(jb) == 0) {
        int n = f(L);
        if (nres) *nres = n;
    } else {
        rc = 1;
    }
    L->jb = saved;
    return rc;
}

const char *luaemu_errmsg(lua_State *L) { return L->err; }

lua_CFunction luaemu_field_function(lua_State *L, int idx, const char *name) {
    Value *t = slot(L, idx);
    Value *f;
    if (!t || t->type != LUA_TTABLE) return NULL;
    f = table_get(t->tbl, name);
    return (f && f->type == LUA_TFUNCTION) ? f->fn : NULL;
}

lua_CFunction luaemu_meta_function(lua_State *L, const char *tname, const char *name) {
    Table *t = registry_get(L, tname);
    Value *f;
    if (!t) return NULL;
    if (strncmp(name, "__", 2) == 0) {
        /* metamethods (__gc) are taken from the metatable itself */
        f = table_get(t, name);
    } else {
        /* obj:name -- a userdata has no fields: the name is looked up through __index */
        Value *ix = table_get(t, "__index");
        f = (ix && ix->type == LUA_TTABLE) ? table_get(ix->tbl, name) : NULL;
    }
    return (f && f->type == LUA_TFUNCTION) ? f->fn : NULL;
}

int luaemu_isinteger(lua_State *L, int idx) {
    Value *v = slot(L, idx);
    return v && v->type == LUA_TNUMBER && v->isint;
}

int luaemu_udserial(lua_State *L, int idx) {
    Value *v = slot(L, idx);
    return (v && v->type == LUA_TUSERDATA) ? v->serial : 0;
}

int luaemu_keep(lua_State *L, int idx) {
    Value *v = slot(L, idx);
    if (!v || L->nkept >= 256) return -1;
    L->kept[L->nkept] = *v;
    return L->nkept++;
}

void luaemu_pushkept(lua_State *L, int handle) {
    Value *v = push(L);
    if (handle >= 0 && handle < L->nkept) *v = L->kept[handle]; else v->type = LUA_TNIL;
}
