/* Emulator: nothing of lualib is used by the generated bindings. */
#ifndef LUAEMU_LUALIB_H
#define LUAEMU_LUALIB_H
#include "lua.h"
#endif
