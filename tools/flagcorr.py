"""Flag correspondence for C15: real ast.WrapFlags / ast.promote_wrap / GenFunctions.has_default_args
and the emitter sequence of main_with_args versus the Lean model (drv_flags)."""
import io
import contextlib
import itertools
import os

from tools import common, shroudrun
from tools.gen import libgen


class _Opt:
    def __init__(self, f, c, l, p):
        self.wrap_fortran, self.wrap_c, self.wrap_lua, self.wrap_python = f, c, l, p


def bits(w):
    return "".join("1" if bool(x) else "0" for x in (w.fortran, w.c_f, w.c, w.lua, w.python))


def tree_tokens(node):
    """Encode the node tree the way PromoteWrap visits it (children in visit order)."""
    kind = type(node).__name__
    toks = []
    if kind in ("LibraryNode", "NamespaceNode", "ClassNode"):
        toks.append("(" + bits(node.wrap))
        for cls in node.classes:
            toks += tree_tokens(cls)
        for en in node.enums:
            toks.append("L" + bits(en.wrap))
        for fcn in node.functions:
            toks.append("L" + bits(fcn.wrap))
        if kind != "ClassNode":
            for ns in node.namespaces:
                toks += tree_tokens(ns)
        for typ in node.typedefs:
            toks.append("L" + bits(typ.wrap))
        for var in node.variables:
            toks.append("L" + bits(var.wrap))
        toks.append(")")
    else:
        toks.append("L" + bits(node.wrap))
    return toks


def tree_flags_pre(node):
    kind = type(node).__name__
    out = [bits(node.wrap)]
    if kind in ("LibraryNode", "NamespaceNode", "ClassNode"):
        for cls in node.classes:
            out += tree_flags_pre(cls)
        out += [bits(e.wrap) for e in node.enums]
        out += [bits(f.wrap) for f in node.functions]
        if kind != "ClassNode":
            for ns in node.namespaces:
                out += tree_flags_pre(ns)
        out += [bits(t.wrap) for t in node.typedefs]
        out += [bits(v.wrap) for v in node.variables]
    return out


def run(ctx, r, ok, thorough):
    from shroud import ast as sast
    from shroud import generate, typemap, main as smain, wrapc, wrapf, wrapp, wrapl
    reqs, impl = [], []

    # ---- (1) WrapFlags operation sequences
    nseq = 3000 if thorough else 600
    for _ in range(nseq):
        init = [r.random() < 0.5 for _ in range(4)]
        w = sast.WrapFlags(_Opt(*init))
        ops = []
        for _ in range(r.randrange(0, 6)):
            k = r.choice(["clear", "assign", "acc"])
            if k == "clear":
                w.clear()
                ops.append("clear")
            elif k == "assign":
                v = [r.random() < 0.5 for _ in range(5)]
                # exercise keyword defaults too
                kw = {n: b for n, b in zip(("fortran", "c_f", "c", "lua", "python"), v) if r.random() < 0.8}
                w.assign(**kw)
                ops.append("assign:" + "".join("1" if kw.get(n, False) else "0" for n in ("fortran", "c_f", "c", "lua", "python")))
            else:
                o = sast.WrapFlags(_Opt(*[r.random() < 0.5 for _ in range(4)]))
                o.c_f = r.random() < 0.5
                w.accumulate(o)
                ops.append("acc:" + bits(o))
        reqs.append("wf %s %s" % ("".join("1" if b else "0" for b in init), " ".join(ops)))
        impl.append(bits(w))

    # ---- (2) promote_wrap on real trees + (3) default clones + (4) emitter sequence
    captured = {}
    orig_promote = sast.promote_wrap

    def all_functions(node):
        kind = type(node).__name__
        out = []
        if kind in ("LibraryNode", "NamespaceNode", "ClassNode"):
            out += list(node.functions)
            for cls in node.classes:
                out += all_functions(cls)
            if kind != "ClassNode":
                for ns in node.namespaces:
                    out += all_functions(ns)
        return out

    def spy(node):
        # implementation-only invariant (no model): after the generate phase no function node - original or
        # generated clone - is wrapped for a language that its own options switch off
        try:
            for fn in all_functions(node):
                for lang, opt in (("c", "wrap_c"), ("fortran", "wrap_fortran"), ("python", "wrap_python"), ("lua", "wrap_lua")):
                    if getattr(fn.wrap, lang) and not getattr(fn.options, opt):
                        captured.setdefault("flag_escapes", []).append(
                            "%s (%s) has wrap.%s on although its option %s is false" % (fn.ast.name, getattr(fn, "_generated", None), lang, opt))
        except Exception as e:  # noqa: keep the harness alive
            captured.setdefault("flag_escapes_error", repr(e))
        captured["before"] = tree_tokens(node)
        res = orig_promote(node)
        captured["after"] = tree_flags_pre(node)
        return res

    nlib = 60 if thorough else 16
    work = common.scratch()
    calls = []
    patched = {}

    def make_spy(cls, name):
        orig = cls.wrap_library

        def f(self, *a, **k):
            calls.append(name)
            return orig(self, *a, **k)
        patched[cls] = orig
        cls.wrap_library = f

    orig_util = wrapc.Wrapc.write_impl_utility

    def util_spy(self, *a, **k):
        calls.append("util")
        return orig_util(self, *a, **k)

    try:
        sast.promote_wrap = spy
        make_spy(wrapc.Wrapc, "wrapc")
        make_spy(wrapf.Wrapf, "wrapf")
        make_spy(wrapp.Wrapp, "wrapp")
        make_spy(wrapl.Wrapl, "wrapl")
        wrapc.Wrapc.write_impl_utility = util_spy
        for i in range(nlib):
            flags = [r.random() < 0.6 for _ in range(4)]
            if flags[0] and not flags[1]:
                flags[1] = True
            lib = libgen.gen_lib(r, name="fl%d" % i, options=dict(wrap_fortran=flags[0], wrap_c=flags[1], wrap_lua=flags[2], wrap_python=flags[3]))
            # sprinkle per-declaration overrides at every depth
            def sprinkle(decls, depth):
                for d in decls:
                    if r.random() < (0.3 if depth == 0 else 0.35):
                        d.setdefault("options", {})[r.choice(["wrap_c", "wrap_fortran", "wrap_python", "wrap_lua"])] = r.random() < 0.6
                        if d["options"].get("wrap_fortran") and not d["options"].get("wrap_c", lib.options.get("wrap_c")):
                            d["options"]["wrap_c"] = True
                    if "declarations" in d:
                        sprinkle(d["declarations"], depth + 1)
            sprinkle(lib.decls, 0)
            d = os.path.join(work, "fl%d" % i)
            os.makedirs(d)
            y = shroudrun.write_yaml(d, "fl%d.yaml" % i, lib.yaml())
            captured.clear()
            del calls[:]
            cfg, exc, out = shroudrun.run_inproc([y], d)
            if exc is not None or "before" not in captured:
                continue
            for esc in captured.get("flag_escapes", [])[:3]:
                ctx.fail("c15:clone-wrapped-against-options:" + esc.split(" ")[0], esc, {"yaml": lib.yaml()})
            reqs.append("promote " + " ".join(captured["before"]))
            impl.append(" ".join(captured["after"]))
            libflags = captured["after"][0]
            reqs.append("run " + libflags)
            impl.append(" ".join(calls))
            ctx.nontrivial(("promote", lib.yaml()))
            common.rmtree(d)
        # fixed deep trees: only one function, three namespaces deep, switches a language on
        for lang_opt in ("wrap_python", "wrap_lua", "wrap_c"):
            txt = ("library: deep\ncxx_header: deep.hpp\noptions:\n  wrap_fortran: false\n  wrap_c: false\n  wrap_python: false\n  wrap_lua: false\n"
                   "declarations:\n- decl: namespace outer\n  declarations:\n  - decl: int ofun(int a)\n  - decl: namespace middle\n    declarations:\n"
                   "    - decl: namespace inner\n      declarations:\n      - decl: int ifun(int a)\n        options:\n          %s: true\n" % lang_opt)
            d = os.path.join(work, "deep-" + lang_opt)
            os.makedirs(d)
            y = shroudrun.write_yaml(d, "deep.yaml", txt)
            captured.clear()
            del calls[:]
            cfg, exc, out = shroudrun.run_inproc([y], d)
            if exc is None and "before" in captured:
                reqs.append("promote " + " ".join(captured["before"]))
                impl.append(" ".join(captured["after"]))
                reqs.append("run " + captured["after"][0])
                impl.append(" ".join(calls))
                ctx.nontrivial(("deep", lang_opt))
        # default clones: real has_default_args through generate on a tiny library
        for f, c in itertools.product((False, True), repeat=2):
            for nd in (1, 2, 3):
                args = ", ".join("int d%d = %d" % (k, k) for k in range(nd))
                txt = ("library: dc\ncxx_header: dc.hpp\noptions:\n  wrap_fortran: %s\n  wrap_c: %s\n  wrap_python: true\n  wrap_lua: true\n"
                       "declarations:\n- decl: void dfun(int a, %s)\n" % (str(f).lower(), str(c).lower(), args))
                d = os.path.join(work, "dc%d%d%d" % (f, c, nd))
                os.makedirs(d)
                y = shroudrun.write_yaml(d, "dc.yaml", txt)
                seen = {}
                orig_gen = generate.GenFunctions.has_default_args

                def hd_spy(self, node, ordered, _orig=orig_gen, _seen=seen):
                    before = bits(node.wrap)
                    n0 = len(ordered)
                    res = _orig(self, node, ordered)
                    _seen["node"] = before
                    _seen["clones"] = [bits(x.wrap) for x in ordered[n0:]]
                    return res
                generate.GenFunctions.has_default_args = hd_spy
                try:
                    shroudrun.run_inproc([y], d)
                finally:
                    generate.GenFunctions.has_default_args = orig_gen
                if "node" in seen:
                    reqs.append("dclone %s %d" % (seen["node"], len(seen["clones"])))
                    impl.append(" ".join(seen["clones"]))
                    ctx.nontrivial(("dclone", f, c, nd))
    finally:
        sast.promote_wrap = orig_promote
        for cls, orig in patched.items():
            cls.wrap_library = orig
        wrapc.Wrapc.write_impl_utility = orig_util
        common.rmtree(work)

    ctx.count(len(reqs))
    ctx.note("flag_requests", len(reqs))
    drv = common.Driver("drv_flags")
    if ok and drv.available():
        model = drv.run(reqs)
        bad = [{"request": q, "impl": a, "model": b} for q, a, b in zip(reqs, impl, model) if a != b]
        if bad:
            ctx.tie_broken("flags-correspondence", bad[:5])
        ctx.note("flag_disagreements", len(bad))
    else:
        ctx.tie_broken("flags-correspondence", "driver not built")
    for q, a in list(zip(reqs, impl))[-3:]:
        ctx.sample({"request": q[:300], "impl": a[:300]})
