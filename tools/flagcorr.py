"""Flag correspondence for C15: real ast.WrapFlags / ast.promote_wrap / GenFunctions.has_default_args
and the emitter sequence of main_with_args versus the Lean model (drv_flags)."""
import io
import contextlib
import itertools
import os
import re

from tools import common, shroudrun
from tools.gen import libgen


class _Opt:
    def __init__(self, f, c, l, p):
        self.wrap_fortran, self.wrap_c, self.wrap_lua, self.wrap_python = f, c, l, p


def bits(w):
    return "".join("1" if bool(x) else "0" for x in (w.fortran, w.c_f, w.c, w.lua, w.python))


def tree_tokens(node):
    """Encode the node tree the way PromoteWrap visits it (children in visit order)."""
    kind = type(node).__name__
    toks = []
    if kind in ("LibraryNode", "NamespaceNode", "ClassNode"):
        toks.append("(" + bits(node.wrap))
        for cls in node.classes:
            toks += tree_tokens(cls)
        for en in node.enums:
            toks.append("L" + bits(en.wrap))
        for fcn in node.functions:
            toks.append("L" + bits(fcn.wrap))
        if kind != "ClassNode":
            for ns in node.namespaces:
                toks += tree_tokens(ns)
        for typ in node.typedefs:
            toks.append("L" + bits(typ.wrap))
        for var in node.variables:
            toks.append("L" + bits(var.wrap))
        toks.append(")")
    else:
        toks.append("L" + bits(node.wrap))
    return toks


def tree_flags_pre(node):
    kind = type(node).__name__
    out = [bits(node.wrap)]
    if kind in ("LibraryNode", "NamespaceNode", "ClassNode"):
        for cls in node.classes:
            out += tree_flags_pre(cls)
        out += [bits(e.wrap) for e in node.enums]
        out += [bits(f.wrap) for f in node.functions]
        if kind != "ClassNode":
            for ns in node.namespaces:
                out += tree_flags_pre(ns)
        out += [bits(t.wrap) for t in node.typedefs]
        out += [bits(v.wrap) for v in node.variables]
    return out


def run(ctx, r, ok, thorough):
    from shroud import ast as sast
    from shroud import generate, typemap, main as smain, wrapc, wrapf, wrapp, wrapl
    reqs, impl = [], []

    # ---- (1) WrapFlags operation sequences
    nseq = 3000 if thorough else 600
    for _ in range(nseq):
        init = [r.random() < 0.5 for _ in range(4)]
        w = sast.WrapFlags(_Opt(*init))
        ops = []
        for _ in range(r.randrange(0, 6)):
            k = r.choice(["clear", "assign", "acc"])
            if k == "clear":
                w.clear()
                ops.append("clear")
            elif k == "assign":
                v = [r.random() < 0.5 for _ in range(5)]
                # exercise keyword defaults too
                kw = {n: b for n, b in zip(("fortran", "c_f", "c", "lua", "python"), v) if r.random() < 0.8}
                w.assign(**kw)
                ops.append("assign:" + "".join("1" if kw.get(n, False) else "0" for n in ("fortran", "c_f", "c", "lua", "python")))
            else:
                o = sast.WrapFlags(_Opt(*[r.random() < 0.5 for _ in range(4)]))
                o.c_f = r.random() < 0.5
                w.accumulate(o)
                ops.append("acc:" + bits(o))
        reqs.append("wf %s %s" % ("".join("1" if b else "0" for b in init), " ".join(ops)))
        impl.append(bits(w))

    # ---- (2) promote_wrap on real trees + (3) default clones + (4) emitter sequence
    captured = {}
    orig_promote = sast.promote_wrap

    def all_functions(node):
        kind = type(node).__name__
        out = []
        if kind in ("LibraryNode", "NamespaceNode", "ClassNode"):
            out += list(node.functions)
            for cls in node.classes:
                out += all_functions(cls)
            if kind != "ClassNode":
                for ns in node.namespaces:
                    out += all_functions(ns)
        return out

    current = {}

    def effective(dd):
        """name -> effective wrap_* options of the declaration(s) with that name, from the YAML alone
        (functions, classes and namespaces; `block:` groups only contribute their options)"""
        eff = {}
        keys = ("wrap_c", "wrap_fortran", "wrap_python", "wrap_lua")

        def note(name, o):
            e = eff.setdefault(name, dict.fromkeys(keys, False))
            for k in keys:
                e[k] = e[k] or o[k]

        def walk(decls, inh):
            for d in decls:
                o = dict(inh)
                o.update({k: bool(v) for k, v in (d.get("options") or {}).items() if k in keys})
                if "decl" not in d:
                    if "declarations" in d:        # block: true
                        walk(d["declarations"], o)
                    continue
                head = d["decl"].split()[0]
                if "declarations" in d:
                    if head in ("class", "namespace"):
                        note("%s %s" % (head, d["decl"].split()[1]), o)
                    walk(d["declarations"], o)
                    continue
                if head in ("enum", "typedef", "struct", "class", "namespace"):
                    continue
                m = re.search(r"(~?\w+)\s*\(", d["decl"])
                if m:
                    note(m.group(1), o)
        top = {k: bool((dd.get("options") or {}).get(k, k in ("wrap_c", "wrap_fortran"))) for k in keys}
        walk(dd["declarations"], top)
        return eff

    def spy(node):
        # implementation-only invariant (no model): after the generate phase no function node - original or
        # generated clone - is wrapped for a language that the description switches off for that declaration
        # (effective wrap_* options as stated in the YAML, inherited downwards; NOT node.options, which
        # arg_to_CFI mutates on purpose)
        try:
            eff = current.get("eff") or {}
            for fn in all_functions(node):
                want = eff.get(fn.ast.name)
                if want is None:
                    continue
                for lang, opt in (("c", "wrap_c"), ("fortran", "wrap_fortran"), ("python", "wrap_python"), ("lua", "wrap_lua")):
                    if getattr(fn.wrap, lang) and not want[opt]:
                        captured.setdefault("flag_escapes", []).append(
                            "%s (%s) has wrap.%s on although %s is false for that declaration" % (fn.ast.name, getattr(fn, "_generated", None), lang, opt))
        except Exception as e:  # noqa: keep the harness alive
            captured.setdefault("flag_escapes_error", repr(e))
        captured["before"] = tree_tokens(node)
        res = orig_promote(node)
        captured["after"] = tree_flags_pre(node)
        return res

    def clone_shapes(lib):
        """Declarations whose processing in generate.py creates clones (fortran_generic, function templates,
        assumed rank, return_this, bufferify/CFI): the clone kinds that assign wrap flags on their own."""
        cxx = lib.language != "c"
        ex = [{"decl": "void xgen(double arg)", "fortran_generic": [
                   {"decl": "(float arg)", "function_suffix": "_float"}, {"decl": "(double arg)", "function_suffix": "_double"}]},
              {"decl": "int xrank(const int *values +dimension(..), int nvalues)"},
              {"decl": "void xgen2(double *a +rank(1), int n)", "fortran_generic": [
                   {"decl": "(float *a +rank(1), int n)", "function_suffix": "_f"}, {"decl": "(double *a +rank(1), int n)", "function_suffix": "_d"}]}]
        if cxx:
            ex.append({"decl": "template<typename T> void xtmpl(T arg)", "cxx_template": [{"instantiation": "<int>"}, {"instantiation": "<double>"}]})
            ex.append({"decl": "const std::string xstr(const std::string & s, int d = 2)"})
            ex.append({"decl": "class Xchain", "declarations": [
                {"decl": "Xchain()"}, {"decl": "Xchain * xlink(int a)", "return_this": True}, {"decl": "int xval(int a = 1, int b = 2)"}]})
        else:
            ex.append({"decl": "void xcstr(const char *s, char *o +intent(out)+charlen(12))"})
        if cxx:
            # a `block:` group that only carries options, holding a class and a function
            ex.append({"block": True, "options": {r.choice(["wrap_python", "wrap_lua", "wrap_fortran"]): r.random() < 0.4},
                       "declarations": [{"decl": "class Xblk", "declarations": [{"decl": "Xblk()"}, {"decl": "int xbmeth(int a)"}]},
                                        {"decl": "int xbfun(int a)"}]})
        r.shuffle(ex)
        return ex[:r.randrange(2, len(ex) + 1)]

    nlib = 60 if thorough else 16
    skipped = {}
    work = common.scratch()
    calls = []
    patched = {}

    def make_spy(cls, name):
        orig = cls.wrap_library

        def f(self, *a, **k):
            calls.append(name)
            return orig(self, *a, **k)
        patched[cls] = orig
        cls.wrap_library = f

    orig_util = wrapc.Wrapc.write_impl_utility

    def util_spy(self, *a, **k):
        calls.append("util")
        return orig_util(self, *a, **k)

    # ---- clone-making steps of GenFunctions and node construction, observed on the real code
    steps_seen = []       # (request, implementation answer)
    kinds_seen = {}
    LANGOPT = ("wrap_fortran", "wrap_c", "wrap_lua", "wrap_python")

    def result_by_value(node):
        a = node.ast
        tm = a.typemap
        return bool(tm and tm.base in ("string", "vector") and tm.name != "char" and not a.is_indirect())

    def vector_arg(node):
        return any(getattr(arg.typemap, "base", None) == "vector" for arg in node.ast.params)

    def make_step_spy(name, kind):
        orig = getattr(generate.GenFunctions, name)

        def f(self, node, ordered, *a, **k):
            try:
                before = bits(node.wrap)
                d = bits(sast.WrapFlags(node.options))
                rbv, vec = result_by_value(node), vector_arg(node)
                if kind == "cxx_template":
                    ncl = len(node.template_arguments) if name == "template_function" else 1
                elif kind == "has_default_arg":
                    ncl = sum(1 for arg in node.ast.params if arg.init is not None)
                else:
                    ncl = 0
                n0 = len(ordered)
            except Exception as e:  # noqa
                captured.setdefault("step_spy_error", repr(e))
                return orig(self, node, ordered, *a, **k)
            res = orig(self, node, ordered, *a, **k)
            try:
                clones = ordered[n0:]
                newc = "-"
                if kind == "fortran_generic":
                    tags = [c._generated for c in clones]
                    nb = []
                    for i, t in enumerate(tags):
                        if t == "fortran_generic":
                            nb.append("1" if i + 1 < len(tags) and tags[i + 1] == "fortran_generic_c" else "0")
                    newc = "".join(nb) or "-"
                facts = "".join("1" if x else "0" for x in (len(clones) > 0, rbv, vec, len(clones) == 2 and kind != "fortran_generic"))
                req = "step %s %d %s %s %s %s" % (kind, ncl, facts, newc, d, before)
                steps_seen.append((req, " ".join([bits(node.wrap)] + [bits(c.wrap) for c in clones]), node.ast.name))
                kinds_seen[kind] = kinds_seen.get(kind, 0) + 1
            except Exception as e:  # noqa
                captured.setdefault("step_spy_error", repr(e))
            return res
        patched_gen[name] = orig
        setattr(generate.GenFunctions, name, f)

    patched_gen = {}
    inits_seen = []

    def own_block(scope):
        return "".join(("1" if scope.__dict__[k] else "0") if k in scope.__dict__ else "-" for k in LANGOPT)

    def chain_of(scope):
        out = []
        while scope is not None:
            out.append(own_block(scope))
            scope = scope.get_parent()
        return out

    def all_nodes(node):
        kind = type(node).__name__
        out = [node]
        if kind in ("LibraryNode", "NamespaceNode", "ClassNode"):
            for grp in (node.classes, node.enums, node.functions, node.typedefs, node.variables):
                for x in grp:
                    out += all_nodes(x)
            if kind != "ClassNode":
                for ns in node.namespaces:
                    out += all_nodes(ns)
        return out

    orig_gen_library = generate.GenFunctions.gen_library

    def gen_library_spy(self, *a, **k):
        try:
            for nd in all_nodes(self.newlibrary):
                inits_seen.append(("init " + " ".join(chain_of(nd.options)), bits(nd.wrap),
                                   "%s %s" % (type(nd).__name__, getattr(nd, "name", None) or getattr(getattr(nd, "ast", None), "name", "?"))))
            eff = current.get("eff") or {}
            for nd in all_nodes(self.newlibrary):
                kind = type(nd).__name__
                if kind in ("ClassNode", "NamespaceNode"):
                    want = eff.get("%s %s" % ("class" if kind == "ClassNode" else "namespace", nd.name))
                    if want is None:
                        continue
                    got = {"wrap_fortran": nd.wrap.fortran, "wrap_c": nd.wrap.c, "wrap_lua": nd.wrap.lua, "wrap_python": nd.wrap.python}
                    for opt in got:
                        if bool(got[opt]) != bool(want[opt]):
                            captured.setdefault("init_escapes", []).append(
                                "%s %s is created with %s = %s although the description says %s for it" % (
                                    kind, nd.name, opt, bool(got[opt]), bool(want[opt])))
        except Exception as e:  # noqa
            captured.setdefault("init_spy_error", repr(e))
        return orig_gen_library(self, *a, **k)

    try:
        sast.promote_wrap = spy
        generate.GenFunctions.gen_library = gen_library_spy
        for mname, kind in (("template_function", "cxx_template"), ("template_function2", "cxx_template"),
                            ("has_default_args", "has_default_arg"), ("process_return_this", "return_this"),
                            ("arg_to_CFI", "arg_to_cfi"), ("arg_to_buffer", "arg_to_buffer"), ("generic_function", "fortran_generic")):
            make_step_spy(mname, kind)
        make_spy(wrapc.Wrapc, "wrapc")
        make_spy(wrapf.Wrapf, "wrapf")
        make_spy(wrapp.Wrapp, "wrapp")
        make_spy(wrapl.Wrapl, "wrapl")
        wrapc.Wrapc.write_impl_utility = util_spy
        for i in range(nlib):
            flags = [r.random() < 0.6 for _ in range(4)]
            if flags[0] and not flags[1]:
                flags[1] = True
            lib = libgen.gen_lib(r, name="fl%d" % i, options=dict(wrap_fortran=flags[0], wrap_c=flags[1], wrap_lua=flags[2], wrap_python=flags[3]))
            if lib.language != "c" and i % 3 == 1:
                lib.namespace = "xouter"           # the top-level `namespace:` field (library.wrap_namespace is not the library)
            shapes = clone_shapes(lib) if i % 2 == 0 else []
            lib.decls.extend(shapes)
            if shapes and r.random() < 0.4:
                lib.options["F_CFI"] = True
            for sh in shapes:
                nm = sh["decl"].split("(")[0].split()[-1] if "decl" in sh else "block"
                ctx.cov.setdefault("clone_shapes", {}).setdefault(nm, 0)
                ctx.cov["clone_shapes"][nm] += 1
            # sprinkle per-declaration overrides at every depth
            def sprinkle(decls, depth, inh):
                for d in decls:
                    if r.random() < (0.3 if depth == 0 else 0.35):
                        o = d.setdefault("options", {})
                        o[r.choice(["wrap_c", "wrap_fortran", "wrap_python", "wrap_lua"])] = r.random() < 0.6
                        # Fortran is only requested together with C (the property's quantifier), also through inheritance
                        if o.get("wrap_fortran") and not o.get("wrap_c", inh["wrap_c"]):
                            o["wrap_c"] = True
                        if o.get("wrap_c") is False and o.get("wrap_fortran", inh["wrap_fortran"]):
                            o["wrap_fortran"] = False
                    if "declarations" in d:
                        eff = dict(inh)
                        eff.update({k: v for k, v in (d.get("options") or {}).items() if k in eff})
                        sprinkle(d["declarations"], depth + 1, eff)
            sprinkle(lib.decls, 0, {"wrap_c": bool(lib.options.get("wrap_c")), "wrap_fortran": bool(lib.options.get("wrap_fortran"))})
            for d0 in lib.decls:
                if d0.get("decl", "").startswith("int xrank"):
                    d0.setdefault("options", {})["wrap_python"] = False      # the Python wrapper rejects assumed rank
            d = os.path.join(work, "fl%d" % i)
            os.makedirs(d)
            y = shroudrun.write_yaml(d, "fl%d.yaml" % i, lib.yaml())
            captured.clear()
            del calls[:]
            current["eff"] = effective(lib.todict())
            cfg, exc, out = shroudrun.run_inproc([y], d)
            current["eff"] = None
            if exc is not None or "before" not in captured:
                skipped[repr(exc)[:80]] = skipped.get(repr(exc)[:80], 0) + 1
                continue
            for esc in captured.get("init_escapes", [])[:3]:
                ctx.fail("c15:node-created-against-description:" + " ".join(esc.split(" ")[:2]), esc, {"yaml": lib.yaml()})
            for esc in captured.get("flag_escapes", [])[:3]:
                ctx.fail("c15:clone-wrapped-against-options:" + esc.split(" ")[0], esc, {"yaml": lib.yaml()})
            reqs.append("promote " + " ".join(captured["before"]))
            impl.append(" ".join(captured["after"]))
            libflags = captured["after"][0]
            reqs.append("run " + libflags)
            impl.append(" ".join(calls))
            ctx.nontrivial(("promote", lib.yaml()))
            common.rmtree(d)
        # fixed deep trees: only one function, three namespaces deep, switches a language on
        for lang_opt in ("wrap_python", "wrap_lua", "wrap_c"):
            txt = ("library: deep\ncxx_header: deep.hpp\noptions:\n  wrap_fortran: false\n  wrap_c: false\n  wrap_python: false\n  wrap_lua: false\n"
                   "declarations:\n- decl: namespace outer\n  declarations:\n  - decl: int ofun(int a)\n  - decl: namespace middle\n    declarations:\n"
                   "    - decl: namespace inner\n      declarations:\n      - decl: int ifun(int a)\n        options:\n          %s: true\n" % lang_opt)
            d = os.path.join(work, "deep-" + lang_opt)
            os.makedirs(d)
            y = shroudrun.write_yaml(d, "deep.yaml", txt)
            captured.clear()
            del calls[:]
            cfg, exc, out = shroudrun.run_inproc([y], d)
            if exc is None and "before" in captured:
                reqs.append("promote " + " ".join(captured["before"]))
                impl.append(" ".join(captured["after"]))
                reqs.append("run " + captured["after"][0])
                impl.append(" ".join(calls))
                ctx.nontrivial(("deep", lang_opt))
        # default clones: real has_default_args through generate on a tiny library
        for f, c in itertools.product((False, True), repeat=2):
            for nd in (1, 2, 3):
                args = ", ".join("int d%d = %d" % (k, k) for k in range(nd))
                txt = ("library: dc\ncxx_header: dc.hpp\noptions:\n  wrap_fortran: %s\n  wrap_c: %s\n  wrap_python: true\n  wrap_lua: true\n"
                       "declarations:\n- decl: void dfun(int a, %s)\n" % (str(f).lower(), str(c).lower(), args))
                d = os.path.join(work, "dc%d%d%d" % (f, c, nd))
                os.makedirs(d)
                y = shroudrun.write_yaml(d, "dc.yaml", txt)
                seen = {}
                orig_gen = generate.GenFunctions.has_default_args

                def hd_spy(self, node, ordered, _orig=orig_gen, _seen=seen):
                    before = bits(node.wrap)
                    n0 = len(ordered)
                    res = _orig(self, node, ordered)
                    _seen["node"] = before
                    _seen["clones"] = [bits(x.wrap) for x in ordered[n0:]]
                    return res
                generate.GenFunctions.has_default_args = hd_spy
                try:
                    shroudrun.run_inproc([y], d)
                finally:
                    generate.GenFunctions.has_default_args = orig_gen
                if "node" in seen:
                    reqs.append("dclone %s %d" % (seen["node"], len(seen["clones"])))
                    impl.append(" ".join(seen["clones"]))
                    ctx.nontrivial(("dclone", f, c, nd))
    finally:
        sast.promote_wrap = orig_promote
        generate.GenFunctions.gen_library = orig_gen_library
        for mname, orig in patched_gen.items():
            setattr(generate.GenFunctions, mname, orig)
        for cls, orig in patched.items():
            cls.wrap_library = orig
        wrapc.Wrapc.write_impl_utility = orig_util
        common.rmtree(work)

    ctx.note("promote_runs_skipped", skipped)
    seen = set()
    ctxinfo = {}
    for req, ans, who in steps_seen + inits_seen:
        if (req, ans) in seen:
            continue
        seen.add((req, ans))
        ctxinfo[len(reqs)] = who
        reqs.append(req)
        impl.append(ans)
    ctx.note("clone_steps_observed", kinds_seen)
    ctx.note("clone_steps_distinct", len([1 for q in reqs if q.startswith("step ")]))
    ctx.note("node_inits_distinct", len([1 for q in reqs if q.startswith("init ")]))
    for key in ("step_spy_error", "init_spy_error"):
        if captured.get(key):
            ctx.note(key, captured[key])
    ctx.count(len(reqs))
    ctx.note("flag_requests", len(reqs))
    drv = common.Driver("drv_flags")
    if ok and drv.available():
        model = drv.run(reqs)
        bad = [{"request": q, "impl": a, "model": b, "node": ctxinfo.get(i)} for i, (q, a, b) in enumerate(zip(reqs, impl, model)) if a != b]
        if bad:
            ctx.tie_broken("flags-correspondence", bad[:5])
        ctx.note("flag_disagreements", len(bad))
    else:
        ctx.tie_broken("flags-correspondence", "driver not built")
    for q, a in list(zip(reqs, impl))[-3:]:
        ctx.sample({"request": q[:300], "impl": a[:300]})
