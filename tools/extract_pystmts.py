"""Translator for C03: /repo working tree -> lean/ShroudVerif/Gen/PyStmts.lean

 * stmtRows: every wrapp.py_statements entry, resolved (base chain, PyStmts defaults) after
   update_statements_for_language for "c" and for "cxx": parse_format text, number of parse_args,
   resources acquired / released on the success path / released in the fail block / handed on
   (classification of every code line by the explicit pattern table LINE_PATTERNS; a line that matches
   no pattern makes the translator fail), goto_fail flag vs `goto fail` text vs fail clause, arg_call
   shape, argument count of fmtdict.ctor_expr.
 * typeRows: typemap PY_format, PY_PyTypeObject, PY_from_object, PY_build_format, PY_build_arg,
   PY_ctor (argument text + arity of the C-API function from CAPI_ARITY), pytype_to_pyctor, PY_get
   for every type registered by typemap.initialize().
 * unitClasses: the value classes each PyArg_Parse unit occurring in the tables accepts (UNIT_CLASS;
   an unknown unit makes the translator fail).
"""
import json
import os
import re
import subprocess
import sys

from tools import common

GEN = os.path.join(common.LEAN, "ShroudVerif", "Gen", "PyStmts.lean")

CODE_CLAUSES = ["declare", "post_declare", "post_parse", "pre_call", "post_call", "cleanup", "fail",
                "declare_capsule", "post_call_capsule", "fail_capsule", "arg_declare"]

# resources
PYVAR, DATAOBJ, CMEM, CAPSULE, DESCR, CONVOBJ = "pyVar", "dataObj", "cMem", "capsule", "descrRef", "convObj"

# (regex on the template line, list of effects).  effects: ("acq", R) ("rel", R) ("hand", R) or () neutral
LINE_PATTERNS = [
    # --- acquisitions
    (r"^(\{npy_intp_asgn\})?\{py_var\} = .*PyArray_(FROM_OTF|FromAny|SimpleNew|NewFromDescr|SimpleNewFromData)\(", [("acq", PYVAR)]),
    (r"^\{py_var\} = PyBool_FromLong\(", [("acq", PYVAR)]),
    (r"^\{py_var\} = PyCapsule_New\(\{cxx_var\}, NULL, NULL\);$", [("acq", PYVAR)]),
    (r"^\{py_var\} = PyString_FromStringAndSize\(", [("acq", PYVAR)]),
    (r"^(\{PyObject\} \* )?\{py_var\} =\t PyObject_New\(", [("acq", PYVAR)]),
    (r"^\{py_var\} = \{PY_to_object_idtor_func\}\((\{cxx_addr\})?\{cxx_var\},", [("acq", PYVAR), ("hand", CMEM)]),
    (r"^\{py_var\} = \{hnamefunc[01]\}\t\(\{cxx_var\}", [("acq", PYVAR)]),
    (r"^\{py_var\} = SHROUD_to_PyList_vector_", [("acq", PYVAR)]),
    (r"^\{py_capsule\} = PyCapsule_New\(\{cxx_var\},", [("acq", CAPSULE), ("hand", CMEM)]),
    (r"^if \(PyArray_SetBaseObject\(.*\{py_capsule\}\) < 0\)\t goto fail;$", [("hand", CAPSULE)]),
    (r"^if \(\{hnamefunc0\}\t\(\{pytmp_var\}, &\{value_var\}\) == 0\)$", [("acq", DATAOBJ)]),
    (r"^\{c_var\} = malloc\(", [("acq", CMEM)]),
    (r"^\{cxx_var\} = static_cast<\{cxx_type\} \*>\t\(std::malloc\(", [("acq", CMEM)]),
    (r"^\{cxx_var\} = new \{cxx_type\};$", [("acq", CMEM)]),
    (r"^(\{npy_intp_asgn\})?Py_INCREF\(\{PYN_descr\}\);$", [("acq", DESCR), ("hand", DESCR)]),
    (r"^self->\{PY_member_object\} = \{value_var\}\.obj;  // steal reference$", [("hand", CONVOBJ)]),
    (r"^Py_INCREF\(\{py_var\}\);$", [("acq", PYVAR)]),      # the argument object itself is returned: a new reference
    # --- releases
    (r"^Py_XDECREF\(\{py_var\}\);$", [("rel", PYVAR)]),
    (r"^\{PY_cleanup_decref\}\(\{py_var\}\);$", [("rel", PYVAR)]),
    (r"^Py_XDECREF\(\{value_var\}\.dataobj\);$", [("rel", DATAOBJ)]),
    (r"^\{stdlib\}free\(\{cxx_var\}\);$", [("rel", CMEM)]),
    (r"^if \(\{cxx_var\} != \{nullptr\}\)\t \{stdlib\}free\(\{cxx_var\}\);$", [("rel", CMEM)]),
    (r"^Py_XDECREF\(\{py_capsule\}\);$", [("rel", CAPSULE)]),
    (r"^if \(\{py_var\} == \{nullptr\} && \{cxx_var\} != \{nullptr\}\)\t \{PY_release_memory_function\}\(\{capsule_order\}, \{cxx_var\}\);$",
     [("rel", CMEM)]),
    # --- neutral: declarations
    (r"^PyObject ?\* ?\{(py_var|pytmp_var|py_capsule)\}( = \{nullptr\})?;(  // .*)?$", []),
    (r"^\{PyObject\} ?\* ?\{py_var\}( = \{nullptr\})?;$", []),
    (r"^(\{npy_intp_decl\})?Py(Array)?Object ?\* ?\{py_var\} = \{nullptr\};$", []),
    (r"^\{PY_typedef_converter\} \{value_var\} = \{PY_value_init\};$", []),
    (r"^\{value_var\}\.name = \"\{(c_var|field_name)\}\";$", []),
    (r"^Py_ssize_t \{size_var\};$", []),
    (r"^(\{c_const\})?\{c_type\} \*?\{c_var\}( = 0)?;$", []),
    (r"^\{cxx_type\} ?\* ?\{cxx_var\}( = \{nullptr\})?;$", []),
    (r"^\{cxx_type\} \{cxx_var\};$", []),
    (r"^bool \{cxx_var\};$", []),
    (r"^void \*\{c_var\};$", []),
    (r"^char ?\* ?\{c_var\};$", []),
    (r"^\{c_const\}char \{c_var\}\[\{charlen\}\];  // intent\(out\)$", []),
    (r"^\{c_const\}char \*\* \{cxx_var\} = \{nullptr\};$", []),
    (r"^\{c_const\}std::string \{cxx_var\}(\(\{c_var\}\))?;$", []),
    (r"^std::vector<\{cxx_T\}> \{cxx_var\};$", []),
    (r"^\{cxx_T\} \* \{data_var\};$", []),
    (r"^\{c_const\}\{cxx_type\} \* \{cxx_var\} =\t \{py_var\} \? \{py_var\}->\{PY_type_obj\} : \{nullptr\};$", []),
    # --- neutral: control flow and error reporting
    (r"^if \(\{(py_var|py_capsule|cxx_var)\} == \{nullptr\}\) goto fail;$", []),
    (r"^if \(\{(py_var|cxx_var)\} == \{nullptr\}\) \{\{\+$", []),
    (r"^if \(\{py_var\} != \{nullptr\}\) \{\{\+$", []),
    (r"^-\}\}$", []),
    (r"^\+goto fail;-$", []),
    (r"^goto fail;$", []),
    (r"^if \(PyErr_Occurred\(\)\)$", []),
    (r"^PyErr_SetString\(PyExc_ValueError,\t \"\{c_var\} must be a 1-D array of \{(c_type|cxx_T)\}\"\);$", []),
    (r"^PyErr_NoMemory\(\);$", []),
    # --- neutral: conversions that own nothing
    (r"^\{c_var\} = PyCapsule_GetPointer\(\{py_var\}, NULL\);$", []),
    (r"^\{cxx_var\} = PyObject_IsTrue\(\{py_var\}\);$", []),
    (r"^\{c_var\} = PyArray_DATA\(\{py_var\}\);$", []),
    (r"^\{cxx_var\} = static_cast<\{cxx_type\} \*>\t\(PyArray_DATA\(\{py_var\}\)\);$", []),
    (r"^\{cxx_var\} = \{cast_static\}(\{cxx_type\} \*|char \*\*)\{cast1\}\{value_var\}\.data\{cast2\};$", []),
    (r"^\{size_var\} = \{value_var\}\.size;$", []),
    (r"^\{cxx_var\} = \{nullptr\};$", []),
    (r"^\{py_var\}->\{PY_type_obj\} = (\{cxx_addr\}\{cxx_var\}|\{cxx_nonconst_ptr\});$", []),
    (r"^\{py_var\}->\{PY_type_dtor\} = 0;$", []),
    (r"^PyCapsule_SetContext\(\{py_capsule\},\t \{PY_fetch_context_function\}\(\{capsule_order\}\)\);$", []),
    (r"^\{npy_dims_var\}\[0\] = \{cxx_var\}->size\(\);$", []),
    (r"^\{data_var\} = static_cast<\{cxx_T\} \*>\(PyArray_DATA\(\{py_var\}\)\);$", []),
    (r"^\{cxx_var\}\.assign\(\t\{data_var\},\t \{data_var\}\+PyArray_SIZE\(\{py_var\}\)\);$", []),
    (r"^if \(\{hnamefunc0\}\t\(\{pytmp_var\},\t \"\{c_var\}\",\t \{cxx_var\}\) == -1\)$", []),      # fills a std::vector
    (r"^if \(\{hnamefunc0\}\(\t\{py_var\},\t \"\{c_var\}\",\t SH_obj->\{field_name\},\t \{field_size\}\) == -1\)$", []),
    (r"^SH_obj->\{field_name\} = (\{field_name\}|\{cast_static\}(\{c_type\} \*|char \*\*)\{cast1\}\{value_var\}\.data\{cast2\});$", []),
    (r"^self->\{PY_member_object\} = \{nullptr\};$", []),
]
LINE_PATTERNS = [(re.compile(p), eff) for p, eff in LINE_PATTERNS]

# parse_args entries that make PyArg_Parse acquire something through a converter
PARSE_ARG_ACQ = {"{hnamefunc0}": CONVOBJ}

CAPI_ARITY = {"PyInt_FromLong": 1, "PyInt_FromSize_t": 1, "PyFloat_FromDouble": 1, "PyComplex_FromDoubles": 2,
              "PyString_FromString": 1, "PyString_FromStringAndSize": 2, "PyCapsule_New": 3, "PyBool_FromLong": 1}

# value classes: 0 int, 1 str, 2 float, 3 bool, 4 None, 5 complex, 10.. instances of wrapped classes
ANY = list(range(0, 18))
UNIT_CLASS = {}
for _u in "bBhHiIlkLKn":
    UNIT_CLASS[_u] = [0, 3]
UNIT_CLASS.update({"f": [0, 2, 3], "d": [0, 2, 3], "D": [0, 2, 3, 5], "s": [1], "z": [1, 4], "O": ANY, "O&": ANY})

SUCCESS_CLAUSES = ["cleanup", "post_call"]      # where a temporary may be released when all went well
FAIL_CLAUSES = ["fail", "fail_capsule"]

PROBE = r"""
import json
from shroud import typemap, wrapp, statements
CL = %r
out = {"stmts": [], "types": []}
typemap.initialize()
for lang in ("c", "cxx"):
    wrapp.update_statements_for_language(lang)
    for it in wrapp.py_statements:
        name = it["name"]
        blk = wrapp.lookup_stmts(name.split("_"))
        if blk.name != name:
            raise SystemExit("lookup of %%s gives %%s" %% (name, blk.name))
        row = {"name": name, "lang": lang}
        for cl in CL:
            v = getattr(blk, cl)
            row[cl] = list(v) if v else []
        row["arg_declare_none"] = blk.arg_declare is None
        row["parse_format"] = blk.parse_format or ""
        row["parse_args"] = list(blk.parse_args or [])
        row["arg_call"] = list(blk.arg_call or [])
        row["object_created"] = bool(blk.object_created)
        row["goto_fail"] = bool(blk.goto_fail)
        fd = blk.fmtdict or {}
        row["ctor_expr"] = fd.get("ctor_expr", "")
        row["cxx_local_var"] = blk.cxx_local_var or ""
        row["has_getter"] = bool(blk.getter or blk.setter)
        out["stmts"].append(row)
for name, t in typemap.get_global_types().items():
    out["types"].append({"name": name, "sgroup": t.sgroup, "PY_format": t.PY_format or "",
        "PY_PyTypeObject": t.PY_PyTypeObject or "", "PY_from_object": t.PY_from_object or "",
        "PY_build_format": t.PY_build_format or "", "PY_build_arg": t.PY_build_arg or "",
        "PY_ctor": t.PY_ctor or "", "PY_get": t.PY_get or "", "py_ctype": t.py_ctype or "",
        "pytype_to_pyctor": t.pytype_to_pyctor or ""})
print(json.dumps(out))
"""


class Unclassified(RuntimeError):
    pass


def probe():
    e = dict(os.environ, PYTHONPATH=common.REPO, PYTHONDONTWRITEBYTECODE="1")
    p = subprocess.run([sys.executable, "-c", PROBE % (CODE_CLAUSES,)], stdout=subprocess.PIPE, stderr=subprocess.PIPE,
                       text=True, env=e)
    if p.returncode:
        raise RuntimeError("py_statements probe failed: " + (p.stderr or p.stdout)[-1500:])
    return json.loads(p.stdout.strip().split("\n")[-1])


def classify_line(line, where):
    for rx, eff in LINE_PATTERNS:
        if rx.search(line):
            return eff
    raise Unclassified("py_statements line not covered by the pattern table (%s): %r" % (where, line))


def split_lines(clause):
    res = []
    for item in clause:
        res.extend(item.split("\n"))
    return res


def arg_shape(a):
    if re.fullmatch(r"\{\w+\}", a):
        return 0
    if re.fullmatch(r"&\{\w+\}", a):
        return 1
    if re.fullmatch(r"\*\{\w+\}", a):
        return 2
    if re.fullmatch(r"\{\w+\}\[0\]", a):
        return 3
    raise Unclassified("arg_call entry of unknown shape: %r" % a)


def count_args(text):
    if not text:
        return 0
    depth, n = 0, 1
    for c in text:
        if c == "(":
            depth += 1
        elif c == ")":
            depth -= 1
        elif c == "," and depth == 0:
            n += 1
    return n


def build_rows(data):
    names, groups = [], []

    def nid(n):
        if n not in names:
            names.append(n)
        return names.index(n)

    def gid(g):
        if g not in groups:
            groups.append(g)
        return groups.index(g)

    stmt_rows, units = [], set()
    nlines = 0
    for r in data["stmts"]:
        where = "%s/%s" % (r["name"], r["lang"])
        acq, hand, rel_s, rel_f = [], [], [], []
        goto_text = False
        for cl in CODE_CLAUSES:
            for line in split_lines(r[cl]):
                nlines += 1
                if "goto fail" in line:
                    goto_text = True
                for kind, res in classify_line(line, where + "." + cl):
                    if kind == "acq":
                        acq.append(res)
                    elif kind == "hand":
                        hand.append(res)
                    elif kind == "rel":
                        if cl in FAIL_CLAUSES:
                            rel_f.append(res)
                        elif cl in SUCCESS_CLAUSES:
                            rel_s.append(res)
                        else:
                            raise Unclassified("release outside cleanup/post_call/fail (%s.%s): %r" % (where, cl, line))
        for a in r["parse_args"]:
            if a in PARSE_ARG_ACQ:
                acq.append(PARSE_ARG_ACQ[a])
            elif not re.fullmatch(r"&\{\w+\}", a):
                raise Unclassified("parse_args entry of unknown shape (%s): %r" % (where, a))
        if r["object_created"]:
            hand.append(PYVAR)
        sg = r["name"].split("_")[1] if r["name"].startswith("py_") else "base"
        if r["parse_format"]:
            units.add(r["parse_format"])
        stmt_rows.append(dict(
            name=nid(r["name"]), lang=0 if r["lang"] == "c" else 1, sgroup=gid(sg), parseFormat=r["parse_format"],
            nParseArgs=len(r["parse_args"]), acquires=acq, handed=hand, relSuccess=rel_s, relFail=rel_f,
            objectCreated=r["object_created"], gotoFlag=r["goto_fail"], gotoText=goto_text,
            failText=bool(r["fail"] or r["fail_capsule"]), argCall=[arg_shape(a) for a in r["arg_call"]],
            ctorArgs=count_args(r["ctor_expr"]), cxxLocal=bool(r["cxx_local_var"]),
            ctorUsesC="{c_var}" in r["ctor_expr"], ctorUsesCxx="{cxx_var}" in r["ctor_expr"]))
    type_rows = []
    for t in data["types"]:
        inner, arity = "", 0
        if t["PY_ctor"]:
            m = re.fullmatch(r"(\w+)\(\s*(.*)\)", t["PY_ctor"], re.S)
            if not m or m.group(1) not in CAPI_ARITY:
                raise Unclassified("PY_ctor of %s is not a call of a known C-API function: %r" % (t["name"], t["PY_ctor"]))
            inner = m.group(2).replace("{ctor_expr}", "ctor_expr")
            arity = CAPI_ARITY[m.group(1)]
        if t["PY_format"]:
            units.add(t["PY_format"])
        type_rows.append(dict(
            name=nid("type:" + t["name"]), sgroup=gid(t["sgroup"]), pyFormat=t["PY_format"],
            typeObject=bool(t["PY_PyTypeObject"]), fromObject=bool(t["PY_from_object"]),
            buildFormat=t["PY_build_format"], buildArg=t["PY_build_arg"], ctorInner=inner, ctorArity=arity,
            pyctorArgs=count_args(t["pytype_to_pyctor"]) if t["py_ctype"] else 0, hasGet=bool(t["PY_get"])))
    classes = []
    for u in sorted(units):
        if u not in UNIT_CLASS:
            raise Unclassified("format unit %r has no value-class entry in UNIT_CLASS" % u)
        classes.append((u, UNIT_CLASS[u]))
    return names, groups, stmt_rows, type_rows, classes, nlines


def txt(s):
    return "[" + ", ".join(str(ord(c)) for c in s) + "]"


def lb(b):
    return "true" if b else "false"


def lres(l):
    return "[" + ", ".join("." + x for x in l) + "]"


def render(names, groups, stmt_rows, type_rows, classes):
    o = ["import ShroudVerif.Model.PyTables",
         "/-! GENERATED by tools/extract_pystmts.py from the /repo working tree.  Do not edit. -/",
         "namespace Shroud.Gen.PyStmts", "open Shroud.PyTables", ""]
    o.append("/- names: " + "; ".join("%d=%s" % (i, n) for i, n in enumerate(names)) + " -/")
    o.append("/- statement groups: " + "; ".join("%d=%s" % (i, n) for i, n in enumerate(groups)) + " -/")
    o.append("")
    o.append("def stmtRows : List StmtRow := [")
    rows = []
    for r in stmt_rows:
        rows.append("  { name := %d, lang := %d, sgroup := %d, parseFormat := %s, nParseArgs := %d, acquires := %s, handed := %s, "
                    "relSuccess := %s, relFail := %s, objectCreated := %s, gotoFlag := %s, gotoText := %s, failText := %s, "
                    "argCall := %s, ctorArgs := %d, cxxLocal := %s, ctorUsesC := %s, ctorUsesCxx := %s }" % (
                        r["name"], r["lang"], r["sgroup"], txt(r["parseFormat"]), r["nParseArgs"], lres(r["acquires"]),
                        lres(r["handed"]), lres(r["relSuccess"]), lres(r["relFail"]), lb(r["objectCreated"]), lb(r["gotoFlag"]),
                        lb(r["gotoText"]), lb(r["failText"]), "[" + ", ".join(map(str, r["argCall"])) + "]", r["ctorArgs"],
                        lb(r["cxxLocal"]), lb(r["ctorUsesC"]), lb(r["ctorUsesCxx"])))
    o.append(",\n".join(rows) + " ]")
    o.append("")
    o.append("def typeRows : List TypeRow := [")
    rows = []
    for t in type_rows:
        rows.append("  { name := %d, sgroup := %d, pyFormat := %s, typeObject := %s, fromObject := %s, buildFormat := %s, "
                    "buildArg := %s, ctorInner := %s, ctorArity := %d, pyctorArgs := %d, hasGet := %s }" % (
                        t["name"], t["sgroup"], txt(t["pyFormat"]), lb(t["typeObject"]), lb(t["fromObject"]), txt(t["buildFormat"]),
                        txt(t["buildArg"]), txt(t["ctorInner"]), t["ctorArity"], t["pyctorArgs"], lb(t["hasGet"])))
    o.append(",\n".join(rows) + " ]")
    o.append("")
    o.append("def unitClasses : List UnitClass := [")
    o.append(",\n".join("  { unit := %s, accepts := [%s] }" % (txt(u), ", ".join(map(str, a))) for u, a in classes) + " ]")
    o.append("")
    o.append("end Shroud.Gen.PyStmts")
    return "\n".join(o) + "\n"


def write_if_changed(path, text):
    try:
        if open(path).read() == text:
            return False
    except OSError:
        pass
    with open(path, "w") as f:
        f.write(text)
    return True


def regenerate():
    """returns (changed, stats); raises Unclassified when a table line is outside the pattern table"""
    data = probe()
    names, groups, stmt_rows, type_rows, classes, nlines = build_rows(data)
    changed = write_if_changed(GEN, render(names, groups, stmt_rows, type_rows, classes))
    strict = sorted({names[r["name"]] for r in stmt_rows
                     if any(x not in r["relFail"] and x not in (DESCR, CONVOBJ) for x in r["acquires"])})
    stats = {"entries_whose_returned_object_is_not_released_in_fail (informational, see C06)": strict,
             "statement_entries": len(stmt_rows) // 2, "statement_rows (c + cxx)": len(stmt_rows), "code_lines_classified": nlines,
             "acquiring_rows": sum(1 for r in stmt_rows if r["acquires"]), "type_rows": len(type_rows),
             "format_units": [u for u, _ in classes], "line_patterns": len(LINE_PATTERNS)}
    return changed, stats, {"types": data["types"], "classes": dict(classes)}


if __name__ == "__main__":
    print(regenerate()[:2])
