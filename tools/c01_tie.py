"""C01 tie (D): the real generate_functions + Wrapc + Wrapf (in-process) versus `assembleF`,
`lookup`, `routeC`, `collectGenerics` of Model/WrapF.lean (driver drv_wrapf).

Inputs of the model are read from the REAL declaration objects after the run (sgroup of the
typemap, get_indirect_stmt(), intent, stmts_suffix, deref, attributes, index chains); outputs
compared are what the real emitter recorded or wrote: requested and matched statement names per
argument and result (Fortran and C side), F_arg_c_call, F_arguments, F_C_call, and the generic
interfaces found in the written module text.
"""
import os
import re

from tools import common, shroudrun

_holder = {}


def _install_capture():
    from shroud import wrapf
    if getattr(wrapf.Wrapf, "_c01_patched", False):
        return
    orig = wrapf.Wrapf.wrap_library

    def wrap_library(self):
        lib = self.newlibrary
        _holder["library"] = lib
        # F_C_name as assigned by Namify, before wrap_function_impl rebinds it for direct bind(C) calls
        _holder["F_C_name"] = {i: getattr(n.fmtdict, "F_C_name", None) for i, n in enumerate(lib.function_index)}
        return orig(self)

    wrapf.Wrapf.wrap_library = wrap_library
    # implied expressions are recorded when they are emitted: the format dictionaries of a C function are shared
    # by all fortran_generic clones that call it, so only the last clone's text survives the run
    orig_impl = wrapf.Wrapf.wrap_function_impl
    orig_ftn = wrapf.ftn_implied

    def wrap_function_impl(self, cls, node, fileinfo):
        _holder["current"] = node
        try:
            return orig_impl(self, cls, node, fileinfo)
        finally:
            _holder["current"] = None

    def ftn_implied(expr, func, arg):
        res = orig_ftn(expr, func, arg)
        _holder.setdefault("implied", []).append((_holder.get("current"), arg, expr, res[0]))
        return res

    wrapf.Wrapf.wrap_function_impl = wrap_function_impl
    wrapf.ftn_implied = ftn_implied
    # the VALUE rule: inputs as written (before) and attrs["value"] as left (after) by VerifyAttrs.check_arg_attrs
    from shroud import generate
    orig_caa = generate.VerifyAttrs.check_arg_attrs

    def check_arg_attrs(self, node, arg, options=None):
        try:
            pre = (arg.attrs["assumedtype"] is not None, arg.attrs["value"], arg.attrs["intent"])
        except Exception:
            pre = None
        try:
            res = orig_caa(self, node, arg, options)
        except RuntimeError as e:
            if pre is not None and "value=True" in str(e):
                _holder.setdefault("value", []).append((node, arg, pre, "raise"))
            raise
        if pre is not None:
            _holder.setdefault("value", []).append((node, arg, pre, arg.attrs["value"]))
        return res

    generate.VerifyAttrs.check_arg_attrs = check_arg_attrs
    wrapf.Wrapf._c01_patched = True


def run_shroud(yaml_text, workdir, options=(), language=None, name="lib.yaml", path=None):
    """Returns (library or None, exception or None, outdir)"""
    _install_capture()
    _holder.clear()
    os.makedirs(workdir, exist_ok=True)
    y = shroudrun.write_yaml(workdir, name, yaml_text)
    cfg, exc, out = shroudrun.run_inproc([y], workdir, options=list(options), language=language, path=path)
    return _holder.get("library"), exc, workdir


def run_corpus(cname, workdir):
    _install_capture()
    _holder.clear()
    os.makedirs(workdir, exist_ok=True)
    cfg, exc, out = shroudrun.run_corpus_inproc(cname, workdir)
    return _holder.get("library"), exc, workdir


# ------------------------------------------------------------------ walking the library
def walk_functions(lib):
    """(module key, cls or None, node) in the emission order of Wrapf.wrap_namespace; a namespace has its
    own module unless F_flatten_namespace"""
    out = []

    def ns(node, module):
        for cls in node.classes:
            if not cls.wrap.fortran:
                continue
            for fn in cls.functions:
                out.append((module, cls, fn))
        for fn in node.functions:
            out.append((module, None, fn))
        for sub in node.namespaces:
            if not sub.wrap.fortran:
                continue
            ns(sub, module if sub.options.F_flatten_namespace else id(sub))
    ns(lib, id(lib))
    return out


class Interner:
    def __init__(self, ids):
        self.ids = dict(ids)
        self.next = 1000

    def __call__(self, s):
        if s is None or s == "" or s is False:
            return 0
        if not isinstance(s, tuple):
            s = str(s)
        if s not in self.ids:
            self.ids[s] = self.next
            self.next += 1
        return self.ids[s]


def argd(decl, meta_intent, suffix, deref, cdesc, spec, it, tn):
    return [it(decl.typemap.sgroup), it(decl.get_indirect_stmt()), it(meta_intent), it(suffix), it(deref),
            1 if cdesc else 0, it(spec), tn(decl.typemap.name)]


def encode_fn(lib, cls, node, it, tn):
    """model input for one Fortran-wrapped function; returns (line parts, info) or None if the emitter
    would take a path the model does not describe (splicer-provided F_arguments etc.)"""
    from shroud import wrapf
    C_node = node
    while C_node._PTR_F_C_index is not None:
        C_node = lib.function_index[C_node._PTR_F_C_index]
    ast = node.ast
    fmt = node.fmtdict
    is_ctor, is_dtor = ast.is_ctor(), ast.is_dtor()
    kind = 0
    if cls is not None:
        kind = 3 if is_ctor else 4 if is_dtor else 2 if "static" in ast.storage else 1
    f_fun = ast.get_subprogram() == "function"
    c_fun = C_node.ast.get_subprogram() == "function"
    gen = C_node.generated_suffix
    res_as_arg = bool(fmt.F_string_result_as_arg)
    rtm = ast.typemap
    rsuf = getattr(C_node, "result_suffix", None)
    head = [kind, int(f_fun), int(c_fun), it(gen), int(res_as_arg), it(rtm.sgroup if rtm else None),
            it(C_node.ast.get_indirect_stmt()), it(ast.metaattrs["deref"]), it(ast.attrs["owner"]),
            it(gen if rsuf is None else rsuf)]
    params = []
    names = {}
    f_args = ast.params
    f_index = -1
    for i, c_arg in enumerate(C_node.ast.params):
        names[c_arg.name] = i + 1
        c_meta, c_attrs = c_arg.metaattrs, c_arg.attrs
        is_result = bool(c_meta["is_result"])
        is_f_arg = not (is_result and not res_as_arg)
        if not is_f_arg:
            names[c_arg.name] = 0   # its Fortran variable is the function result
        if is_f_arg:
            f_index += 1
            if f_index >= len(f_args):
                return None
            f_arg = f_args[f_index]
        else:
            f_arg = c_arg
        spec = c_arg.template_arguments[0].typemap.sgroup if c_arg.template_arguments else None
        cdesc = c_attrs["cdesc"] is not None
        intent = c_meta["intent"]
        cd = argd(c_arg, intent, c_arg.stmts_suffix, c_meta["deref"], cdesc, spec, it, tn)
        fd = argd(f_arg, intent, f_arg.stmts_suffix, f_arg.metaattrs["deref"], cdesc, spec, it, tn)
        implied = 0
        if is_f_arg and f_arg.attrs["implied"]:
            _txt, inter, _h = wrapf.ftn_implied(f_arg.attrs["implied"], node, f_arg)
            implied = 2 if inter else 1
        arg_tm = c_arg.template_arguments[0].typemap if c_arg.template_arguments else c_arg.typemap
        p = [i + 1] + cd + fd + [int(is_result), int(bool(c_attrs["hidden"])), int(bool(c_arg.ftrim_char_in)),
                                 int(bool(c_attrs["assumedtype"])), int(bool(f_arg.is_function_pointer())), implied,
                                 int(bool(arg_tm.f_to_c))]
        params.append(p)
    return head, params, names, C_node


def _scope_get(scope, name, default=None):
    try:
        return getattr(scope, name)
    except AttributeError:
        return default


def real_actual_tokens(text, names, fmt, C_node, node):
    """F_arg_c_call text -> the token alphabet of the driver"""
    toks = []
    if not text:
        return toks
    this = _scope_get(fmt, "F_this", "obj")
    member = _scope_get(fmt, "F_derived_member", "cxxmem")
    fres = _scope_get(fmt, "F_result", "SHT_rv")
    ctxs, caps, implied = {}, {}, {}
    for a in C_node.ast.params:
        if a.attrs["context"]:
            ctxs[a.attrs["context"]] = names[a.name]
        if a.attrs["capsule"]:
            caps[a.attrs["capsule"]] = names[a.name]
        fa = C_node._fmtargs.get(a.name, {}).get("fmtf")
        if fa is not None and _scope_get(fa, "pre_call_intent") is not None:
            implied[_scope_get(fa, "pre_call_intent")] = names[a.name]
    if C_node.ast.attrs["context"]:
        ctxs[C_node.ast.attrs["context"]] = 0
    if C_node.ast.attrs["capsule"]:
        caps[C_node.ast.attrs["capsule"]] = 0
    for part in text.split(",\t "):
        part = part.strip()
        m = None
        if part == "%s%%%s" % (this, member):
            toks.append("this")
        elif part in implied and part not in names:
            toks.append("im%d" % implied[part])
        elif (m := re.fullmatch(r"trim\((\w+)\)//C_NULL_CHAR", part)) and m.group(1) in names:
            toks.append("t%d" % names[m.group(1)])
        elif (m := re.fullmatch(r"len_trim\((\w+), kind=C_INT\)", part)):
            toks.append("lt%d" % names.get(m.group(1), 0))
        elif (m := re.fullmatch(r"len\((\w+), kind=C_INT\)", part)):
            toks.append("ln%d" % names.get(m.group(1), 0))
        elif (m := re.fullmatch(r"size\((\w+), kind=C_LONG\)", part)):
            toks.append("sz%d" % names.get(m.group(1), 0))
        elif (m := re.fullmatch(r"C_LOC\((\w+)\)", part)) and m.group(1) in names:
            toks.append("cl%d" % names[m.group(1)])
        elif (m := re.fullmatch(r"SHPTR_(\w+)", part)) and m.group(1) in names:
            toks.append("fp%d" % names[m.group(1)])
        elif (m := re.fullmatch(r"(\w+)%mem", part)) and m.group(1) in caps:
            toks.append("cp%d" % caps[m.group(1)])
        elif part in ctxs:
            toks.append("cx%d" % ctxs[part])
        elif (m := re.fullmatch(r"(\w+)%" + re.escape(member), part)):
            toks.append("sh%d" % names.get(m.group(1), 0 if m.group(1) == fres else -1))
        elif (m := re.fullmatch(r"SH_(\w+)", part)) and m.group(1) in names:
            toks.append("l%d" % names[m.group(1)])
        elif part in names:
            toks.append("v%d" % names[part])
        elif part == fres:
            toks.append("res")
        elif (m := re.fullmatch(r"(?:int|real|cmplx)\((\w+), \w+\)", part)) and m.group(1) in names:
            toks.append("ca%d" % names[m.group(1)])
        else:
            toks.append("?" + part)
    return toks


def norm_model_actuals(s, params_by_id, C_node):
    """`fcN` (typemap f_to_c) is text `N%member` for classes and `N` for structs"""
    if s == "-":
        return []
    out = []
    for t in s.split(","):
        if t.startswith("fc") or t.startswith("ca"):
            n = int(t[2:])
            a = C_node.ast.params[n - 1]
            tm = a.template_arguments[0].typemap if a.template_arguments else a.typemap
            if t.startswith("fc"):
                out.append(("v%d" if tm.f_to_c == "{f_var}" else "sh%d") % n)
            else:
                out.append(("v%d" if tm.f_cast == "{f_var}" else "ca%d") % n)
        else:
            out.append(t)
    return out


def stmt_ids(name, it):
    if name is None:
        return None
    if name in ("f_default", "c_default"):
        return [it(name[0])]
    return [it(p) for p in name.split("_") if p]


def real_matched(node, C_node, fn_names, it):
    """[(requested ids, matched ids)] in the order of the model: result f, result c, then per param f, c"""
    out = []
    if node.ast.get_subprogram() == "subroutine":
        fr = node.fmtdict
    else:
        fr = node._fmtresult.get("fmtf")
    out.append((stmt_ids(_scope_get(fr, "stmt0"), it), stmt_ids(_scope_get(fr, "stmt1"), it)))
    out.append((stmt_ids(_scope_get(fr, "stmtc0"), it), stmt_ids(_scope_get(fr, "stmtc1"), it)))
    return out


def parse_generic_interfaces(text):
    """named interface blocks and type-bound generics of one written module:
    sorted [(kind, name, members)]; members of a type-bound generic are sorted"""
    text = re.sub(r"&\s*\n\s*&?", "", text)
    res = []
    cur = None
    for line in text.split("\n"):
        s = line.strip()
        m = re.fullmatch(r"interface (\w+)", s)
        if m:
            cur = ["i", m.group(1).lower(), []]
            continue
        if re.fullmatch(r"end interface( \w+)?", s):
            if cur is not None and cur[2]:
                res.append((cur[0], cur[1], tuple(cur[2])))
            cur = None
            continue
        m = re.fullmatch(r"module procedure (\w+)", s)
        if m and cur:
            cur[2].append(m.group(1).lower())
            continue
        m = re.fullmatch(r"generic :: (\w+) => (.*)", s)
        if m:
            # one entry per (generic, specific): with cpp_if the emitter writes one line per specific
            for x in m.group(2).split(","):
                res.append(("g", m.group(1).lower(), (x.strip().lower(),)))
    return res


def iexpr_tokens(node, names):
    """real expression AST (declast.ExprParser) -> prefix tokens of the driver; None if a form is not modelled"""
    k = type(node).__name__
    if k == "Identifier":
        if node.args is None:
            if node.name == "true":
                return ["T"]
            if node.name == "false":
                return ["F"]
            return ["i%d" % names[node.name]] if node.name in names else None
        if node.name in ("size", "len", "len_trim", "type") and len(node.args) == 1 and \
                type(node.args[0]).__name__ == "Identifier" and node.args[0].name in names:
            return [{"size": "s", "len": "l", "len_trim": "t", "type": "y"}[node.name] + str(names[node.args[0].name])]
        return None
    if k == "Constant":
        return ["c" + node.value] if node.value.isdigit() and not (len(node.value) > 1 and node.value[0] == "0") else None
    if k == "BinaryOp":
        l, r = iexpr_tokens(node.left, names), iexpr_tokens(node.right, names)
        op = {"+": 1, "-": 2, "*": 3, "/": 4}.get(node.op)
        return None if (l is None or r is None or op is None) else ["b%d" % op] + l + r
    if k == "UnaryOp":
        e = iexpr_tokens(node.node, names)
        return None if (e is None or node.op != "-") else ["n"] + e
    if k == "ParenExpr":
        e = iexpr_tokens(node.node, names)
        return None if e is None else ["p"] + e
    return None


def canon_implied(text, names, kind, shid):
    """emitted Fortran text -> the driver's alphabet: @i arguments, K the implied argument's kind, #id type codes"""
    t = text.replace(" ", "")
    t = t.replace(".TRUE._C_BOOL", "T").replace(".FALSE._C_BOOL", "F")
    if kind:
        t = t.replace("kind=" + kind + ")", "kind=K)")

    def rep(m):
        w = m.group(0)
        if w in ("size", "len", "len_trim", "kind") and t[m.end():m.end() + 1] in ("(", "="):
            return w   # the intrinsic, even when an argument has the same name
        if w in names:
            return "@%d" % names[w]
        if w.startswith("SH_TYPE_"):
            return "#%d" % shid(w)
        return w
    return re.sub(r"[A-Za-z_]\w*", rep, t)


def parse_iface_guards(text):
    """{generic name: (block guard or None, [(procedure, guard or None)])} of the named interface blocks of one module"""
    text = re.sub(r"&\s*\n\s*&?", "", text)
    lines = [l.strip() for l in text.split("\n")]
    res = {}
    i = 0
    while i < len(lines):
        m = re.fullmatch(r"interface (\w+)", lines[i])
        if not m:
            i += 1
            continue
        name = m.group(1)
        j = i - 1
        while j >= 0 and (lines[j] == "" or lines[j].startswith("!")):
            j -= 1
        block = lines[j][1:] if j >= 0 and lines[j].startswith("#") and not lines[j].startswith("#endif") else None
        members, guard = [], None
        i += 1
        while i < len(lines) and not re.fullmatch(r"end interface( \w+)?", lines[i]):
            l = lines[i]
            if l.startswith("#endif"):
                guard = None
            elif l.startswith("#"):
                guard = l[1:]
            else:
                mm = re.fullmatch(r"module procedure (\w+)", l)
                if mm:
                    members.append((mm.group(1).lower(), guard))
            i += 1
        if members:
            res[name.lower()] = (block, members)
    return res


class Tie:
    """collects driver requests for one batch of libraries, then compares"""

    def __init__(self, ctx, ids):
        self.ctx = ctx
        self.it = Interner(ids)
        self.tn = Interner({})
        self.lines = []
        self.expect = []   # (kind, tag, expected, extra)
        self.skipped = 0
        self.entries_f = set()
        self.entries_c = set()

    def add_library(self, tag, lib, outdir, cxx):
        it, tn = self.it, self.tn
        lang = "1" if cxx else "0"
        fns = walk_functions(lib)
        index = lib.function_index
        # ---- assembly per Fortran-wrapped function
        for scope, cls, node in fns:
            if not node.wrap.fortran:
                continue
            if "f" in node.splicer or node.options.get("F_arguments", None) is not None:
                self.skipped += 1
                continue
            enc = encode_fn(lib, cls, node, it, tn)
            if enc is None:
                self.skipped += 1
                continue
            head, params, names, C_node = enc
            line = "asm %s %s" % (lang, ",".join(map(str, head)))
            for p in params:
                line += " " + ",".join(map(str, p))
            fmt = node.fmtdict
            # expected
            fargs_txt = _scope_get(fmt, "F_arguments", "")
            this = _scope_get(fmt, "F_this", "obj")
            exp_fargs = []
            capsules = {x.attrs["capsule"] for x in [C_node.ast, node.ast] + list(C_node.ast.params) if x.attrs["capsule"]}
            for a in [x.strip() for x in fargs_txt.split(",\t ")] if fargs_txt else []:
                if a == this and cls is not None and a not in names:
                    exp_fargs.append(0)
                elif a not in names and a in capsules:
                    exp_fargs.append(9999)
                else:
                    exp_fargs.append(names.get(a, -1))
            exp_acts = real_actual_tokens(_scope_get(fmt, "F_arg_c_call", ""), names, fmt, C_node, node)
            matched = real_matched(node, C_node, names, it)
            for a in C_node.ast.params:
                fa = C_node._fmtargs.get(a.name, {}).get("fmtf")
                if fa is None or not fa.inlocal("stmt0"):
                    continue
                s0 = _scope_get(fa, "stmt0")
                matched.append((stmt_ids(s0, it), stmt_ids(_scope_get(fa, "stmt1"), it)))
                matched.append((stmt_ids(_scope_get(fa, "stmtc0"), it), stmt_ids(_scope_get(fa, "stmtc1"), it)))
                self.entries_f.add(_scope_get(fa, "stmt1"))
                self.entries_c.add(_scope_get(fa, "stmtc1"))
            self.lines.append(line)
            self.expect.append(("asm", "%s:%s" % (tag, node.declgen or node.decl), (exp_fargs, exp_acts, matched), C_node))
        # ---- implied expressions, one per emitted wrapper (fortran_generic clones included)
        from shroud import declast
        for cur, arg, expr, text in _holder.get("implied", []):
            if cur is None:
                continue
            names = {a.name: i + 1 for i, a in enumerate(cur.ast.params)}
            try:
                toks = iexpr_tokens(declast.ExprParser(expr).expression(), names)
            except Exception:
                toks = None
            if toks is None:
                self.skipped += 1
                continue
            tab = ",".join("%d:%d" % (i + 1, self.tn("sh:" + str(a.typemap.sh_type))) for i, a in enumerate(cur.ast.params)) or "-"
            self.lines.append("implied %s %s" % (tab, " ".join(toks)))
            exp = canon_implied(text, names, arg.typemap.f_kind, lambda w: self.tn("sh:" + w))
            form = re.sub(r"\d+", "", " ".join(t[0] for t in toks))
            variant = ("generic-clone" if cur._generated == "fortran_generic" else "plain")
            self.expect.append(("implied", "%s:%s:%s" % (tag, cur.declgen or cur.decl, expr), exp, (form, variant)))
        _holder["implied"] = []
        # ---- routing
        pos = {id(n): k for k, n in enumerate(index)}
        tab = []
        keyid = Interner({})
        where = {id(n): (mod, cls) for mod, cls, n in fns}
        for i, n in enumerate(index):
            fmt = n.fmtdict
            gk, gname, force = 0, 0, 0
            if n.wrap.fortran and id(n) in where:
                mod, cls = where[id(n)]
                if n.options.class_ctor:
                    gk, gname = 3, keyid(("i", mod, n.options.class_ctor))
                elif n.options.F_create_generic:
                    if n.ast.is_ctor():
                        gk, gname = 3, keyid(("i", mod, fmt.F_name_generic))
                    elif cls is not None:
                        gk, gname = 2, keyid(("g", id(cls), fmt.F_name_generic))
                    else:
                        gk, gname = 1, keyid(("i", mod, fmt.F_name_scope + fmt.F_name_generic))
                        force = int(n._generated == "fortran_generic")
            tab.append([0 if n._PTR_F_C_index is None else n._PTR_F_C_index + 1,
                        0 if n._PTR_C_CXX_index is None else n._PTR_C_CXX_index + 1,
                        int(bool(n.wrap.fortran)), gname, gk, force, len(n.ast.params)])
        tabs = " ".join(",".join(map(str, t)) for t in tab)
        pre = _holder.get("F_C_name", {})
        for i, n in enumerate(index):
            if n.wrap.fortran and id(n) in where:
                self.lines.append("route %d %s" % (i, tabs))
                self.expect.append(("route", "%s:%s" % (tag, n.declgen or n.decl),
                                    (_scope_get(n.fmtdict, "F_C_call"), i), (pre, index)))
        # ---- fortran_generic / assumed-rank clones: which C function each clone calls (generic_function's
        # per-function cvariants table), from the declarations of the function and of its generic list
        def feat(decls):
            return ";".join("%d,%d" % (int(a.typemap.sgroup == "native"), int(a.attrs["rank"] or 0)) for a in decls) or "-"
        for s_i, n in enumerate(index):
            gl = n.fortran_generic
            if not isinstance(gl, list) or not gl or n._PTR_C_CXX_index is not None:
                continue   # bufferify / CFI clones copy the list but generic_function never runs on them
            same = [m for m in index if m is not n and isinstance(m.fortran_generic, list) and m.fortran_generic
                    and m._PTR_C_CXX_index is None and m.decl == n.decl and m.ast.name == n.ast.name]
            group = [n]
            if same:
                # default-argument clones of a generic function share the declaration text; generic_function is
                # run on each of them (clones first, in creation order, then the function itself), each with its
                # own cvariants table, and appends its Fortran clones consecutively
                allm = sorted([n] + same, key=lambda m: pos[id(m)])
                if allm[0] is not n:
                    continue   # handled when the first member of the group was visited
                dflt = [m for m in allm if m._generated == "has_default_arg"]
                rest = [m for m in allm if m._generated != "has_default_arg"]
                if len(rest) != 1:
                    self.skipped += 1
                    continue
                group = dflt + rest
            clones = sorted([c for c in index if c._generated == "fortran_generic" and c.decl == n.decl
                             and c.ast.name == n.ast.name and getattr(c, "parent", None) is getattr(n, "parent", None)],
                            key=lambda c: pos[id(c)])
            if len(clones) != len(gl) * len(group):
                self.skipped += 1
                continue
            for gi, m in enumerate(group):
                mine = clones[gi * len(gl):(gi + 1) * len(gl)]
                self.lines.append("gtargets %d %d %s %s" % (pos[id(m)], pos[id(mine[0])], feat(m.ast.params),
                                                            " ".join(feat(g.decls) for g in m.fortran_generic)))
                self.expect.append(("gtargets", "%s:%s%s" % (tag, m.declgen or m.decl, " (default-argument clone)" if m is not n or same and m._generated == "has_default_arg" else ""),
                                    [c._PTR_F_C_index for c in mine], None))
                if len(group) > 1:
                    self.n_dflt_generic = getattr(self, "n_dflt_generic", 0) + 1
        # ---- bind(C) interface attributes: PURE prefix; C-side dereference fields of every parameter
        for _m, cls, n in fns:
            if not n.wrap.c:
                continue
            ast = n.ast
            rtm = ast.typemap
            rsuf = n.result_suffix if getattr(n, "result_suffix", None) is not None else n.generated_suffix
            hd = [int(ast.get_subprogram() == "function"), int(bool(ast.attrs["pure"])), int(bool(ast.func_const)),
                  int(rtm.base == "shadow"), it(rtm.sgroup), it(ast.get_indirect_stmt()), it(rsuf)]
            ints = ",".join(str(it(a.metaattrs["intent"])) for a in ast.params) or "-"
            real = _scope_get(n.fmtdict, "F_C_pure_clause", "")
            if "F_C_pure_clause" not in (n.options or {}):
                self.lines.append("pure %s %s %s" % (lang, ",".join(map(str, hd)), ints))
                self.expect.append(("pure", "%s:%s" % (tag, n.declgen or n.decl), "1" if real.strip() == "pure" else "0",
                                    (bool(ast.func_const), bool(ast.attrs["pure"]))))
            for a in ast.params:
                fc = n._fmtargs.get(a.name, {}).get("fmtc")
                if fc is None or not fc.inlocal("c_addr"):
                    continue
                self.lines.append("cderef %s - %d" % (lang, int(bool(a.is_indirect()))))
                self.expect.append(("cderef", "%s:%s:%s" % (tag, n.declgen or n.decl, a.name),
                                    "%d%d%d" % (int(fc.c_deref == "*"), int(fc.c_member == "->"), int(fc.c_addr == "&")),
                                    (a.typemap.sgroup, a.get_indirect_stmt())))
        # ---- the VALUE attribute of every declared parameter (fortran_generic lists included) as check_arg_attrs left it
        for vnode, a, (assumed, given, intent_given), after in _holder.get("value", []):
            try:
                tmname = a.typemap.name
                ind, nptr, arr = bool(a.is_indirect()), len(a.declarator.pointer), bool(a.array)
            except Exception:
                self.skipped += 1
                continue
            if given not in (None, True, False):
                self.skipped += 1
                continue
            icode = {None: 0, "in": 40, "out": 41, "inout": 42}.get(intent_given.lower() if isinstance(intent_given, str) else intent_given, 0)
            self.lines.append("value %d,%d,%d,%d,%d,%d,%d,%d" % (int(assumed), {None: 0, False: 1, True: 2}[given], int(ind),
                                                              int(tmname == "void"), nptr, int(arr), int(bool(a.const)), icode))
            self.expect.append(("value", "%s:%s:%s" % (tag, getattr(vnode, "declgen", None) or getattr(vnode, "decl", None) or "?", a.name),
                                {None: "-", True: "1", False: "0", "raise": "raise"}.get(after, repr(after)),
                                "%s%s%s%s" % ("const " if a.const else "", tmname if tmname == "void" else "T", "*" * nptr if ind else ("[]" if arr else ""),
                                              " +intent(%s)" % intent_given if intent_given else "")))
        _holder["value"] = []
        # ---- preprocessor guards of the written generic interfaces: block guard and per-member guard vs the model
        # (members and their node_cpp_if are taken from the real nodes; membership itself is tied below)
        byimpl = {}
        for _m, _c, n in fns:
            if n.wrap.fortran:
                byimpl.setdefault(str(getattr(n.fmtdict, "F_name_impl", "")).lower(), []).append(n)
        for fn in sorted(os.listdir(outdir)):
            if not (fn.endswith(".f") or fn.endswith(".f90") or fn.endswith(".F")):
                continue
            for gname, (block, members) in sorted(parse_iface_guards(open(os.path.join(outdir, fn)).read()).items()):
                nodes = [byimpl.get(p, [None])[0] if len(byimpl.get(p, [])) == 1 else None for p, _g in members]
                if any(x is None for x in nodes):
                    continue
                gid = lambda g: 0 if not g else self.tn("cpp:" + g)
                real_guards = [x.cpp_if or getattr(x.parent, "cpp_if", None) for x in nodes]
                self.lines.append("ifguards " + ",".join(str(gid(g)) for g in real_guards))
                self.expect.append(("ifguards", "%s:interface %s" % (tag, gname),
                                    (gid(block), [gid(g) for _p, g in members]), any(real_guards)))
        # ---- assumed-rank variants: one fortran_generic entry per rank F_assumed_rank_min..F_assumed_rank_max
        for n in index:
            gl = n.fortran_generic
            if not isinstance(gl, list) or not gl or n._PTR_C_CXX_index is not None or n._generated == "has_default_arg":
                continue
            rk = [re.fullmatch(r"_(\d+)d", str(g.function_suffix)) for g in gl]
            if not all(rk) or not any(a.metaattrs["assumed-rank"] for a in n.ast.params):
                continue
            self.lines.append("ranks %d %d" % (n.options.F_assumed_rank_min, n.options.F_assumed_rank_max))
            self.expect.append(("ranks", "%s:%s" % (tag, n.declgen or n.decl), [int(m.group(1)) for m in rk], None))
        # ---- generic interfaces: model over nodes in emission order
        emis = [n for _m, _c, n in fns]
        if emis and all(id(n) in pos for n in emis):
            self.lines.append("generics " + " ".join(",".join(map(str, tab[pos[id(n)]])) for n in emis))
            real = []
            for fn in sorted(os.listdir(outdir)):
                if fn.endswith(".f") or fn.endswith(".f90") or fn.endswith(".F"):
                    real += parse_generic_interfaces(open(os.path.join(outdir, fn)).read())
            self.expect.append(("generics", tag, sorted(real), (keyid, emis)))

    def finish(self):
        ctx = self.ctx
        out = common.Driver("drv_wrapf").run(self.lines)
        bad = []
        n_asm = n_route = n_gen = 0
        for line, got, (kind, tag, exp, extra) in zip(self.lines, out, self.expect):
            ctx.count(1)
            if kind == "asm":
                n_asm += 1
                exp_fargs, exp_acts, exp_matched = exp
                parts = got.split(" ")
                if len(parts) != 3:
                    bad.append({"kind": kind, "fn": tag, "driver": got})
                    continue
                m_fargs = [] if parts[0] == "-" else [int(x) for x in parts[0].split(",")]
                m_acts = norm_model_actuals(parts[1], None, extra)
                m_matched = []
                for mm in parts[2].split(";"):
                    a, b = mm.split(">")
                    da = [int(x) for x in a.split(",") if x != "-" and int(x) != 0] if a != "-" else []
                    db = [int(x) for x in b.split(",")] if b != "-" else []
                    m_matched.append((da, db))
                em = [(a, b) for a, b in exp_matched]
                diffs = {}
                if m_fargs != exp_fargs:
                    diffs["F_arguments"] = {"model": m_fargs, "real": exp_fargs}
                if m_acts != exp_acts:
                    diffs["F_arg_c_call"] = {"model": m_acts, "real": exp_acts}
                if [(list(a), list(b)) for a, b in m_matched] != [(list(a or []), list(b or [])) for a, b in em]:
                    diffs["statements"] = {"model": m_matched, "real": em}
                if diffs:
                    bad.append({"kind": kind, "fn": tag, "diff": diffs})
                if len(exp_acts) > 1 or len(exp_matched) > 2:
                    ctx.nontrivial(("asm", parts[1], parts[2]))
            elif kind == "route":
                n_route += 1
                fccall, i = exp
                pre, index = extra
                c, cxx = [int(x) for x in got.split(" ")]
                if fccall is not None and pre.get(c) != fccall:
                    bad.append({"kind": kind, "fn": tag, "model_C_index": c, "model_F_C_name": pre.get(c), "real_F_C_call": fccall})
                if c != i:
                    ctx.nontrivial(("route", tag))
                    first = index[i]._PTR_F_C_index
                    if first is not None and first != c:
                        self.n_multihop = getattr(self, "n_multihop", 0) + 1
            elif kind == "implied":
                self.n_implied = getattr(self, "n_implied", 0) + 1
                form, variant = extra
                self.implied_forms = getattr(self, "implied_forms", {})
                key = "%s x %s" % ({"s": "size", "l": "len", "t": "len_trim", "y": "type", "T": "true", "F": "false"}.get(form, "arithmetic/other"), variant)
                self.implied_forms[key] = self.implied_forms.get(key, 0) + 1
                if got != exp:
                    bad.append({"kind": kind, "fn": tag, "model": got, "real": exp})
                ctx.nontrivial(("implied", form, variant, got))
            elif kind == "pure":
                self.n_pure = getattr(self, "n_pure", 0) + 1
                self.pure_dist = getattr(self, "pure_dist", {})
                k = "%s%s -> %s" % ("const " if extra[0] else "", "+pure" if extra[1] else "", "PURE" if exp == "1" else "not pure")
                self.pure_dist[k.strip()] = self.pure_dist.get(k.strip(), 0) + 1
                if got != exp:
                    bad.append({"kind": kind, "fn": tag, "model_pure": got, "emitted_pure": exp})
                if exp == "1" or extra[0] or extra[1]:
                    ctx.nontrivial(("pure", tag))
            elif kind == "cderef":
                self.n_cderef = getattr(self, "n_cderef", 0) + 1
                self.cderef_dist = getattr(self, "cderef_dist", {})
                k = "%s %s" % extra
                self.cderef_dist[k] = self.cderef_dist.get(k, 0) + 1
                if got != exp:
                    bad.append({"kind": kind, "arg": tag, "model_deref_member_addr": got, "real": exp})
            elif kind == "value":
                self.n_value = getattr(self, "n_value", 0) + 1
                self.value_dist = getattr(self, "value_dist", {})
                k = "%s -> %s" % (extra, {"1": "VALUE", "-": "by reference", "0": "value(false)"}.get(exp, exp))
                self.value_dist[k] = self.value_dist.get(k, 0) + 1
                if got != exp:
                    bad.append({"kind": kind, "arg": tag, "spelling": extra, "model_value_attr": got, "real_value_attr": exp})
                if "void" in extra:
                    ctx.nontrivial(("value", extra))
            elif kind == "ifguards":
                self.n_ifg = getattr(self, "n_ifg", 0) + 1
                b, ms = got.split(" ")
                model = (int(b), [] if ms == "-" else [int(x) for x in ms.split(",")])
                if model != (exp[0], exp[1]):
                    bad.append({"kind": kind, "fn": tag, "model_block_and_member_guards": model, "written": exp})
                if extra:
                    self.n_ifg_guarded = getattr(self, "n_ifg_guarded", 0) + 1
                    ctx.nontrivial(("ifguards", tag))
            elif kind == "ranks":
                self.n_ranks = getattr(self, "n_ranks", 0) + 1
                model = [] if got == "-" else [int(x) for x in got.split(",")]
                if model != exp:
                    bad.append({"kind": kind, "fn": tag, "model_ranks": model, "real_fortran_generic_ranks": exp})
                ctx.nontrivial(("ranks", tuple(exp)))
            elif kind == "gtargets":
                self.n_gt = getattr(self, "n_gt", 0) + 1
                model = [] if got == "-" else [int(x) for x in got.split(",")]
                if model != exp:
                    bad.append({"kind": kind, "fn": tag, "model_PTR_F_C_index": model, "real_PTR_F_C_index": exp})
                if len(set(exp)) > 1:
                    ctx.nontrivial(("gtargets", tag))
            elif kind == "generics":
                n_gen += 1
                keyid, emis = extra
                inv = {v: k for k, v in keyid.ids.items()}
                model = []
                if got != "-":
                    for g in got.split(";"):
                        k, mem = g.split(":")
                        kk = inv[int(k)]
                        members = [emis[int(x)] for x in mem.split(",")]
                        if kk[0] == "i":
                            model.append(("i", kk[2].lower(), tuple(m.fmtdict.F_name_impl.lower() for m in members)))
                        else:
                            for m in members:
                                model.append(("g", kk[2].lower(), (m.fmtdict.F_name_function.lower(),)))
                model.sort()
                if model != exp:
                    bad.append({"kind": kind, "lib": tag, "model": model, "real": exp})
                if model:
                    ctx.nontrivial(("generics", tag))
        return bad, {"assembled_functions": n_asm, "routes": n_route, "generic_tables": n_gen, "generic_clone_routings": getattr(self, "n_gt", 0),
                     "multi_hop_routes": getattr(self, "n_multihop", 0),
                     "interface_pure_checks": getattr(self, "n_pure", 0), "interface_pure_distribution": getattr(self, "pure_dist", {}),
                     "c_deref_checks": getattr(self, "n_cderef", 0),
                     "c_deref_struct_arguments": {k: v for k, v in getattr(self, "cderef_dist", {}).items() if k.startswith("struct")},
                     "value_attr_checks": getattr(self, "n_value", 0),
                     "value_attr_void_spellings": {k: v for k, v in getattr(self, "value_dist", {}).items() if "void" in k},
                     "generic_interface_guard_checks": getattr(self, "n_ifg", 0), "of_them_with_a_cpp_if": getattr(self, "n_ifg_guarded", 0),
                     "assumed_rank_ranges": getattr(self, "n_ranks", 0),
                     "implied_expressions": getattr(self, "n_implied", 0), "implied_forms": getattr(self, "implied_forms", {}),
                     "generic_routings_of_default_argument_clones": getattr(self, "n_dflt_generic", 0), "skipped": self.skipped,
                     "f_entries_reached": sorted(x for x in self.entries_f if x), "c_entries_reached": sorted(x for x in self.entries_c if x)}
