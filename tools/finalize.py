"""Final consistency pass (lead only): regenerate MANIFEST.json, run every claimed check (quick) on /repo so the
committed evidence comes from this tree, validate evidence and manifest against the schemas (python3-vt has
jsonschema), and list open known findings that no run reported (stale entries)."""
import json
import os
import subprocess
import sys

VERIF = os.path.dirname(os.path.dirname(os.path.abspath(__file__)))


def main():
    tier = sys.argv[1] if len(sys.argv) > 1 else "quick"
    subprocess.check_call(["/venv/bin/python", os.path.join(VERIF, "tools", "mkmanifest.py")],
                          env=dict(os.environ, PYTHONPATH=VERIF + ":/repo"))
    m = json.load(open(os.path.join(VERIF, "MANIFEST.json")))
    seen = {}
    bad = []
    jobs = int(os.environ.get("FINALIZE_JOBS", "1"))   # FINALIZE_JOBS=4: run that many checks at a time
    from concurrent.futures import ThreadPoolExecutor

    def one(c):
        return subprocess.run([os.path.join(VERIF, "check"), c["property_id"], "--tier", tier], cwd=VERIF,
                              stdout=subprocess.PIPE, stderr=subprocess.STDOUT, text=True)
    with ThreadPoolExecutor(max_workers=jobs) as ex:
        results = list(ex.map(one, m["checks"]))
    for c, p in zip(m["checks"], results):
        pid = c["property_id"]
        last = [l for l in p.stdout.split("\n") if l.startswith(pid + " ")]
        print(pid, "rc=%d" % p.returncode, last[-1] if last else p.stdout[-300:])
        if p.returncode != 0:
            bad.append(pid)
        ev = json.load(open(os.path.join(VERIF, c["evidence_file"])))
        seen[pid] = set(ev.get("known_findings_seen", []))
    kf = json.load(open(os.path.join(VERIF, "known_findings.json")))
    stale = [(f["property"], f.get("key", f.get("key_prefix"))) for f in kf["findings"]
             if f["status"] == "open" and f.get("key", f.get("key_prefix")) not in seen.get(f["property"], set())]
    print("open findings not reported by the %s runs (stale or tier-specific):" % tier)
    for s in stale:
        print("  ", s)
    v = subprocess.run(["python3-vt", "-c", """
import json, jsonschema, glob
jsonschema.validate(json.load(open('MANIFEST.json')), json.load(open('/root/.vp/MANIFEST.schema.json')))
sch = json.load(open('/root/.vp/EVIDENCE.schema.json'))
for p in sorted(glob.glob('evidence/*.json')):
    jsonschema.validate(json.load(open(p)), sch)
print('manifest and evidence valid')
"""], cwd=VERIF, stdout=subprocess.PIPE, stderr=subprocess.STDOUT, text=True)
    print(v.stdout.strip()[-400:])
    print("FAILED:", bad)
    return 1 if bad else 0


if __name__ == "__main__":
    sys.exit(main())
