"""Lead helper for rounds of independently seeded changes.
  python3 tools/seedround.py prepare r3 C01 C02 ...   -> /tmp/seedwt-r3-<P> worktrees + /tmp/seed-r3-<P>/property.txt
  python3 tools/seedround.py collect r3 C01 C02 ...   -> copy into seeded/<P>-r3-N, remove worktrees, run seedtest, record first_run
"""
import glob
import json
import os
import shutil
import subprocess
import sys

VERIF = os.path.dirname(os.path.dirname(os.path.abspath(__file__)))


def props():
    return {json.loads(l)["id"]: json.loads(l) for l in open(os.path.join(VERIF, "properties.jsonl"))}


def prepare(rnd, ids):
    P = props()
    kf = json.load(open(os.path.join(VERIF, "known_findings.json")))
    for pid in ids:
        wt, od = "/tmp/seedwt-%s-%s" % (rnd, pid), "/tmp/seed-%s-%s" % (rnd, pid)
        subprocess.call(["git", "-C", "/repo", "worktree", "remove", "--force", wt], stderr=subprocess.DEVNULL)
        shutil.rmtree(od, ignore_errors=True)
        subprocess.check_call(["git", "-C", "/repo", "worktree", "add", "-q", "--detach", wt, "HEAD"])
        os.makedirs(od)
        d = P[pid]
        txt = "%s: %s\n\nSTATEMENT: %s\n\nQUANTIFIER: %s\n\nMECHANISM ANCHORS: %s\n" % (
            d["id"], d["title"], d["statement"], d["quantifier"]["text"], json.dumps(d["anchors"]["mechanism"], indent=1))
        plain = os.environ.get("SEED_PLAIN") == "1"   # round 6: the property text only, nothing derived from /verif
        if not plain:
            txt += "\nALREADY EXPLORED in earlier rounds (do something DIFFERENT in mechanism and trigger):\n"
        for m in [] if plain else sorted(glob.glob(os.path.join(VERIF, "seeded", pid + "-*", "meta.json"))):
            mm = json.load(open(m))
            txt += " - %s (needs: %s)\n" % (str(mm.get("what_changed"))[:260].replace("\n", " "), str(mm.get("needs_to_manifest"))[:160].replace("\n", " "))
        opens = [f for f in kf["findings"] if f["property"] == pid and f["status"] == "open"]
        if opens and not plain:
            txt += "\nKNOWN, ALREADY ACCEPTED LIMITATIONS of the unchanged code (do NOT use these as your breakage):\n"
            for f in opens:
                txt += " - %s\n" % str(f.get("what", f.get("key", "")))[:300].replace("\n", " ")
        try:
            hint = json.load(open(os.path.join(VERIF, "tools", "seedhints.json"))).get(pid)
        except Exception:  # noqa
            hint = None
        if hint and not plain:
            txt += "\nHINT: %s Choose a code path that none of the changes listed above touched.\n" % hint
        open(os.path.join(od, "property.txt"), "w").write(txt)
        base = subprocess.check_output(["git", "-C", "/repo", "rev-parse", "--short", "HEAD"], text=True).strip()
        open(os.path.join(od, "BASE"), "w").write(base)
        print("prepared", pid, wt, od, base)


def outcome(res, prop):
    c = (res.get("checks") or {}).get(prop) or {}
    lines = " ".join(c.get("lines", []))
    if c.get("rc") == 2:
        return "error"
    if "VIOLATION" in lines and "no-failing-input-found" in lines:
        return "nffi"
    if "VIOLATION" in lines:
        return "detected"
    return "missed" if c.get("rc") == 0 else "rc=%s" % c.get("rc")


def collect(rnd, ids):
    first = json.load(open(os.path.join(VERIF, "seeded", "first_run.json")))
    for pid in ids:
        wt, od = "/tmp/seedwt-%s-%s" % (rnd, pid), "/tmp/seed-%s-%s" % (rnd, pid)
        for i in (1, 2, 3):
            src = os.path.join(od, str(i))
            if not os.path.exists(os.path.join(src, "patch.diff")):
                print("missing", src)
                continue
            dst = os.path.join(VERIF, "seeded", "%s-%s-%d" % (pid, rnd, i))
            os.makedirs(dst, exist_ok=True)
            for f in os.listdir(src):
                if f in ("patch.diff", "meta.json") or f.startswith("demo."):
                    shutil.copy(os.path.join(src, f), dst)
            try:
                base = open(os.path.join(od, "BASE")).read().strip()
                mp = os.path.join(dst, "meta.json")
                mm = json.load(open(mp))
                mm.setdefault("base_commit", base)
                json.dump(mm, open(mp, "w"), indent=1)
            except Exception as e:  # noqa
                print("no base commit recorded for", dst, e)
        subprocess.call(["git", "-C", "/repo", "worktree", "remove", "--force", wt], stderr=subprocess.DEVNULL)
        shutil.rmtree(od, ignore_errors=True)
    for pid in ids:
        for i in (1, 2, 3):
            name = "%s-%s-%d" % (pid, rnd, i)
            dst = os.path.join(VERIF, "seeded", name)
            if not os.path.isdir(dst):
                continue
            subprocess.call(["/venv/bin/python", "-m", "tools.seedtest", dst, "--props", pid], cwd=VERIF,
                            env=dict(os.environ, PYTHONPATH=VERIF), stdout=subprocess.DEVNULL, stderr=subprocess.DEVNULL)
            res = json.load(open(os.path.join(dst, "result.json")))
            o = outcome(res, pid)
            if name not in first:
                first[name] = o
            print(name, "pinned:", res.get("pinned_tests"), "demo:", res.get("demo_without_patch_rc"), "->", res.get("demo_with_patch_rc"), "check:", o)
    cur = json.load(open(os.path.join(VERIF, "seeded", "first_run.json")))  # merge: another collect may have run meanwhile
    for k, v in first.items():
        cur.setdefault(k, v)
    json.dump(cur, open(os.path.join(VERIF, "seeded", "first_run.json"), "w"), indent=1)


if __name__ == "__main__":
    {"prepare": prepare, "collect": collect}[sys.argv[1]](sys.argv[2], sys.argv[3:])
