"""Translator for property C16: AST scan of shroud/*.py (current working tree) for every statement
that executes under a documentation/debug option, regenerated into lean/ShroudVerif/Gen/Guards.lean.

Options: options.debug, options.debug_index, options.doxygen, options.literalinclude (declaration
level; literalinclude2 is a different option and is not scanned), show_splicer_comments,
write_version.  Local aliases (`debug = self.newlibrary.options.debug`) and boolean flags that are
set under such a guard (`literalinclude = True`) count as the option.

Table 1 `guardedStmts`: every statement in the body / else branch of an `if` whose test mentions
one of the options, and every statement of the comment-only emitters these branches call
(write_doxygen, write_doxygen_file, document_stmts), with a class:
  0 comment-append   X.append/insert/extend/append_format of a template that is blank or starts with the
                     language's comment leader (literal leader, self.comment, self.doxygen_*, cstart/...)
  1 comment-list     X.extend(stmts_comments...) : a list that only ever receives class-0 text (checked: table 3)
  2 emitter          call of write_doxygen / write_doxygen_file / document_stmts / a local helper of an emitter
  3 local-temp       assignment to a local name that is read only inside option-guarded blocks, from a call-free
                     expression or a known printing method (gen_decl, join, format, split, ...)
  4 flag             assignment of a constant to a local name that is read only in `if` tests (becomes a guard itself);
                     break/continue of a loop whose whole body is one guarded `if` holding only such assignments
  5 control          nested if / for / pass whose statements are listed separately
  6 option-set       assignment to the option attribute itself (config.write_version = ...); every use is in table 2
  7 allow-listed     see ALLOW below: justified by hand, discharged by the differential check of tools/props/c16.py
  9 OTHER            anything else, and anything this translator cannot classify
Table 2 `optionUses`: every read of one of the option attributes / aliases: 0 inside an `if` test (guard),
  1 alias assignment, 2 argument of a comment template, 3 allow-listed, 9 OTHER.
Table 3 `commentListWrites`: every append/extend to a list named stmts_comments*: 0 comment text and under a
  debug guard or inside an emitter, 9 OTHER.
Table 4 `fileDecisionAppends`: a comment appended to a list that is also tested for emptiness (`if self.impl:
  write_file = True`) is not comment-only in effect: it can make a file appear.  Every option-guarded append (and
  every `_create_splicer(name, X)` call, which appends marker comments to X under show_splicer_comments) whose
  target list is truth-tested anywhere in the same file: 0 dominated (the statement list that holds the outermost
  guard also appends to the same list unconditionally, so the list is non-empty either way), 7 allow-listed, 9 OTHER.
Table 5 `writeVersionReads`: every read of `config.write_version` (the version text set from --write-version /
  --nowrite-version): 0 inside util.write_output_file (second header line, a comment: theorem
  Shroud.Lines.wof_header_then_body of Props/C13.lean) or main.dump_jsonfile (JSON log), 9 anywhere else.
Table 6 `commentDynamicParts`: the line writer folds a line at TAB / FORM FEED and starts a new one at a newline, and
  the continuation is not a comment; so every dynamic part spliced into a guarded comment template (format field,
  operand of +, argument of % / .format) is listed: 0 when it is on the SAFE lists below (identifiers, statement
  names, printed declarations without continuation hints, user text that the enclosing function first strips of
  tab / form feed and splits at newlines - that is checked on the AST), 9 otherwise; a literal template that itself
  contains a tab, form feed or carriage return is 9 too.
The Lean theorem says that no row of any table has class 9.

Assumption recorded by the check (not provable from the AST): dynamic text spliced into a comment template
(declaration text, statement names, splicer names) contains no newline.  write_doxygen splits user text at
newlines itself.
"""
import ast
import os

from tools import common

OPTS = ["debug", "debug_index", "doxygen", "literalinclude", "show_splicer_comments", "write_version", "emitter"]
OPT_ATTRS = set(OPTS[:6])
EMITTERS = {"write_doxygen", "write_doxygen_file", "document_stmts"}
PURE_METHODS = {"gen_decl", "join", "format", "split", "replace", "pop", "endswith", "startswith", "keys", "get"}
PURE_FUNCS = {"str", "len", "dict", "wformat", "sorted"}
LEADER_ATTRS = {"comment", "doxygen_begin", "doxygen_cont", "doxygen_end"}     # self.<x>
LEADER_NAMES = {"cstart": "// start ", "cend": "// end ", "fstart": "! start ", "fend": "! end "}
C_LEADERS = ("//", "/*", " *", "*/")
F_LEADERS = ("!",)
CLS = {"comment-append": 0, "comment-list": 1, "emitter": 2, "local-temp": 3, "flag": 4, "control": 5,
       "option-set": 6, "allow": 7, "OTHER": 9}
USE = {"guard": 0, "alias": 1, "comment-arg": 2, "allow": 3, "OTHER": 9}

# ---------------------------------------------------------------------------------------------------
# Allow-list.  (file, function, source text of the statement as printed by ast.unparse) -> justification.
# Each entry is a statement that is not a comment append by form but cannot change a token; the
# differential check (real outputs with the option on and off, judged by the Lean checker) discharges it.
ALLOW = {
    # Library-level literalinclude is excluded from the property (documented: it regroups Fortran
    # interface blocks through literalinclude2).  This line is in LibraryNode.__init__ and is reached
    # for the library's own option dictionary only, never for a declaration.
    ("ast.py", "__init__", "self.options.literalinclude2 = True"):
        "library-level literalinclude implies literalinclude2: excluded by the property",
    # todict.py writes the JSON dump (<library>.json), which is a log of the run, not a wrapper source.
    ("todict.py", "visit_FunctionNode", "add_non_none_fields(node, d, [..."):
        "JSON dump of the run only",
    # wrapl.py wrap_function: `for node in overloads:` under the debug / doxygen guard rebinds the local name
    # `node`.  After the two guarded loops `node` is read only by the test `node.options.doxygen` (whose body is
    # comment-only), so the rebinding can move doxygen comments between overloads but cannot change code.
    ("wrapl.py", "wrap_function", "for node in overloads:\n    body.append('// ' + node.declgen)"):
        "rebinds `node`; later read only by the doxygen guard",
    ("wrapl.py", "wrap_function",
     "for node in overloads:\n    if node.doxygen:\n        self.write_doxygen(body, node.doxygen)"):
        "rebinds `node`; not read afterwards",
    # whelpers.py add_shadow_helper: lstart/lend are spliced into the helper source as
    # "\n{lstart}// helper ..." and "...{cpp_endif}{lend}"; lstart ends with a newline and lend starts with one,
    # both are otherwise a `// start|end struct <name>` comment; the else branch sets both to "".
    ("whelpers.py", "add_shadow_helper", "lstart = '{}struct {}\\n'.format(cstart, cname)"):
        "complete comment line spliced at a line start of the helper source",
    ("whelpers.py", "add_shadow_helper", "lend = '\\n{}struct {}'.format(cend, cname)"):
        "newline + comment spliced at a line end of the helper source",
    ("whelpers.py", "add_shadow_helper", "lstart = ''"): "empty text",
    ("whelpers.py", "add_shadow_helper", "lend = ''"): "empty text",
    # document_stmts: gen_attrs prints the attributes of the declaration into the local list `decl`.
    ("util.py", "document_stmts", "ast.gen_attrs(ast.metaattrs, decl, dict(dimension=True, struct_member=True))"):
        "fills the local list decl with attribute text; does not modify ast",
}
# Format fields allowed inside comment templates: generated names (identifiers).
SAFE_FIELDS = {"C_name", "F_name_impl", "F_C_name"}
# Terminal names of dynamic operands allowed in comment templates, with the reason.
SAFE_DYNAMIC = {
    "gen_decl": "declaration printed from the parsed AST, tokens joined by blanks; tabs only with continuation=True (checked: keyword absent)",
    "declgen": "node.ast.gen_decl() saved by generate.py",
    "join": "' - '.join(generated) / ''.join(decl): generated-suffix names, printed attributes",
    "stmt0": "statement name (underscore-joined identifiers)", "stmt1": "statement name",
    "name": "statement / node / splicer name (identifier)", "nodename": "node kind", "splicer_path": "dotted identifiers",
    "category": "key of a fixed list of three literals", "fname": "output file name", "key": "interface name (identifier)",
    "F_derived_name": "generated name", "PY_PyObject": "generated name", "PY_struct_array_descr_create": "generated name",
    "_function_index": "integer", "prefix": "literal argument of the local helper add_text",
    "lines": "user text after sanitising (checked: the function replaces TAB and FF and splits at newlines)",
    "line": "element of lines",
}

ALLOW_USE = {
    # __NOTICE__ entry of the JSON dump (<library>.json), a log of the run, not a wrapper source
    ("main.py", "dump_jsonfile"): "JSON dump of the run only",
}


def allowed(fname, fn, text):
    if (fname, fn, text) in ALLOW:
        return True
    for (f, g, t) in ALLOW:
        if f == fname and g == fn and t.endswith("...") and text.startswith(t[:-3]):
            return True
    return False


def _parents(tree):
    for n in ast.walk(tree):
        for c in ast.iter_child_nodes(n):
            c._parent = n


def opt_of_attr(n):
    if isinstance(n, ast.Attribute) and n.attr in OPT_ATTRS:
        if n.attr == "doxygen":
            v = n.value
            base = v.attr if isinstance(v, ast.Attribute) else v.id if isinstance(v, ast.Name) else None
            if base != "options":
                return None     # node.doxygen is the documentation dictionary, not the option
        return n.attr
    return None


def enclosing_func(n):
    while n is not None and not isinstance(n, (ast.FunctionDef, ast.Lambda)):
        n = getattr(n, "_parent", None)
    return n


def enclosing_stmt(n):
    while n is not None and not isinstance(n, ast.stmt):
        n = getattr(n, "_parent", None)
    return n


def in_if_test(n):
    """is expression node n inside the test of an `if` statement (or `elif`)"""
    c = n
    while c is not None and not isinstance(c, ast.stmt):
        p = getattr(c, "_parent", None)
        if isinstance(p, ast.If) and p.test is c:
            return p
        c = p
    return None


class FileScan:
    def __init__(self, fname, src):
        self.fname = fname
        self.tree = ast.parse(src)
        _parents(self.tree)
        self.leaders = F_LEADERS if fname == "wrapf.py" else C_LEADERS
        self.rows = []      # (opt, line, cls, text)
        self.uses = []      # (opt, line, kind, text)
        self.clist = []     # (line, cls, text)
        self.fdec = []      # (line, cls, text)   appends to lists that decide whether a file is written
        self.wv = []        # (line, cls, text)   reads of config.write_version
        self.dyn = []       # (line, cls, text)   dynamic parts of comment templates
        self.decision = set()
        self.aliases = {}   # (func node, name) -> opt

    # ---------------------------------------------------------------- comment expressions
    def is_leader_start(self, e):
        if isinstance(e, ast.Constant) and isinstance(e.value, str):
            return e.value.startswith(self.leaders) and "\n" not in e.value
        if isinstance(e, ast.Attribute) and e.attr in LEADER_ATTRS and isinstance(e.value, ast.Name) and e.value.id == "self":
            return True
        if isinstance(e, ast.Name) and e.id in LEADER_NAMES:
            return True
        return False

    def const_ok(self, s):
        return all(l.strip() == "" or l.startswith(self.leaders) or l.lstrip().startswith(self.leaders[0])
                   for l in s.split("\n"))

    def cexpr(self, e):
        """e evaluates to text that is blank or one comment line (given newline-free dynamic parts)"""
        if isinstance(e, ast.Constant) and isinstance(e.value, str):
            return self.const_ok(e.value)
        if self.is_leader_start(e):
            return True
        if isinstance(e, ast.BinOp) and isinstance(e.op, ast.Add):
            parts = []
            while isinstance(e, ast.BinOp) and isinstance(e.op, ast.Add):
                parts.append(e.right)
                e = e.left
            parts.append(e)
            parts.reverse()
            if any(isinstance(p, ast.Constant) and isinstance(p.value, str) and "\n" in p.value for p in parts):
                return False
            return self.cexpr(parts[0]) and not (isinstance(parts[0], ast.Constant) and parts[0].value.strip() == "")
        if isinstance(e, ast.BinOp) and isinstance(e.op, ast.Mod):
            t = e.left
            if isinstance(t, ast.BinOp):      # (self.doxygen_cont + " \\file %s") % fname  does not occur; be strict
                return False
            if isinstance(t, ast.Constant) and isinstance(t.value, str) and "\n" not in t.value:
                if t.value.startswith(self.leaders):
                    return True
                if t.value.startswith("%s"):
                    first = e.right.elts[0] if isinstance(e.right, ast.Tuple) and e.right.elts else e.right
                    return self.is_leader_start(first)
            return False
        if (isinstance(e, ast.Call) and isinstance(e.func, ast.Attribute) and e.func.attr == "format"
                and isinstance(e.func.value, ast.Constant) and isinstance(e.func.value.value, str)):
            t = e.func.value.value
            if "\n" in t.rstrip("\n") or t.count("\n") > 1:
                return False
            if t.startswith(self.leaders):
                return True
            return t.startswith("{}") and bool(e.args) and self.is_leader_start(e.args[0])
        return False

    # ---------------------------------------------------------------- helpers
    def mentions(self, expr, func):
        """options mentioned by an expression (attributes and aliases)"""
        found = []
        for n in ast.walk(expr):
            o = opt_of_attr(n)
            if o:
                found.append(o)
            elif isinstance(n, ast.Name) and (func, n.id) in self.aliases:
                found.append(self.aliases[(func, n.id)])
        return found

    def loads_of(self, func, name):
        return [n for n in ast.walk(func) if isinstance(n, ast.Name) and n.id == name and isinstance(n.ctx, ast.Load)]

    def pure(self, e):
        for n in ast.walk(e):
            if isinstance(n, ast.Call):
                f = n.func
                if isinstance(f, ast.Attribute) and f.attr in PURE_METHODS:
                    continue
                if isinstance(f, ast.Name) and f.id in PURE_FUNCS:
                    continue
                return False
        return True

    def inside_guard(self, n, func):
        """n lies in the body (not the test) of an option-guarded `if` of func, or func is a comment emitter"""
        if isinstance(func, ast.FunctionDef) and (func.name in EMITTERS or getattr(func, "_emitter_local", False)):
            return True
        c = n
        while c is not None and c is not func:
            p = getattr(c, "_parent", None)
            if isinstance(p, ast.If) and p.test is not c and self.mentions(p.test, func):
                return True
            c = p
        return False

    @staticmethod
    def is_comment_list(e):
        name = e.id if isinstance(e, ast.Name) else e.attr if isinstance(e, ast.Attribute) else ""
        return name.startswith("stmts_comments")

    # ---------------------------------------------------------------- dynamic parts of comment templates
    def _sanitises(self, func):
        """func (or the function enclosing a nested helper) replaces TAB and FF by blanks and splits at newlines"""
        got = set()
        for n in ast.walk(func):
            if isinstance(n, ast.Call) and isinstance(n.func, ast.Attribute) and n.args and isinstance(n.args[0], ast.Constant):
                if n.func.attr == "replace" and n.args[0].value in ("\t", "\f"):
                    got.add(n.args[0].value)
                if n.func.attr == "split" and n.args[0].value == "\n":
                    got.add("\n")
        return got == {"\t", "\f", "\n"}

    def _terminal(self, e, func):
        while isinstance(e, ast.Subscript):
            e = e.value
        if isinstance(e, ast.Call):
            f = e.func
            nm = f.attr if isinstance(f, ast.Attribute) else f.id if isinstance(f, ast.Name) else None
            if nm == "gen_decl" and any(k.arg == "continuation" for k in e.keywords):
                return "gen_decl(continuation)"
            return nm
        if isinstance(e, ast.Attribute):
            return e.attr
        if isinstance(e, ast.Name):
            # a local assigned only from calls: the called method's name
            srcs = [n.value for n in ast.walk(func) if isinstance(n, ast.Assign) and len(n.targets) == 1
                    and isinstance(n.targets[0], ast.Name) and n.targets[0].id == e.id]
            if srcs and all(isinstance(v, ast.Call) for v in srcs):
                names = {self._terminal(v, func) for v in srcs}
                if len(names) == 1 and names <= {"gen_decl", "join"}:
                    return names.pop()
            return e.id
        return None

    def dynamic_parts(self, e, st, func, template=False):
        """rows for the dynamic parts of the comment expression e"""
        def row(cls, what):
            self.dyn.append((st.lineno, cls, "%s  in  %s" % (what, ast.unparse(st).split("\n")[0][:70])))

        def part(x):
            if self.is_leader_start(x):
                return
            if isinstance(x, ast.Constant):
                if isinstance(x.value, str) and any(c in x.value for c in "\t\f\r"):
                    row("OTHER", "literal with TAB/FF/CR")
                return
            if isinstance(x, ast.BinOp) or (isinstance(x, ast.Call) and isinstance(x.func, ast.Attribute)
                                            and x.func.attr == "format" and isinstance(x.func.value, ast.Constant)):
                return self.dynamic_parts(x, st, func)
            t = self._terminal(x, func)
            ok = t in SAFE_DYNAMIC
            if ok and t in ("lines", "line"):
                host = func
                ok = self._sanitises(host) or self._sanitises(getattr(host, "_parent", host))
            row("comment-append" if ok else "OTHER", "operand " + (t or ast.unparse(x)[:30]))

        if isinstance(e, ast.Constant) and isinstance(e.value, str):
            if any(c in e.value for c in "\t\f\r"):
                row("OTHER", "literal with TAB/FF/CR")
            if template:
                import re as _re
                for fld in _re.findall(r"\{(\w+)\}", e.value):
                    row("comment-append" if fld in SAFE_FIELDS else "OTHER", "format field {%s}" % fld)
            return
        if isinstance(e, ast.BinOp) and isinstance(e.op, ast.Add):
            part(e.left)
            part(e.right)
            return
        if isinstance(e, ast.BinOp) and isinstance(e.op, ast.Mod):
            part(e.left)
            for a in (e.right.elts if isinstance(e.right, ast.Tuple) else [e.right]):
                part(a)
            return
        if isinstance(e, ast.Call) and isinstance(e.func, ast.Attribute) and e.func.attr == "format":
            part(e.func.value)
            for a in e.args:
                part(a)
            return
        part(e)

    # ---------------------------------------------------------------- lists whose emptiness is tested
    @staticmethod
    def _lname(e):
        while isinstance(e, ast.Subscript):
            e = e.value
        return e.attr if isinstance(e, ast.Attribute) else e.id if isinstance(e, ast.Name) else None

    def collect_decision(self):
        def operands(t):
            if isinstance(t, ast.BoolOp):
                for v in t.values:
                    for x in operands(v):
                        yield x
            elif isinstance(t, ast.UnaryOp) and isinstance(t.op, ast.Not):
                for x in operands(t.operand):
                    yield x
            elif isinstance(t, ast.Compare):
                for x in operands(t.left):
                    yield x
            elif isinstance(t, ast.Call) and isinstance(t.func, ast.Name) and t.func.id == "len" and t.args:
                yield t.args[0]
            elif isinstance(t, (ast.Attribute, ast.Name, ast.Subscript)):
                yield t
        for n in ast.walk(self.tree):
            if isinstance(n, (ast.If, ast.IfExp, ast.While)):
                for o in operands(n.test):
                    nm = self._lname(o)
                    if nm:
                        self.decision.add(nm)

    def target_keys(self, e, func):
        """names under which the list expression e may be truth-tested (its own name, and the attribute a local alias stands for)"""
        keys = set()
        nm = self._lname(e)
        if nm:
            keys.add(nm)
        if isinstance(e, ast.Name):
            for n in ast.walk(func):
                if (isinstance(n, ast.Assign) and len(n.targets) == 1 and isinstance(n.targets[0], ast.Name)
                        and n.targets[0].id == e.id and self._lname(n.value)):
                    keys.add(self._lname(n.value))
        return keys

    @staticmethod
    def append_target(st):
        """list expression an expression statement appends to, or None"""
        if not (isinstance(st, ast.Expr) and isinstance(st.value, ast.Call)):
            return None
        c = st.value
        f = c.func
        if isinstance(f, ast.Attribute) and f.attr in ("append", "extend", "insert"):
            return f.value
        name = f.attr if isinstance(f, ast.Attribute) else f.id if isinstance(f, ast.Name) else None
        if name in ("append_format", "append_format_lst") and c.args:
            return c.args[0]
        if name in EMITTERS and c.args:
            return c.args[0]
        if name == "_create_splicer" and len(c.args) >= 2:
            return c.args[1]
        return None

    def check_decision(self, st, func, guarded=True):
        tgt = self.append_target(st)
        if tgt is None or not isinstance(func, ast.FunctionDef):
            return
        keys = self.target_keys(tgt, func)
        if not (keys & self.decision):
            return
        # outermost option guard around st (for _create_splicer calls: the call itself is the guarded site)
        top = st
        c = st
        while c is not None and c is not func:
            p = getattr(c, "_parent", None)
            if guarded and isinstance(p, ast.If) and p.test is not c and self.mentions(p.test, func):
                top = p
            c = p
        holder = getattr(top, "_parent", None)
        sibs = []
        for fld in ("body", "orelse", "finalbody"):
            lst = getattr(holder, fld, None)
            if isinstance(lst, list) and top in lst:
                sibs = lst
        dominated = False
        for sb in sibs:
            if sb is top:
                continue
            t2 = self.append_target(sb)
            if t2 is not None and self.target_keys(t2, func) & keys:
                f2 = sb.value.func
                n2 = f2.attr if isinstance(f2, ast.Attribute) else f2.id
                if n2 not in EMITTERS and n2 != "_create_splicer":
                    dominated = True
        text = ast.unparse(st).split("\n")[0][:100]
        fn = func.name
        cls = "comment-append" if dominated else ("allow" if allowed(self.fname, fn, "decision:" + ast.unparse(st)) else "OTHER")
        self.fdec.append((st.lineno, cls, "%s [tested list: %s]" % (text, ",".join(sorted(keys & self.decision)))))

    # ---------------------------------------------------------------- statement classification
    def classify(self, st, func, opt, span, local_defs=()):
        """append rows for statement st executed under guard `opt`; span = (first, last) line of the guarded block"""
        text = ast.unparse(st)
        fn = func.name if isinstance(func, ast.FunctionDef) else "<lambda>"

        def row(cls, t=None):
            if cls == "OTHER" and allowed(self.fname, fn, text):
                cls = "allow"
            self.rows.append((opt, st.lineno, cls, (t or text).split("\n")[0][:100]))

        if isinstance(st, ast.Pass):
            return row("control")
        if isinstance(st, (ast.Break, ast.Continue)):
            # leaving a loop under a guard is neutral only for a pure flag search: the loop body is exactly one
            # guarded `if` whose statements are constant flag assignments and this break.  A loop that does any
            # other work (which the break would skip) is class OTHER.
            loop = st
            while loop is not None and not isinstance(loop, (ast.For, ast.While)):
                loop = getattr(loop, "_parent", None)
            pure = (loop is not None and len(loop.body) == 1 and not loop.orelse and isinstance(loop.body[0], ast.If)
                    and bool(self.mentions(loop.body[0].test, func)) and not loop.body[0].orelse
                    and all(isinstance(x, (ast.Break, ast.Continue)) or
                            (isinstance(x, ast.Assign) and len(x.targets) == 1 and isinstance(x.targets[0], ast.Name)
                             and isinstance(x.value, ast.Constant) and isinstance(x.value.value, bool))
                            for x in loop.body[0].body))
            return row("flag" if pure else "OTHER", text + (" (flag-search loop)" if pure else " (loop does other work)"))
        if isinstance(st, ast.If):
            row("control", "if " + ast.unparse(st.test))
            for s in st.body + st.orelse:
                self.classify(s, func, opt, span, local_defs)
            return
        if isinstance(st, ast.For):
            tgt = st.target.id if isinstance(st.target, ast.Name) else None
            later = [n for n in (self.loads_of(func, tgt) if tgt else []) if n.lineno > span[1]]
            if tgt is None or later:
                if allowed(self.fname, fn, text):
                    row("allow")
                else:
                    return row("OTHER", "for rebinding a name read later: " + text)
            else:
                row("control", "for " + ast.unparse(st.target))
            for s in st.body + st.orelse:
                self.classify(s, func, opt, span, local_defs)
            return
        if isinstance(st, ast.FunctionDef):
            row("control", "def " + st.name)
            st._emitter_local = True
            for s in st.body:
                if not (isinstance(s, ast.Expr) and isinstance(s.value, ast.Constant)):
                    self.classify(s, st, opt, (st.lineno, st.end_lineno), local_defs)
            return
        if isinstance(st, ast.Expr) and isinstance(st.value, ast.Constant):
            return row("control", "docstring")
        if isinstance(st, ast.Expr) and isinstance(st.value, ast.Call):
            c = st.value
            f = c.func
            if opt != "emitter":
                self.check_decision(st, func)
            if isinstance(f, ast.Attribute) and f.attr in ("append", "insert") and c.args:
                if self.cexpr(c.args[-1]):
                    self.dynamic_parts(c.args[-1], st, func)
                return row("comment-append" if self.cexpr(c.args[-1]) else "OTHER")
            if isinstance(f, ast.Attribute) and f.attr == "extend" and len(c.args) == 1:
                a = c.args[0]
                if self.is_comment_list(a):
                    return row("comment-list")
                if isinstance(a, ast.List) and all(self.cexpr(x) for x in a.elts):
                    for x in a.elts:
                        self.dynamic_parts(x, st, func)
                    return row("comment-append")
                return row("OTHER")
            name = f.attr if isinstance(f, ast.Attribute) else f.id if isinstance(f, ast.Name) else None
            if name == "append_format" and len(c.args) == 3:
                if self.cexpr(c.args[1]):
                    self.dynamic_parts(c.args[1], st, func, template=True)
                return row("comment-append" if self.cexpr(c.args[1]) else "OTHER")
            if name in EMITTERS or name in local_defs:
                return row("emitter")
            if isinstance(f, ast.Attribute) and f.attr == "pop" and isinstance(f.value, ast.Name) and not c.args:
                # list.pop() on a local temp
                tgt = f.value.id
                if all(span[0] <= n.lineno <= span[1] for n in self.loads_of(func, tgt)):
                    return row("local-temp")
            return row("OTHER")
        if isinstance(st, ast.Assign) and len(st.targets) == 1:
            t = st.targets[0]
            if isinstance(t, ast.Attribute) and t.attr in OPT_ATTRS and t.attr != "doxygen":
                return row("option-set")
            if isinstance(t, ast.Name):
                loads = self.loads_of(func, t.id)
                if isinstance(st.value, ast.Constant) and isinstance(st.value.value, bool):
                    if loads and all(in_if_test(n) is not None for n in loads):
                        return row("flag")
                if all(self.inside_guard(n, func) for n in loads) and self.pure(st.value):
                    return row("local-temp")
            return row("OTHER")
        return row("OTHER")

    # ---------------------------------------------------------------- scan
    def scan(self):
        funcs = [n for n in ast.walk(self.tree) if isinstance(n, ast.FunctionDef)]
        self.collect_decision()
        # aliases: x = <...>.<opt>
        for f in funcs:
            for n in ast.walk(f):
                if (isinstance(n, ast.Assign) and len(n.targets) == 1 and isinstance(n.targets[0], ast.Name)
                        and opt_of_attr(n.value) and enclosing_func(n) is f):
                    self.aliases[(f, n.targets[0].id)] = opt_of_attr(n.value)
        # derived flags: x = True under a guard (iterate to a fixed point)
        changed = True
        while changed:
            changed = False
            for f in funcs:
                for n in ast.walk(f):
                    if isinstance(n, ast.If) and enclosing_func(n) is f:
                        m = self.mentions(n.test, f)
                        if not m:
                            continue
                        for s in ast.walk(n):
                            if (isinstance(s, ast.Assign) and len(s.targets) == 1 and isinstance(s.targets[0], ast.Name)
                                    and isinstance(s.value, ast.Constant) and s.value.value is True
                                    and (f, s.targets[0].id) not in self.aliases):
                                self.aliases[(f, s.targets[0].id)] = m[0]
                                changed = True
        # guards
        for f in funcs:
            for n in ast.walk(f):
                if isinstance(n, ast.If) and enclosing_func(n) is f:
                    m = self.mentions(n.test, f)
                    if not m:
                        continue
                    # an `if` nested in an already guarded body is classified by its parent as well; listing it
                    # twice is harmless
                    body_span = (n.lineno, n.end_lineno)
                    for s in n.body + n.orelse:
                        if isinstance(s, ast.If) and s in n.orelse and self.mentions(s.test, f):
                            continue     # elif with its own guard: scanned on its own
                        self.classify(s, f, m[0], body_span)
        # emitters
        for f in funcs:
            if f.name in EMITTERS:
                local_defs = {s.name for s in f.body if isinstance(s, ast.FunctionDef)}
                for s in f.body:
                    self.classify(s, f, "emitter", (f.lineno, f.end_lineno), local_defs)
        # uses
        for f in funcs + [self.tree]:
            for n in ast.walk(f):
                o = opt_of_attr(n)
                isalias = isinstance(n, ast.Name) and isinstance(f, ast.FunctionDef) and (f, n.id) in self.aliases
                if not o and not isalias:
                    continue
                owner = enclosing_func(n)
                if (owner if owner is not None else self.tree) is not f:
                    continue
                if not isinstance(n.ctx, ast.Load):
                    continue
                o = o or self.aliases[(f, n.id)]
                st = enclosing_stmt(n)
                text = ast.unparse(st).split("\n")[0][:100]
                fn = f.name if isinstance(f, ast.FunctionDef) else "<module>"
                if isinstance(n, ast.Attribute) and isinstance(getattr(n, "_parent", None), ast.Attribute):
                    continue     # x.literalinclude.y : not a read of the option value (does not occur)
                if in_if_test(n) is not None:
                    kind = "guard"
                elif (isinstance(st, ast.Assign) and len(st.targets) == 1 and isinstance(st.targets[0], ast.Name)
                      and st.value is n):
                    kind = "alias"
                elif self.comment_arg(n):
                    kind = "comment-arg"
                elif (self.fname, fn) in ALLOW_USE:
                    kind = "allow"
                else:
                    kind = "OTHER"
                self.uses.append((o, n.lineno, kind, text))
        # _create_splicer(name, X, ...) appends marker comments to X under show_splicer_comments
        for f in funcs:
            for n in ast.walk(f):
                if (isinstance(n, ast.Expr) and isinstance(n.value, ast.Call) and enclosing_func(n) is f
                        and isinstance(n.value.func, ast.Attribute) and n.value.func.attr == "_create_splicer"):
                    self.check_decision(n, f, guarded=False)
        # unguarded extends with a comment list (filled under debug only) have the same effect
        for f in funcs:
            for n in ast.walk(f):
                if (isinstance(n, ast.Expr) and isinstance(n.value, ast.Call) and enclosing_func(n) is f
                        and isinstance(n.value.func, ast.Attribute) and n.value.func.attr == "extend"
                        and len(n.value.args) == 1 and self.is_comment_list(n.value.args[0])
                        and not self.inside_guard(n, f)):
                    self.check_decision(n, f, guarded=False)
        # reads of config.write_version
        for n in ast.walk(self.tree):
            if isinstance(n, ast.Attribute) and n.attr == "write_version" and isinstance(n.ctx, ast.Load):
                v = n.value
                base = v.attr if isinstance(v, ast.Attribute) else v.id if isinstance(v, ast.Name) else None
                if base != "config":
                    continue      # args.write_version is the command line flag, read once in main_with_args (a guard, table 1)
                f = enclosing_func(n)
                fn = f.name if isinstance(f, ast.FunctionDef) else "<module>"
                ok = (self.fname, fn) in (("util.py", "write_output_file"), ("main.py", "dump_jsonfile"))
                self.wv.append((n.lineno, "comment-append" if ok else "OTHER",
                                "%s: %s" % (fn, ast.unparse(enclosing_stmt(n)).split("\n")[0][:90])))
        # comment lists
        for f in funcs:
            for n in ast.walk(f):
                if (isinstance(n, ast.Call) and isinstance(n.func, ast.Attribute) and n.func.attr in ("append", "extend", "insert")
                        and self.is_comment_list(n.func.value) and enclosing_func(n) is f):
                    a = n.args[-1]
                    ok = self.cexpr(a) or self.is_comment_list(a)
                    guarded = f.name in EMITTERS
                    p = n
                    while p is not None and p is not f:
                        if isinstance(p, ast.If) and self.mentions(p.test, f):
                            guarded = True
                        p = getattr(p, "_parent", None)
                    self.clist.append((n.lineno, "comment-append" if ok and guarded else "OTHER",
                                       ast.unparse(n).split("\n")[0][:100]))

    def comment_arg(self, n):
        """n is an argument of `<template>.format(self.comment, ...)` whose template is one comment line"""
        p = getattr(n, "_parent", None)
        return (isinstance(p, ast.Call) and n in p.args and self.cexpr(p))


def scan_repo(repo=None):
    repo = repo or common.REPO
    d = os.path.join(repo, "shroud")
    scans = []
    for fn in sorted(os.listdir(d)):
        if fn.endswith(".py"):
            s = FileScan(fn, open(os.path.join(d, fn)).read())
            s.scan()
            scans.append(s)
    return scans


def render(scans):
    files = [s.fname for s in scans]
    out = ["/- GENERATED by tools/extract_guards.py from the /repo working tree.  Do not edit. -/",
           "namespace Shroud.Gen.Guards", "",
           "/- option ids: " + ", ".join("%d %s" % (i, o) for i, o in enumerate(OPTS)) + " -/",
           "/- file ids: " + ", ".join("%d %s" % (i, f) for i, f in enumerate(files)) + " -/",
           "/- statement classes: " + ", ".join("%d %s" % (v, k) for k, v in CLS.items()) + " -/", "",
           "/-- (option, file, line, class) of every statement executed under an option guard or inside a comment emitter -/",
           "def guardedStmts : List (Nat × Nat × Nat × Nat) := ["]
    rows = []
    for fi, s in enumerate(scans):
        for (o, line, cls, text) in s.rows:
            rows.append("  (%d, %d, %d, %d)" % (OPTS.index(o), fi, line, CLS[cls]) + ",   -- %s: %s" % (s.fname, text.replace("\n", " ")))
    out += _strip_last_comma(rows)
    out += ["]", "", "/-- (option, file, line, kind) of every read of an option: " + ", ".join("%d %s" % (v, k) for k, v in USE.items()) + " -/",
            "def optionUses : List (Nat × Nat × Nat × Nat) := ["]
    rows = []
    for fi, s in enumerate(scans):
        for (o, line, kind, text) in s.uses:
            rows.append("  (%d, %d, %d, %d)" % (OPTS.index(o), fi, line, USE[kind]) + ",   -- %s: %s" % (s.fname, text))
    out += _strip_last_comma(rows)
    out += ["]", "", "/-- (file, line, class) of every write to a list named stmts_comments* -/",
            "def commentListWrites : List (Nat × Nat × Nat) := ["]
    rows = []
    for fi, s in enumerate(scans):
        for (line, cls, text) in s.clist:
            rows.append("  (%d, %d, %d)" % (fi, line, CLS[cls]) + ",   -- %s: %s" % (s.fname, text))
    out += _strip_last_comma(rows)
    out += ["]", "", "/-- (file, line, class) of every option-guarded append to a list whose emptiness is tested in the same file -/",
            "def fileDecisionAppends : List (Nat × Nat × Nat) := ["]
    rows = []
    for fi, s in enumerate(scans):
        for (line, cls, text) in s.fdec:
            rows.append("  (%d, %d, %d)" % (fi, line, CLS[cls]) + ",   -- %s: %s" % (s.fname, text))
    out += _strip_last_comma(rows)
    out += ["]", "", "/-- (file, line, class) of every read of config.write_version -/",
            "def writeVersionReads : List (Nat × Nat × Nat) := ["]
    rows = []
    for fi, s in enumerate(scans):
        for (line, cls, text) in s.wv:
            rows.append("  (%d, %d, %d)" % (fi, line, CLS[cls]) + ",   -- %s: %s" % (s.fname, text))
    out += _strip_last_comma(rows)
    out += ["]", "", "/-- (file, line, class) of every dynamic part spliced into an option-guarded comment template -/",
            "def commentDynamicParts : List (Nat × Nat × Nat) := ["]
    rows = []
    for fi, s in enumerate(scans):
        for (line, cls, text) in s.dyn:
            rows.append("  (%d, %d, %d)" % (fi, line, CLS[cls]) + ",   -- %s: %s" % (s.fname, text))
    out += _strip_last_comma(rows)
    out += ["]", "", "end Shroud.Gen.Guards", ""]
    return "\n".join(out)


def _strip_last_comma(rows):
    """the last element must not be followed by a comma (the comma sits before the trailing comment)"""
    if not rows:
        return rows
    last = rows[-1]
    i = last.index(",   -- ")
    rows = rows[:-1] + [last[:i] + "    -- " + last[i + 7:]]
    return rows


def regenerate(repo=None):
    scans = scan_repo(repo)
    text = render(scans)
    path = os.path.join(common.LEAN, "ShroudVerif", "Gen", "Guards.lean")
    old = open(path).read() if os.path.exists(path) else None
    if old != text:
        with open(path, "w") as f:
            f.write(text)
    info = dict(
        guarded=sum(len(s.rows) for s in scans), uses=sum(len(s.uses) for s in scans),
        comment_list_writes=sum(len(s.clist) for s in scans),
        other=[("%s:%d" % (s.fname, r[1]), r[0], r[3]) for s in scans for r in s.rows if r[2] == "OTHER"]
              + [("%s:%d" % (s.fname, r[1]), r[0], "use: " + r[3]) for s in scans for r in s.uses if r[2] == "OTHER"]
              + [("%s:%d" % (s.fname, r[0]), "comment-list", r[2]) for s in scans for r in s.clist if r[1] == "OTHER"]
              + [("%s:%d" % (s.fname, r[0]), "file-decision-list", r[2]) for s in scans for r in s.fdec if r[1] == "OTHER"]
              + [("%s:%d" % (s.fname, r[0]), "write_version-read", r[2]) for s in scans for r in s.wv if r[1] == "OTHER"]
              + [("%s:%d" % (s.fname, r[0]), "comment-dynamic-part", r[2]) for s in scans for r in s.dyn if r[1] == "OTHER"],
        comment_dynamic_parts=sum(len(s.dyn) for s in scans),
        write_version_reads=sum(len(s.wv) for s in scans),
        file_decision_appends={k: sum(1 for s in scans for r in s.fdec if r[1] == k) for k in ("comment-append", "allow", "OTHER")},
        allow=sum(1 for s in scans for r in s.rows if r[2] == "allow") + sum(1 for s in scans for r in s.uses if r[2] == "allow"),
        by_class={k: sum(1 for s in scans for r in s.rows if r[2] == k) for k in CLS},
        by_option={o: sum(1 for s in scans for r in s.rows if r[0] == o) for o in OPTS},
        changed=old != text,
    )
    return info


if __name__ == "__main__":
    import json
    print(json.dumps(regenerate(), indent=1))
