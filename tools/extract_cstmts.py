"""Translator for C02: /repo working tree -> lean/ShroudVerif/Gen/CStmts.lean

A fresh interpreter builds a small C++ library (enum, class, struct) with the real
`ast.create_library_from_dictionary` (which runs typemap.initialize and
statements.update_statements_for_language("c++")) and dumps

 * every c_* statement entry of `fc_statements`, expanded like update_stmt_tree does
   (`a/b` alternatives), with the *effective* values of the Scope stored in `cf_tree`
   (base / mixin / language clauses applied): key parts, cxx_local_var, c_local_var, buf_args,
   buf_extra, c_arg_decl, arg_call, pre_call, call, post_call, ret, return_type, owner;
 * the c_to_cxx / cxx_to_c patterns of every typemap (builtin, enum, class, struct).

Text is interned: statement-key parts become Nat ids (0 = empty part), template lines are mapped
to `(op code, variable codes)` through the explicit PATTERNS table below.  A template line of a
plain-C-API entry (no buf/cfi/cdesc part) or an arg_call / conversion pattern that no pattern
matches is recorded in `unmapped` (returned by regenerate) and written as op 99 - the caller reports a broken tie and the
table theorems no longer hold, then the oracle searches for a failing input (never a silent skip, never a crash of the check).  Lines of buf/cfi/cdesc
entries belong to C01/C10 and are emitted as op 0.
"""
import json
import os
import re
import subprocess
import sys

from tools import common
from tools.extract_registry import write_if_changed

GEN = os.path.join(common.LEAN, "ShroudVerif", "Gen", "CStmts.lean")

NONPLAIN = {"buf", "cfi", "cdesc"}

# fixed vocabulary of statement-key parts the model / harness may ask for (besides those in names)
EXTRA_PARTS = ["c", "native", "bool", "char", "string", "shadow", "struct", "vector", "void", "unknown",
               "scalar", "*", "&", "**", "*&", "in", "out", "inout", "result", "ctor", "dtor",
               "buf", "cfi", "cdesc", "allocatable", "pointer", "raw", "result-as-arg", "caller", "library"]

VARS = {"c_var": 1, "cxx_var": 2, "shadow_var": 3, "CXX_this": 4, "C_this": 5, "cxx_nonconst_ptr": 6, "idtor": 7,
        "C_call_list": 8, "c_addr": 9, "cxx_addr": 10, "c_member": 11, "cxx_member": 12, "nullptr": 13,
        "cxx_type": 14, "c_type": 15, "c_const": 16}

V = r"\{(\w+)\}"
# (op code, regex with one group per variable slot).  Whitespace and continuation TABs are removed
# before matching.  Order matters only where a later pattern is more general.
PATTERNS = [
    (1, r"(?:\{c_const\})?std::string" + V + r"\(" + V + r"\);"),
    (2, r"(?:\{c_const\})?std::string" + V + r";"),
    (3, r"strcpy\(" + V + "," + V + r"\{cxx_member\}c_str\(\)\);"),
    (4, r"(\{c_const\}|)\{cxx_type\}\*" + V + r"=\{cast_static\}(\{c_const\}|)\{cxx_type\}\*\{cast1\}" + V + r"\{c_member\}addr\{cast2\};"),
    (10, V + r"->addr=static_cast<\{c_const\}void\*>\(" + V + r"\);"),
    (5, V + r"->addr=" + V + r";"),
    (6, V + r"->idtor=" + V + r";"),
    (7, r"return" + V + r";"),
    (8, r"\{cxx_type\}\*" + V + r"=new\{cxx_type\};"),
    (9, r"\{cxx_type\}\*" + V + r"=new\{cxx_type\}\(" + V + r"\);"),
    (11, r"delete" + V + r";"),
    (13, r"\{c_const\}\{cxx_type\}\*" + V + r"=static_cast<\{c_const\}\{cxx_type\}\*>\(static_cast<\{c_const\}void\*>\(" + V + V + r"\)\);"),
    (14, r"\{c_const\}\{c_type\}\*" + V + r"=static_cast<\{c_const\}\{c_type\}\*>\(static_cast<\{c_const\}void\*>\(" + V + V + r"\)\);"),
]
ARGCALL = [(15, 0, V), (15, 1, "&" + V), (15, 2, r"\*" + V)]
RETTYPE = {None: 0, "{c_type} *": 1, "void": 2}
BUFARG = {"arg": 1, "shadow": 2, "arg_decl": 3, "size": 4, "capsule": 5, "context": 6, "len_trim": 7, "len": 8}
LOCAL = {None: 0, "": 0, "scalar": 1, "pointer": 2, "funcptr": 3}
OWNER = {"library": 0, "caller": 1}

# conversion patterns of typemaps: (code, regex).  `NAME` = a C++ type name.
NAME = r"[\w:<>, ]+?"
C_TO_CXX = [
    (1, r"static_cast<" + NAME + r">\(" + V + r"\)"),
    (2, r"static_cast<\{c_const\}" + NAME + r"\*>\(" + V + r"->addr\)"),
    (5, r"MPI_Comm_f2c\(" + V + r"\)"),
]
CXX_TO_C = [
    (1, r"static_cast<int>\(" + V + r"\)"),
    (2, r"static_cast<\{c_const\}void\*>\(" + V + V + r"\)"),
    (3, V + V + r"c_str\(\)"),
    (5, r"MPI_Comm_c2f\(" + V + r"\)"),
]

DUMP = r'''
import json, sys
from shroud import ast, statements, typemap, util
class Cfg: pass
cfg = Cfg()
LANG = sys.argv[1] if len(sys.argv) > 1 else "c++"
if LANG == "c":
    lib = dict(library="xlib", cxx_header="xlib.h", language="c", declarations=[
        dict(decl="enum Color { RED, GREEN }"),
        dict(decl="struct Pt { int x; double y; }"),
    ])
else:
    lib = dict(library="xlib", cxx_header="xlib.hpp", language="c++", declarations=[
        dict(decl="enum Color { RED, GREEN }"),
        dict(decl="struct Pt { int x; double y; }"),
        dict(decl="class Kls", declarations=[dict(decl="Kls()"), dict(decl="~Kls()")]),
        dict(decl="namespace ns", declarations=[dict(decl="enum Inner { A, B }"), dict(decl="class Deep")]),
    ])
typemap.initialize()
newlibrary = ast.create_library_from_dictionary(lib)
F = ["cxx_local_var", "c_local_var", "buf_args", "buf_extra", "c_arg_decl", "arg_call", "pre_call", "call",
     "post_call", "ret", "return_type", "owner"]
rows = []
for node in statements.fc_statements:
    name = node["name"]
    steps = [p.split("/") for p in name.split("_")]
    if steps[0] != ["c"]:
        continue
    expanded = []
    statements.compute_stmt_permutations(expanded, steps)
    for parts in expanded:
        step = statements.cf_tree
        for p in parts:
            step = step[p]
        sc = step["_stmts"]
        row = {"key": parts, "orig": name, "scope_name": sc.name}
        for f in F:
            row[f] = sc.get(f, None)
        rows.append(row)
d = statements.default_scopes["c"]
default = {f: d.get(f, None) for f in F}
# structure of the real tree (for the build correspondence)
def shape(t):
    return {"e": t["_stmts"].name if "_node" in t else None,
            "k": [[k, shape(v)] for k, v in t.items() if isinstance(v, dict) and k not in ("_node",)]}
tm = []
for name, t in sorted(typemap.shared_typedict.items()):
    tm.append({"name": name, "base": t.base, "sgroup": t.sgroup, "c_to_cxx": t.c_to_cxx, "cxx_to_c": t.cxx_to_c,
               "c_type": t.c_type, "cxx_type": t.cxx_type})
print(json.dumps({"rows": rows, "default": default, "shape": shape(statements.cf_tree["c"]), "typemaps": tm}))
'''


def dump(language="c++"):
    e = dict(os.environ, PYTHONPATH=common.REPO, PYTHONDONTWRITEBYTECODE="1", PYTHONHASHSEED="0")
    p = subprocess.run([sys.executable, "-c", DUMP, language], stdout=subprocess.PIPE, stderr=subprocess.PIPE, text=True, env=e)
    if p.returncode:
        raise RuntimeError("extract_cstmts: dump failed: " + p.stderr[-2500:])
    return json.loads(p.stdout.strip().split("\n")[-1])


def norm(line):
    return re.sub(r"\s+", "", line)


UNMAPPED = []      # lines no pattern covers: op 99 in the table, reported by the caller as a broken tie


def unmapped(what):
    UNMAPPED.append(what)


def map_line(line, where):
    s = norm(line)
    for code, rx in PATTERNS:
        m = re.fullmatch(rx, s)
        if m:
            args = []
            for g in m.groups():
                if code == 4 and g in ("", "{c_const}"):
                    args.append(1 if g else 0)      # is the declaration / the cast const-qualified
                    continue
                if g not in VARS:
                    unmapped("unknown variable {%s} in %s line %r" % (g, where, line))
                    return 99, []
                args.append(VARS[g])
            if code == 4:
                args = [args[1], args[3], args[0], args[2]]   # [declared var, source var, const decl, const cast]
            if code == 5 and args[1] == VARS["nullptr"]:
                code = 12
            return code, args
    unmapped("template line of %s not covered by the pattern table: %r" % (where, line))
    return 99, []


def map_argcall(line, where):
    s = norm(line)
    for code, pre, rx in ARGCALL:
        m = re.fullmatch(rx, s)
        if m and m.group(1) in VARS:
            return code, [pre, VARS[m.group(1)]]
    unmapped("arg_call of %s not covered by the pattern table: %r" % (where, line))
    return 99, []


def map_conv(text, table, where):
    if text is None:
        return 0, []
    s = norm(text)
    for code, rx in table:
        m = re.fullmatch(rx, s)
        if m:
            args = []
            for g in m.groups():
                if g not in VARS:
                    unmapped("unknown variable {%s} in %s %r" % (g, where, text))
                    return 9, []
                args.append(VARS[g])
            return code, args
    unmapped("conversion pattern of %s not covered by the pattern table: %r" % (where, text))
    return 9, []


def intern_table(rows):
    parts = set(EXTRA_PARTS)
    for r in rows:
        parts.update(r["key"])
    names = [""] + sorted(parts)
    return {n: i for i, n in enumerate(names)}, names


def lean_nats(xs):
    return "[" + ", ".join(str(x) for x in xs) + "]"


def lean_ops(ops):
    return "[" + ", ".join("(%d, %s)" % (c, lean_nats(a)) for c, a in ops) + "]"


def entry_fields(r, ids, plain):
    where = "_".join(r["key"])
    def lines(f):
        out = []
        for ln in (r[f] or []):
            out.append(map_line(ln, where + "." + f) if plain else (0, []))
        return out
    argcall = [map_argcall(x, where) for x in (r["arg_call"] or [])]
    rt = r["return_type"]
    if rt not in RETTYPE:
        if plain:
            unmapped("return_type of %s not covered: %r" % (where, rt))
        rtc = 9
    else:
        rtc = RETTYPE[rt]
    for b in list(r["buf_args"] or []) + list(r["buf_extra"] or []):
        if b not in BUFARG:
            unmapped("unknown buf_arg %r in %s" % (b, where))
            BUFARG[b] = 9
    for f in ("cxx_local_var", "c_local_var"):
        if r[f] not in LOCAL:
            unmapped("unknown %s %r in %s" % (f, r[f], where))
            LOCAL[r[f]] = 9
    if r["owner"] not in OWNER:
        unmapped("unknown owner %r in %s" % (r["owner"], where))
        OWNER[r["owner"]] = 9
    return dict(
        key=[ids[p] for p in r["key"]], plain=plain, cxxLocal=LOCAL[r["cxx_local_var"]], cLocal=LOCAL[r["c_local_var"]],
        bufArgs=[BUFARG[b] for b in (r["buf_args"] or [])], bufExtra=[BUFARG[b] for b in (r["buf_extra"] or [])],
        argDecl=len(r["c_arg_decl"] or []), argCall=argcall, pre=lines("pre_call"), call=lines("call"),
        post=lines("post_call"), ret=lines("ret"), retType=rtc, owner=OWNER[r["owner"]])


def lean_entry(e):
    return ("⟨%s, %s, %d, %d, %s, %s, %d, %s, %s, %s, %s, %s, %d, %d⟩" % (
        lean_nats(e["key"]), "true" if e["plain"] else "false", e["cxxLocal"], e["cLocal"], lean_nats(e["bufArgs"]),
        lean_nats(e["bufExtra"]), e["argDecl"], lean_ops(e["argCall"]), lean_ops(e["pre"]), lean_ops(e["call"]),
        lean_ops(e["post"]), lean_ops(e["ret"]), e["retType"], e["owner"]))


def build(data):
    rows = data["rows"]
    ids, names = intern_table(rows)
    entries = []
    for r in rows:
        plain = not (set(r["key"]) & NONPLAIN)
        entries.append(entry_fields(r, ids, plain))
    dflt = dict(data["default"], key=[])
    dflt_e = entry_fields(dict(dflt, key=[]), ids, True)
    convs = []
    for t in data["typemaps"]:
        a = map_conv(t["c_to_cxx"], C_TO_CXX, t["name"] + ".c_to_cxx")
        b = map_conv(t["cxx_to_c"], CXX_TO_C, t["name"] + ".cxx_to_c")
        convs.append((t["name"], t["base"], t["sgroup"], a, b, t.get("c_type"), t.get("cxx_type")))
    return ids, names, entries, dflt_e, convs


def render(ids, names, entries, dflt_e, convs, rows, entries_c=()):
    out = ["/- GENERATED by tools/extract_cstmts.py from the /repo working tree.  Do not edit. -/",
           "import ShroudVerif.Model.WrapC", "namespace Shroud.Gen.CStmts", "open Shroud.WrapC", ""]
    out.append("/-! part ids: " + ", ".join("%d=%s" % (i, n.replace("*", "✱") or "''") for i, n in enumerate(names)) + " -/")
    for n in ["c", "shadow", "dtor", "ctor", "result", "native", "bool", "char", "string", "struct", "void", "scalar", "in", "out", "inout",
              "buf", "cfi", "cdesc", "allocatable", "pointer", "raw", "caller"]:
        out.append("def p_%s : Nat := %d" % (n.replace("-", "_"), ids[n]))
    out.append("def p_ptr : Nat := %d" % ids["*"])
    out.append("def p_ref : Nat := %d" % ids["&"])
    out.append("def p_ptrptr : Nat := %d" % ids["**"])
    out.append("def p_ptrref : Nat := %d" % ids["*&"])
    out.append("def nparts : Nat := %d" % len(names))
    out.append("def vocab : Vocab := ⟨p_c, p_shadow, p_dtor, p_ctor, p_result⟩")
    out.append("")
    out.append("/-- c_* statement entries in `fc_statements` order, alternatives expanded -/")
    out.append("def entries : List Entry := [")
    for i, (e, r) in enumerate(zip(entries, rows)):
        out.append("  /- %d %s -/ %s%s" % (i, "_".join(r["key"]).replace("*", "✱"), lean_entry(e), "," if i + 1 < len(entries) else ""))
    out.append("]")
    out.append("")
    out.append("/-- `default_scopes[\"c\"]` (CStmts) -/")
    out.append("def defaultEntry : Entry := " + lean_entry(dflt_e))
    out.append("")
    out.append("/-- the same entries as configured by update_statements_for_language(\"c\") (library `language: c`): the")
    out.append("    `cxx_*` clauses are not taken, the `c_*` clauses are -/")
    out.append("def entriesC : List Entry := [")
    for i, (e, r) in enumerate(zip(entries_c, rows)):
        out.append("  /- %d %s -/ %s%s" % (i, "_".join(r["key"]).replace("*", "✱"), lean_entry(e), "," if i + 1 < len(entries_c) else ""))
    out.append("]")
    out.append("")
    out.append("def keys : List (List Nat) := entries.map (·.key)")
    out.append("def tree : Tree := buildTree keys")
    out.append("")
    out.append("/-- typemap conversions: (base: 0 other 1 shadow 2 string 3 struct 4 vector, c_to_cxx code, its variables, cxx_to_c code, its variables);")
    out.append("    c_to_cxx: 0 none 1 static_cast<T>(x) 2 static_cast<T *>(x->addr) 5 MPI_Comm_f2c; cxx_to_c: 0 none 1 static_cast<int>(x)")
    out.append("    2 static_cast<void *>(<addr>x) 3 x<member>c_str() 5 MPI_Comm_c2f -/")
    out.append("def typemapConv : List (Nat × Nat × List Nat × Nat × List Nat) := [")
    base = {"shadow": 1, "string": 2, "struct": 3, "vector": 4}
    for i, (name, b, sg, a, c, _ct, _xt) in enumerate(convs):
        out.append("  /- %s -/ (%d, %d, %s, %d, %s)%s" % (name, base.get(b, 0), a[0], lean_nats(a[1]), c[0], lean_nats(c[1]),
                                                      "," if i + 1 < len(convs) else ""))
    out.append("]")
    out.append("")
    out.append("/-- C and C++ spelling of every typemap that crosses the boundary without a conversion (sgroup native or bool, no")
    out.append("    c_to_cxx / cxx_to_c): (kind, c_type, cxx_type) as code points; kind 0 same type expected, 1 the documented C99 /")
    out.append("    C++ complex pair `T complex` / `std::complex<T>` -/")
    out.append("def typemapTypes : List (Nat × List Nat × List Nat) := [")
    rows = [(name, ct, xt) for (name, b, sg, a, c, ct, xt) in convs
            if sg in ("native", "bool", "char", "void") and a[0] == 0 and c[0] == 0 and ct is not None and xt is not None]
    for i, (name, ct, xt) in enumerate(rows):
        kind = 1 if name.endswith("_complex") else 0
        out.append("  /- %s -/ (%d, %s, %s)%s" % (name, kind, lean_nats([ord(ch) for ch in ct]), lean_nats([ord(ch) for ch in xt]),
                                              "," if i + 1 < len(rows) else ""))
    out.append("]")
    out.append("def complexSuffix : List Nat := %s  -- ` complex`" % lean_nats([ord(ch) for ch in " complex"]))
    out.append("def complexPrefix : List Nat := %s  -- `std::complex<`" % lean_nats([ord(ch) for ch in "std::complex<"]))
    out.append("")
    out.append("end Shroud.Gen.CStmts")
    return "\n".join(out) + "\n"


def regenerate():
    del UNMAPPED[:]
    data = dump()
    ids, names, entries, dflt_e, convs = build(data)
    # the table of a `language: c` library: same keys in the same order, language clauses resolved for c
    data_c = dump("c")
    if [r["key"] for r in data_c["rows"]] != [r["key"] for r in data["rows"]]:
        unmapped("the c and c++ statement tables differ in their keys")
    entries_c = [entry_fields(r, ids, not (set(r["key"]) & NONPLAIN)) for r in data_c["rows"]
                 if all(p in ids for p in r["key"])]
    data["rows_c"] = data_c["rows"]
    text = render(ids, names, entries, dflt_e, convs, data["rows"], entries_c)
    changed = write_if_changed(GEN, text)
    return {"entries": len(entries), "plain_entries": sum(1 for e in entries if e["plain"]), "parts": len(names),
            "typemaps": len(convs), "converting_typemaps": sum(1 for c in convs if c[3][0] or c[4][0]),
            "template_lines_mapped": sum(len(e[f]) for e in entries if e["plain"] for f in ("pre", "call", "post", "ret")) +
            sum(len(e["argCall"]) for e in entries), "changed": changed, "unmapped": list(UNMAPPED)}, data, ids, names, entries


if __name__ == "__main__":
    info = regenerate()[0]
    print(info)
