"""C03 tie for the list-mode conversion helpers (whelpers.py: create_get_from_object_list,
fill_from_PyObject_list, create_to_PyList, get_from_object_char, get_from_object_charptr).

The helper C text is taken from the working tree by letting Shroud write it (option
PY_write_helper_in_util puts the helpers, non-static, into py<lib>util.c[pp]); that file alone is
compiled, with counting malloc/calloc/strdup/free, together with a small C driver into a shared
library, loaded with ctypes.PyDLL in a fresh interpreter and driven with lists, tuples, strings,
non-iterables, bad items at every index and empty sequences.  Outcome, converted values, error index,
outstanding allocations before/after releasing value.dataobj and the reference count of the argument
are compared with the Lean model (driver ops getlist / fill / charptr)."""
import itertools
import json
import os
import subprocess
import sys
import sysconfig

from tools import common, shroudrun

# further element types of the list converters: (flat name, C type, bits, signed); bits 0 = float
ELEMS = [("short", "short", 16, True), ("unsigned_short", "unsigned short", 16, False), ("unsigned_int", "unsigned int", 32, False),
         ("long", "long", 64, True), ("unsigned_long", "unsigned long", 64, False),
         ("int8_t", "int8_t", 8, True), ("uint8_t", "uint8_t", 8, False), ("int16_t", "int16_t", 16, True),
         ("uint16_t", "uint16_t", 16, False), ("int32_t", "int32_t", 32, True), ("uint32_t", "uint32_t", 32, False),
         ("int64_t", "int64_t", 64, True), ("uint64_t", "uint64_t", 64, False), ("float", "float", 0, True)]
ELEM_DECLS = "".join("- decl: long sum_%s(const %s *arr +rank(1), int n +implied(size(arr)))\n" % (f, t) for f, t, _b, _s in ELEMS)
ELEM_PROTOS = "#include <stdint.h>\n" + "".join("long sum_%s(const %s *arr, int n);\n" % (f, t) for f, t, _b, _s in ELEMS)


def elem_getlists(prefix):
    out = []
    for f, t, bits, signed in ELEMS:
        mk = "PyFloat_FromDouble" if bits == 0 else ("PyLong_FromUnsignedLong" if (bits == 64 and not signed) else "PyLong_FromLong")
        out.append("GETLIST(hd_get_%s, %s, %sget_from_object_%s_list, %s)" % (f, t, prefix, f, mk))
    return "\n".join(out)


YAML = """\
library: hlp
cxx_header: %(hdr)s
language: %(lang)s
options:
  wrap_python: true
  wrap_c: false
  wrap_fortran: false
  wrap_lua: false
  PY_array_arg: list
  PY_struct_arg: class
  PY_write_helper_in_util: true
declarations:
- decl: struct Arr { int count; int vals[3]; double w[2]; char name[8]; int after; };
- decl: int isum(const int *arr +rank(1), int n +implied(size(arr)))
- decl: double dsum(const double *arr +rank(1), int n +implied(size(arr)))
- decl: void iscale(int *arr +rank(1)+intent(inout), int n +implied(size(arr)), int k)
- decl: void dscale(double *arr +rank(1)+intent(inout), int n +implied(size(arr)), double k)
- decl: int nstr(char **names +intent(in), int n +implied(size(names)))
- decl: int asum(const Arr *a)
%(elems)s%(vec)s"""

VEC_DECLS = """\
- decl: int vsum(const std::vector<int> &v)
- decl: double vdsum(const std::vector<double> &v)
- decl: long vlsum(const std::vector<long> &v)
"""

HEADER = """\
struct Arr { int count; int vals[3]; double w[2]; char name[8]; int after; };
typedef struct Arr Arr;
int isum(const int *arr, int n);
double dsum(const double *arr, int n);
void iscale(int *arr, int n, int k);
void dscale(double *arr, int n, double k);
int nstr(char **names, int n);
int asum(const Arr *a);
%(elems)s#ifdef __cplusplus
#include <vector>
int vsum(const std::vector<int> &v);
double vdsum(const std::vector<double> &v);
long vlsum(const std::vector<long> &v);
#endif
"""

ALLOC_H = """\
#ifndef HD_ALLOC_H
#define HD_ALLOC_H
#ifdef __cplusplus
#include <cstdlib>
#include <cstring>
extern "C" {
#else
#include <stdlib.h>
#include <string.h>
#endif
void *hd_malloc(size_t n);
void *hd_calloc(size_t a, size_t b);
char *hd_strdup(const char *s);
void hd_free(void *p);
long hd_outstanding(void);
#ifdef __cplusplus
}
namespace std { using ::hd_malloc; using ::hd_calloc; using ::hd_free; }
#endif
#ifndef HD_NO_REDEFINE
#define malloc hd_malloc
#define calloc hd_calloc
#define strdup hd_strdup
#define free hd_free
#endif
#endif
"""

HD_SRC = """\
#define HD_NO_REDEFINE
#include "hd_alloc.h"
#include "%(modhdr)s"
/* the utility file also holds the struct-as-class converters, which refer to the type object of the module */
PyTypeObject PY_Arr_Type;
#ifdef __cplusplus
extern "C" {
#endif
static long hd_count = 0;
void *hd_malloc(size_t n) { hd_count++; return malloc(n ? n : 1); }
void *hd_calloc(size_t a, size_t b) { hd_count++; return calloc(a ? a : 1, b ? b : 1); }
char *hd_strdup(const char *s) { hd_count++; return strdup(s); }
void hd_free(void *p) { if (p) hd_count--; free(p); }
long hd_outstanding(void) { return hd_count; }

#define CONV %(prefix)sconverter_value

#define GETLIST(NAME, T, FUNC, MK)                                              \\
PyObject *NAME(PyObject *obj)                                                    \\
{                                                                                \\
    CONV v = {NULL, NULL, NULL, NULL, 0};                                        \\
    long base = hd_outstanding();                                                \\
    v.name = "arg";                                                              \\
    if (FUNC(obj, &v) == 0) { Py_XDECREF(v.dataobj); return NULL; }              \\
    long before = hd_outstanding() - base;                                       \\
    PyObject *lst = PyList_New(v.size);                                          \\
    for (size_t i = 0; i < v.size; i++) PyList_SET_ITEM(lst, i, MK(((T *) v.data)[i])); \\
    Py_XDECREF(v.dataobj);                                                       \\
    return Py_BuildValue("Nll", lst, before, hd_outstanding() - base);           \\
}
GETLIST(hd_get_int, int, %(prefix)sget_from_object_int_list, PyLong_FromLong)
GETLIST(hd_get_double, double, %(prefix)sget_from_object_double_list, PyFloat_FromDouble)
%(elem_getlists)s

#define FILL(NAME, T, FUNC, MK, INIT)                                            \\
PyObject *NAME(PyObject *obj, long insize)                                       \\
{                                                                                \\
    T buf[16];                                                                   \\
    for (int i = 0; i < 16; i++) buf[i] = INIT + i;                              \\
    if (FUNC(obj, "arg", buf, insize) == -1) return NULL;                        \\
    PyObject *lst = PyList_New(insize);                                          \\
    for (long i = 0; i < insize; i++) PyList_SET_ITEM(lst, i, MK(buf[i]));       \\
    return Py_BuildValue("Nl", lst, hd_outstanding());                           \\
}
FILL(hd_fill_int, int, %(prefix)sfill_from_PyObject_int_list, PyLong_FromLong, 9000)
FILL(hd_fill_double, double, %(prefix)sfill_from_PyObject_double_list, PyFloat_FromDouble, 9000)

/* get_from_object_int_list followed by to_PyList_int: the round trip */
PyObject *hd_roundtrip_int(PyObject *obj)
{
    CONV v = {NULL, NULL, NULL, NULL, 0};
    v.name = "arg";
    if (%(prefix)sget_from_object_int_list(obj, &v) == 0) return NULL;
    PyObject *lst = %(prefix)sto_PyList_int((int *) v.data, v.size);
    Py_XDECREF(v.dataobj);
    return lst;
}

/* fill_from_PyObject_char on a member of `insize` cells placed at offset 16 of a 64 byte block of 0x7f guard bytes */
PyObject *hd_fill_char(PyObject *obj, long insize)
{
    char block[64];
    memset(block, 0x7f, sizeof(block));
    if (%(prefix)sfill_from_PyObject_char(obj, "arg", block + 16, insize) == -1) return NULL;
    return Py_BuildValue("y#l", block, (Py_ssize_t) sizeof(block), hd_outstanding());
}

PyObject *hd_charptr(PyObject *obj)
{
    CONV v = {NULL, NULL, NULL, NULL, 0};
    long base = hd_outstanding();
    v.name = "arg";
    if (%(prefix)sget_from_object_charptr(obj, &v) == 0) { Py_XDECREF(v.dataobj); return NULL; }
    long before = hd_outstanding() - base;
    PyObject *lst = PyList_New(v.size);
    for (size_t i = 0; i < v.size; i++) {
        char *s = ((char **) v.data)[i];
        if (s) PyList_SET_ITEM(lst, i, PyUnicode_FromString(s));
        else { Py_INCREF(Py_None); PyList_SET_ITEM(lst, i, Py_None); }
    }
    Py_XDECREF(v.dataobj);
    return Py_BuildValue("Nll", lst, before, hd_outstanding() - base);
}
#ifdef __cplusplus
}
#define VECGET(NAME, T, FUNC, MK)                                                \\
extern "C" PyObject *NAME(PyObject *obj)                                         \\
{                                                                                \\
    std::vector<T> v;                                                            \\
    long base = hd_outstanding();                                                \\
    if (FUNC(obj, "arg", v) == -1) return NULL;                                  \\
    PyObject *lst = PyList_New(v.size());                                        \\
    for (size_t i = 0; i < v.size(); i++) PyList_SET_ITEM(lst, i, MK(v[i]));     \\
    return Py_BuildValue("Nll", lst, 1L, hd_outstanding() - base);               \\
}
VECGET(hd_vec_int, int, %(prefix)screate_from_PyObject_vector_int, PyLong_FromLong)
VECGET(hd_vec_long, long, %(prefix)screate_from_PyObject_vector_long, PyLong_FromLong)
VECGET(hd_vec_double, double, %(prefix)screate_from_PyObject_vector_double, PyFloat_FromDouble)
#endif
"""

DRIVER = r'''
import ctypes, json, sys
lib = ctypes.PyDLL(sys.argv[1])
cases = json.load(open(sys.argv[2]))
for n in ("hd_get_int", "hd_get_double", "hd_roundtrip_int", "hd_charptr", "hd_vec_int", "hd_vec_long", "hd_vec_double"):
    if not hasattr(lib, n): continue
    getattr(lib, n).restype = ctypes.py_object
    getattr(lib, n).argtypes = [ctypes.py_object]
for n in ("hd_fill_int", "hd_fill_double", "hd_fill_char"):
    getattr(lib, n).restype = ctypes.py_object
    getattr(lib, n).argtypes = [ctypes.py_object, ctypes.c_long]
lib.hd_outstanding.restype = ctypes.c_long
def mk(spec):
    k, v = spec
    if k == "list": return [mk(x) for x in v]
    if k == "tuple": return tuple(mk(x) for x in v)
    if k == "none": return None
    if k == "bytes": return v.encode()
    return v
for n in sorted(set(c["op"] for c in cases if c["op"].startswith("hd_get_"))):
    getattr(lib, n).restype = ctypes.py_object
    getattr(lib, n).argtypes = [ctypes.py_object]
out = []
for c in cases:
    obj = mk(c["obj"])
    rc0 = sys.getrefcount(obj)
    o0 = lib.hd_outstanding()
    try:
        if c["op"].startswith("hd_fill"):
            r = getattr(lib, c["op"])(obj, c["insize"])
        else:
            r = getattr(lib, c["op"])(obj)
        if c["op"] == "hd_fill_char":
            r = [list(r[0]), r[1]]
        res = {"r": "ok", "value": r}
    except BaseException as e:
        res = {"r": "exc", "type": type(e).__name__, "msg": str(e)}
    res["leak"] = lib.hd_outstanding() - o0
    res["refs"] = sys.getrefcount(obj) - rc0
    out.append(res)
json.dump(out, open(sys.argv[3], "w"))
'''

ITEMS = [("int", 4), ("float", 2.5), ("str", "x"), ("bool", True), ("none", None)]
TAG = {"int": 0, "str": 1, "float": 2, "bool": 3, "none": 4, "bytes": 6}


def model_obj(spec):
    """the object as the helper sees it: iterables (list, tuple, str, bytes) are sequences of items"""
    k, v = spec
    if k in ("list", "tuple"):
        items = v
    elif k == "str":
        items = [("str", ch) for ch in v]
    elif k == "bytes":
        items = [("int", ord(ch)) for ch in v]
    else:
        return "a:%d.0" % TAG[k], [spec]
    return "s:" + (",".join("%d.%d" % (TAG[i[0]], j) for j, i in enumerate(items)) or "~"), items


def gen_objects(thorough):
    objs = []
    for n in range(0, 4 if thorough else 3):
        for t in itertools.product(ITEMS, repeat=n):
            objs.append(("list", list(t)))
            if n <= 2 or thorough:
                objs.append(("tuple", list(t)))
    # element values that collide with the error sentinels of the C conversion functions, and the extremes
    for items in ([("int", -1)], [("int", 0)], [("int", -1), ("int", 5)], [("int", 5), ("int", -1)], [("int", 0), ("int", -1), ("int", 0)],
                  [("int", 2147483647), ("int", -2147483648)], [("float", -1.0)], [("float", 1.5), ("float", -1.0)], [("float", 0.0)],
                  [("bool", False), ("int", -1)], [("float", -1.0), ("int", -1), ("float", 1e300)]):
        objs.append(("list", items))
        objs.append(("tuple", items))
    objs += [("int", 5), ("float", 1.5), ("none", None), ("str", "ab"), ("str", ""), ("bytes", "ab"), ("bool", True),
             ("list", [("int", i) for i in range(10)]), ("list", [("int", 1)] * 5 + [("str", "bad")])]
    return objs


def run(ctx, drv, accepts, thorough, dis):
    """accepts: {"i": [...], "d": [...]} value classes of the element converters (regenerated table)"""
    inc = sysconfig.get_paths()["include"]
    total = 0
    for lang in ("c++", "c"):
        d = common.scratch()
        try:
            cxx = lang != "c"
            hdr = "hlp.hpp" if cxx else "hlp.h"
            y = shroudrun.write_yaml(d, "hlp.yaml", YAML % {"hdr": hdr, "lang": lang, "vec": VEC_DECLS if lang != "c" else "", "elems": ELEM_DECLS})
            open(os.path.join(d, hdr), "w").write(HEADER % {"elems": ELEM_PROTOS})
            out = os.path.join(d, "out")
            os.makedirs(out)
            cfg, exc, _ = shroudrun.run_inproc([y], out, path=[d])
            if exc is not None:
                ctx.fail("generate:helpers-" + lang, "Shroud fails on the list-mode helper library: %r" % (exc,), {"yaml": YAML % {"hdr": hdr, "lang": lang, "vec": VEC_DECLS if lang != "c" else "", "elems": ELEM_DECLS}})
                continue
            ext = ".cpp" if cxx else ".c"
            modhdr = "pyhlpmodule" + (".hpp" if cxx else ".h")
            open(os.path.join(d, "hd_alloc.h"), "w").write(ALLOC_H)
            open(os.path.join(d, "hd" + ext), "w").write(HD_SRC % {"modhdr": modhdr, "prefix": "HLP_SHROUD_", "elem_getlists": elem_getlists("HLP_SHROUD_")})
            so = os.path.join(d, "libhd.so")
            base = (["g++", "-std=c++11"] if cxx else ["gcc", "-std=c99", "-D_POSIX_C_SOURCE=200809L"]) + \
                ["-fPIC", "-O0", "-w", "-I" + inc, "-I" + d, "-I" + out, "-c"]
            p1 = subprocess.run(base + ["-include", "hd_alloc.h", os.path.join(out, "pyhlputil" + ext), "-o", os.path.join(d, "util.o")],
                                stdout=subprocess.PIPE, stderr=subprocess.STDOUT, text=True)
            p2 = subprocess.run(base + [os.path.join(d, "hd" + ext), "-o", os.path.join(d, "hd.o")],
                                stdout=subprocess.PIPE, stderr=subprocess.STDOUT, text=True)
            p3 = subprocess.run([base[0], "-shared", os.path.join(d, "util.o"), os.path.join(d, "hd.o"), "-o", so],
                                stdout=subprocess.PIPE, stderr=subprocess.STDOUT, text=True)
            if p1.returncode or p2.returncode or p3.returncode:
                ctx.fail("compile:helpers-" + lang, "list-mode helper file does not compile: " + (p1.stdout + p2.stdout + p3.stdout)[-700:],
                         {"yaml": YAML % {"hdr": hdr, "lang": lang, "vec": VEC_DECLS if lang != "c" else "", "elems": ELEM_DECLS}})
                continue
            cases, reqs = [], []
            for obj in gen_objects(thorough):
                ms, items = model_obj(obj)
                ops = [("hd_get_int", "i"), ("hd_get_double", "d"), ("hd_roundtrip_int", "i")]
                if cxx:
                    ops += [("hd_vec_int", "i"), ("hd_vec_long", "i"), ("hd_vec_double", "d")]
                for op, key in ops:
                    cases.append({"op": op, "obj": obj, "items": items, "conv": key})
                    reqs.append("getlist %s %s" % (".".join(map(str, accepts[key])), ms))
                for f_, _t, bits, signed in ELEMS:
                    key = "d" if bits == 0 else "i"
                    cases.append({"op": "hd_get_" + f_, "obj": obj, "items": items, "conv": key, "wrap": (bits, signed)})
                    reqs.append("getlist %s %s" % (".".join(map(str, accepts[key])), ms))
                for insize in ((0, 1, 2, 3, 5) if thorough else (0, 2, 3)):
                    for op, key in (("hd_fill_int", "i"), ("hd_fill_double", "d")):
                        cases.append({"op": op, "obj": obj, "items": items, "conv": key, "insize": insize})
                        reqs.append("fill %s %d %s" % (".".join(map(str, accepts[key])), insize, ms))
                cases.append({"op": "hd_charptr", "obj": obj, "items": items, "conv": "s"})
                reqs.append("charptr " + ms)
            # fixed-size char member: strings shorter than, equal to and longer than the capacity
            for cap in ((1, 2, 4, 8, 16) if thorough else (1, 4, 8)):
                for n in sorted(set(list(range(0, cap + 6)) + [cap * 2 + 3])):
                    for kind in ("str", "bytes"):
                        text = "".join(chr(97 + i % 26) for i in range(n))
                        cases.append({"op": "hd_fill_char", "obj": (kind, text), "items": [], "conv": "c", "insize": cap})
                        reqs.append("fillchar %d %s:%d" % (cap, kind[0], n))
                for obj, code in ((("none", None), "n"), (("int", 5), "o"), (("list", []), "o"), (("float", 1.5), "o")):
                    cases.append({"op": "hd_fill_char", "obj": obj, "items": [], "conv": "c", "insize": cap})
                    reqs.append("fillchar %d %s" % (cap, code))
            cf, rf = os.path.join(d, "cases.json"), os.path.join(d, "res.json")
            json.dump([{k: c[k] for k in ("op", "obj", "insize") if k in c} for c in cases], open(cf, "w"))
            open(os.path.join(d, "drive.py"), "w").write(DRIVER)
            p = subprocess.run([sys.executable, os.path.join(d, "drive.py"), so, cf, rf], stdout=subprocess.PIPE,
                               stderr=subprocess.PIPE, text=True, timeout=600)
            if p.returncode != 0 or not os.path.exists(rf):
                ctx.fail("crash:helpers-" + lang, "driving the list-mode helpers crashed (rc=%s): %s" % (p.returncode, p.stderr[-400:]),
                         {"yaml": YAML % {"hdr": hdr, "lang": lang, "vec": VEC_DECLS if lang != "c" else "", "elems": ELEM_DECLS}})
                continue
            results = json.load(open(rf))
            model = drv.run(reqs)
            for c, res, m in zip(cases, results, model):
                ctx.count(1)
                total += 1
                if c["op"] == "hd_fill_char" and res["r"] == "ok":
                    # implementation-only: nothing outside the member is written; the member holds the text
                    # NUL-terminated, or its first `insize` characters when it does not fit
                    block, cap_ = res["value"][0], c["insize"]
                    text = c["obj"][1] if c["obj"][0] in ("str", "bytes") else ""
                    outside = [i for i in range(64) if not 16 <= i < 16 + cap_ and block[i] != 0x7f]
                    member = block[16:16 + cap_]
                    want = [ord(ch) for ch in text[:cap_]]
                    if outside:
                        ctx.fail("helper-overflow:fill_from_PyObject_char", "fill_from_PyObject_char(%r, insize=%d) wrote outside the "
                                 "member at offsets %s" % (c["obj"], cap_, [i - 16 for i in outside][:8]), {"language": lang, "case": c})
                    elif member[:len(want)] != want or (len(text) < cap_ and member[len(want)] != 0):
                        ctx.fail("helper-content:fill_from_PyObject_char", "fill_from_PyObject_char(%r, insize=%d) stored %r" % (
                            c["obj"], cap_, member), {"language": lang, "case": c})
                why = judge(c, res, m)
                # implementation-only oracle: errors are TypeError/ValueError, nothing leaks, references balanced
                if res["r"] == "exc" and res["type"] not in ("TypeError", "ValueError"):
                    ctx.fail("helper-bad-exception:%s:%s" % (c["op"], res["type"]),
                             "%s(%r) raised %s: %s" % (c["op"], c["obj"], res["type"], res["msg"]), {"language": lang, "case": c})
                elif res["leak"] != 0:
                    ctx.fail("helper-leak:%s" % c["op"], "%s(%r) left %d allocation(s) behind" % (c["op"], c["obj"], res["leak"]),
                             {"language": lang, "case": c})
                elif res["refs"] != 0:
                    ctx.fail("helper-refcount:%s" % c["op"], "%s(%r) changed the argument's reference count by %d" % (
                        c["op"], c["obj"], res["refs"]), {"language": lang, "case": c})
                if why:
                    dis.append({"helper": c["op"], "language": lang, "obj": c["obj"], "insize": c.get("insize"), "model": m,
                                "impl": res, "why": why})
                if res["r"] == "exc" or len(c["items"]) > 1:
                    ctx.nontrivial("helper:%s:%s:%s" % (lang, c["op"], json.dumps(c["obj"])))
        finally:
            common.rmtree(d)
    return total


def cval(item, conv):
    k, v = item
    if conv == "i":
        return int(v)
    if conv == "d":
        return float(v)
    return v


def wrap_c(v, wrap):
    """the converted value stored in an element of the given C type (conversion modulo 2^bits; float: single precision)"""
    if not wrap:
        return v
    bits, signed = wrap
    if bits == 0:
        import struct
        try:
            return struct.unpack("f", struct.pack("f", v))[0]
        except OverflowError:
            return float("inf") if v > 0 else float("-inf")
    v %= 1 << bits
    if signed and v >= 1 << (bits - 1):
        v -= 1 << bits
    return v


def judge(c, res, m):
    """compare the compiled helper with the model line"""
    parts = m.split(" ")
    if c["op"] == "hd_fill_char":
        if parts[0] == "err":
            return None if (res["r"] == "exc" and res["type"] == "TypeError") else "model: TypeError"
        if res["r"] != "ok":
            return "model: ok"
        block, cap = res["value"][0], c["insize"]
        cells = [] if parts[1] == "~" else parts[1].split(",")
        text = c["obj"][1] if c["obj"][0] in ("str", "bytes") else ""
        want = [0x7f] * 64
        for i, cell in enumerate(cells):
            want[16 + i] = ord(text[int(cell[1:])]) if cell[0] == "c" else (0 if cell == "z" else 0x7f)
        if len(cells) != cap:
            return "model writes %d cells for a member of %d" % (len(cells), cap)
        return None if block == want else "block %r, model %r" % (block[12:16 + cap + 4], want[12:16 + cap + 4])
    if parts[0] == "err":
        if res["r"] != "exc" or res["type"] != "TypeError":
            return "model: TypeError"
        if parts[1] == "iter":
            if "must be iterable" not in res["msg"]:
                return "model: not iterable"
        elif ("index %s " % parts[1]) not in res["msg"]:
            return "model: bad item at index " + parts[1]
        if res["leak"] != 0:
            return "model: nothing left allocated"
        return None
    if res["r"] != "ok":
        return "model: ok"
    toks = [] if parts[1] == "~" else parts[1].split(",")
    value = res["value"]
    if c["op"].startswith("hd_fill"):
        lst, after = value
        want = []
        for i, t in enumerate(toks):
            if t.startswith("v"):
                want.append(cval(c["items"][int(t[1:])], c["conv"]))
            else:
                want.append(cval(("int", 9000 + int(t[1:])), c["conv"]))
        if list(lst) != want:
            return "values %r, model %r" % (lst, want)
        return None
    if c["op"] == "hd_roundtrip_int":
        want = [cval(c["items"][int(t[1:])], "i") for t in toks]
        return None if list(value) == want else "round trip %r, model %r" % (value, want)
    lst, before, after = value
    if c["op"] == "hd_charptr":
        want = [None if t == "null" else c["items"][int(t[1:])][1] for t in toks]
        if list(lst) != want:
            return "values %r, model %r" % (lst, want)
        if before < int(parts[3]) or after != 0:
            return "allocations before/after release %d/%d" % (before, after)
        return None
    want = [wrap_c(cval(c["items"][int(t[1:])], c["conv"]), c.get("wrap")) for t in toks]
    if list(lst) != want:
        return "values %r, model %r" % (lst, want)
    if c["op"].startswith("hd_vec"):
        return None if after == 0 else "allocations left %d" % after
    if before != int(parts[2]) + int(parts[3]) or after != 0:
        return "allocations before/after release %d/%d, model %s/0" % (before, after, int(parts[2]) + int(parts[3]))
    return None


# ====================================================================== fixed-size char members, end to end
REC_YAML = """\
library: rec
cxx_header: %(hdr)s
language: %(lang)s
options:
  wrap_python: true
  wrap_c: false
  wrap_fortran: false
  wrap_lua: false
  PY_struct_arg: class
  PY_array_arg: list
declarations:
- decl: struct Rec { int before; char name[8]; int after; char tag[3]; double w; };
"""
REC_HEADER = "struct Rec { int before; char name[8]; int after; char tag[3]; double w; };\ntypedef struct Rec Rec;\n"
REC_DRIVER = r'''
import json, sys
sys.path.insert(0, sys.argv[1])
import rec
out = []
for c in json.load(open(sys.argv[2])):
    try:
        if c["how"] == "ctor":
            r = rec.Rec(before=11, name=c["name"], after=22, tag=c["tag"], w=2.5)
        else:
            r = rec.Rec(11, "", 22, "", 2.5)
            r.name = c["name"]
            r.tag = c["tag"]
        out.append({"r": "ok", "before": r.before, "name": r.name, "after": r.after, "tag": r.tag, "w": r.w})
    except BaseException as e:
        out.append({"r": "exc", "type": type(e).__name__, "msg": str(e)[:200]})
json.dump(out, open(sys.argv[3], "w"))
'''


def member_oracle(ctx, thorough):
    """struct wrapped as a class with fixed-size char members between other members: constructor and setter with texts
    shorter than, equal to and longer than the member; the member reads back as the text cut to its size and the
    neighbouring members keep their values (implementation only)."""
    inc = sysconfig.get_paths()["include"]
    total = 0
    for lang in ("c++", "c"):
        d = common.scratch()
        try:
            cxx = lang != "c"
            hdr = "rec.hpp" if cxx else "rec.h"
            ytext = REC_YAML % {"hdr": hdr, "lang": lang, "vec": VEC_DECLS if lang != "c" else "", "elems": ELEM_DECLS}
            y = shroudrun.write_yaml(d, "rec.yaml", ytext)
            open(os.path.join(d, hdr), "w").write(REC_HEADER)
            out = os.path.join(d, "out")
            os.makedirs(out)
            cfg, exc, _ = shroudrun.run_inproc([y], out, path=[d])
            if exc is not None:
                ctx.fail("generate:rec-" + lang, "Shroud fails on a struct with char array members: %r" % (exc,), {"yaml": ytext})
                continue
            srcs = [os.path.join(out, f) for f in sorted(os.listdir(out)) if f.endswith((".c", ".cpp"))]
            cmd = (["g++", "-std=c++11"] if cxx else ["gcc", "-std=c99"]) + ["-shared", "-fPIC", "-O0", "-w", "-I" + inc, "-I" + d,
                                                                             "-I" + out] + srcs + ["-o", os.path.join(d, "rec.so")]
            p = subprocess.run(cmd, stdout=subprocess.PIPE, stderr=subprocess.STDOUT, text=True)
            if p.returncode:
                ctx.fail("compile:rec-" + lang, "struct with char array members does not compile: " + p.stdout[-600:], {"yaml": ytext})
                continue
            cases = []
            for how in ("ctor", "setter"):
                for n in list(range(0, 14)) + ([20, 40] if thorough else [20]):
                    text = "".join(chr(97 + i % 26) for i in range(n))
                    cases.append({"how": how, "name": text, "tag": text[:max(0, n - 5)]})
            cf, rf = os.path.join(d, "cases.json"), os.path.join(d, "res.json")
            json.dump(cases, open(cf, "w"))
            open(os.path.join(d, "drive.py"), "w").write(REC_DRIVER)
            p = subprocess.run([sys.executable, os.path.join(d, "drive.py"), d, cf, rf], stdout=subprocess.PIPE, stderr=subprocess.PIPE,
                               text=True, timeout=300)
            if p.returncode != 0 or not os.path.exists(rf):
                ctx.fail("crash:rec-" + lang, "char member assignments crashed (rc=%s): %s" % (p.returncode, p.stderr[-300:]),
                         {"yaml": ytext, "header": REC_HEADER})
                continue
            for c, res in zip(cases, json.load(open(rf))):
                ctx.count(1)
                total += 1
                want = {"r": "ok", "before": 11, "name": c["name"][:8], "after": 22, "tag": c["tag"][:3], "w": 2.5}
                if res != want:
                    ctx.fail("char-member:%s:%s" % (lang, c["how"]), "Rec %s name=%r tag=%r: expected %s, got %s" % (
                        c["how"], c["name"], c["tag"], json.dumps(want), json.dumps(res)), {"yaml": ytext, "header": REC_HEADER, "case": c})
                if len(c["name"]) >= 8:
                    ctx.nontrivial("charmember:%s:%s:%d" % (lang, c["how"], len(c["name"])))
        finally:
            common.rmtree(d)
    return total
