"""C04: small parsers for generated C headers and Fortran modules, and a Python statement of the
Fortran 2018 (18.3) interoperability table under LP64.  Used by the translator
(tools/extract_interop.py: declaration templates, helper texts) and by the implementation-only
oracle in tools/props/c04.py.  Nothing here imports the Lean model.

Classes
  C parameter  : dict(base=(kind, bytes) | ("void",0) | ("struct", name) | ("cdesc",0) | ("funptr",0), ptr=depth)
                 kind in int / float / complex / bool / char
  Fortran dummy: dict(base=(kind, bytes) | ("cptr",0) | ("funptr",0) | ("derived", name) | ("assumedtype",0) |
                 ("procedure", name), value=bool, shape="scalar"|"array"|"desc")
                 shape "array" = assumed-size or explicit-shape (address of first element),
                 "desc" = assumed-shape / assumed-rank / allocatable / pointer / character(len=*) (CFI_cdesc_t *).
"""
import re


class ParseError(Exception):
    pass


# ------------------------------------------------------------------ LP64 tables
C_TYPES = {
    "char": ("char", 1), "signed char": ("int", 1), "unsigned char": ("int", 1),
    "short": ("int", 2), "unsigned short": ("int", 2), "short int": ("int", 2),
    "int": ("int", 4), "unsigned int": ("int", 4), "unsigned": ("int", 4), "signed": ("int", 4), "signed int": ("int", 4),
    "long": ("int", 8), "unsigned long": ("int", 8), "long int": ("int", 8),
    "long long": ("int", 8), "unsigned long long": ("int", 8), "long long int": ("int", 8),
    "size_t": ("int", 8), "ptrdiff_t": ("int", 8), "intptr_t": ("int", 8), "ssize_t": ("int", 8),
    "int8_t": ("int", 1), "int16_t": ("int", 2), "int32_t": ("int", 4), "int64_t": ("int", 8),
    "uint8_t": ("int", 1), "uint16_t": ("int", 2), "uint32_t": ("int", 4), "uint64_t": ("int", 8),
    "float": ("float", 4), "double": ("float", 8), "long double": ("float", 16),
    "float complex": ("complex", 8), "double complex": ("complex", 16), "long double complex": ("complex", 32),
    "float _Complex": ("complex", 8), "double _Complex": ("complex", 16),
    "bool": ("bool", 1), "_Bool": ("bool", 1),
    "MPI_Fint": ("int", 4),
    "void": ("void", 0),
    "CFI_cdesc_t": ("cdesc", 0),
}
# signedness, only reported (Fortran has no unsigned integers; 18.3.1 lets the signed kind stand for both)
C_UNSIGNED = {k for k in C_TYPES if k.startswith("unsigned") or k.startswith("uint") or k == "size_t"}

F_KINDS = {
    "C_SHORT": ("int", 2), "C_INT": ("int", 4), "C_LONG": ("int", 8), "C_LONG_LONG": ("int", 8),
    "C_SIGNED_CHAR": ("int", 1), "C_SIZE_T": ("int", 8), "C_INTPTR_T": ("int", 8), "C_PTRDIFF_T": ("int", 8),
    "C_INT8_T": ("int", 1), "C_INT16_T": ("int", 2), "C_INT32_T": ("int", 4), "C_INT64_T": ("int", 8),
    "C_INTMAX_T": ("int", 8),
    "C_FLOAT": ("float", 4), "C_DOUBLE": ("float", 8), "C_LONG_DOUBLE": ("float", 16),
    "C_FLOAT_COMPLEX": ("complex", 8), "C_DOUBLE_COMPLEX": ("complex", 16), "C_LONG_DOUBLE_COMPLEX": ("complex", 32),
    "C_BOOL": ("bool", 1), "C_CHAR": ("char", 1),
}
F_INTRINSIC = {"integer": "int", "real": "float", "complex": "complex", "logical": "bool", "character": "char"}
# default kinds (gfortran, no -fdefault-*): NOT the C kinds for logical (4 bytes)
F_DEFAULT = {"integer": ("int", 4), "real": ("float", 4), "complex": ("complex", 8), "logical": ("bool", 4),
             "character": ("char", 1), "double precision": ("float", 8)}


# ------------------------------------------------------------------ C
_C_QUAL = re.compile(r"\b(const|volatile|restrict|register|extern|static|inline)\b")


def strip_c_comments(text):
    text = re.sub(r"/\*.*?\*/", " ", text, flags=re.S)
    text = re.sub(r"//[^\n]*", " ", text)
    return text


def c_base(words):
    """Type words (qualifiers removed) -> base class."""
    w = [x for x in words if x]
    if w and w[0] in ("struct", "enum", "union"):
        if w[0] == "enum":
            return ("int", 4)
        if len(w) != 2:
            raise ParseError("C type %r" % " ".join(words))
        n = w[1]
        return ("struct", n[2:] if n.startswith("s_") else n)
    t = " ".join(w)
    if t in C_TYPES:
        return C_TYPES[t]
    if len(w) == 1 and re.match(r"^[A-Za-z_]\w*$", w[0]):
        return ("struct", w[0])      # typedef name: resolved structurally by the caller
    raise ParseError("C type %r" % t)


def parse_c_param(text, want_name=True):
    """One C parameter or field declaration -> dict(base, ptr, name, array)."""
    s = text.replace("\t", " ").strip().rstrip(";").strip()
    if s == "void" and want_name:
        return None
    if s == "...":
        raise ParseError("variadic parameter")
    m = re.match(r"^(.*?)\(\s*\*\s*(\w*)\s*\)\s*\((.*)\)$", s, re.S)
    if m:
        res = {"base": ("funptr", 0), "ptr": 0, "name": m.group(2), "array": None, "unsigned": False}
        try:
            res["fp_ret"] = parse_c_param(m.group(1), want_name=False)
            res["fp_params"] = parse_c_proto_params(m.group(3))
        except ParseError as e:
            res["fp_error"] = str(e)
        return res
    array = None
    m = re.match(r"^(.*?)((?:\[[^\]]*\])+)$", s)
    if m:
        s = m.group(1).strip()
        array = re.findall(r"\[([^\]]*)\]", m.group(2))
    s = _C_QUAL.sub(" ", s)
    ptr = s.count("*") + s.count("&")
    s = s.replace("*", " ").replace("&", " ")
    words = s.split()
    if not words:
        raise ParseError("empty C declaration %r" % text)
    name = ""
    if want_name and len(words) >= 2 and " ".join(words) not in C_TYPES and \
            not (words[0] in ("struct", "enum", "union") and len(words) == 2):
        name = words.pop()
    base = c_base(words)
    return {"base": base, "ptr": ptr, "name": name, "array": array,
            "unsigned": " ".join(words) in C_UNSIGNED}


def split_top(s, sep=","):
    out, depth, cur = [], 0, []
    for ch in s:
        if ch in "([{":
            depth += 1
        elif ch in ")]}":
            depth -= 1
        if ch == sep and depth == 0:
            out.append("".join(cur))
            cur = []
        else:
            cur.append(ch)
    out.append("".join(cur))
    return out


def parse_c_proto_params(text):
    text = text.replace("\t", " ").strip()
    if text in ("", "void"):
        return []
    return [parse_c_param(p) for p in split_top(text)]


_PROTO = re.compile(r"(?:^|[;}\n])\s*((?:[A-Za-z_][\w]*[\s\*]+)+?)([A-Za-z_]\w*)\s*\(([^;{}]*?)\)\s*;", re.S)


def parse_c_header(text):
    """-> (prototypes {name: {"ret": param, "params": [...]}}, structs {name: [fields]}, defines {name: text})"""
    defines = {}
    for m in re.finditer(r"^[ \t]*#[ \t]*define[ \t]+(\w+)[ \t]+(.+?)[ \t]*$", text, re.M):
        defines[m.group(1)] = strip_c_comments(m.group(2)).strip()
    body = strip_c_comments(text)
    body = re.sub(r"^[ \t]*#.*$", "", body, flags=re.M)
    body = re.sub(r'extern\s+"C"\s*\{', "", body)
    structs = parse_c_structs(body)
    # remove struct/enum/union bodies before looking for prototypes
    flat = _remove_braced(body)
    protos = {}
    for m in _PROTO.finditer(flat):
        rt, name, params = m.group(1), m.group(2), m.group(3)
        if rt.split() and rt.split()[0] in ("typedef", "return"):
            continue
        try:
            ret = parse_c_param(rt, want_name=False)
            ps = parse_c_proto_params(params)
        except ParseError as e:
            protos[name] = {"error": str(e), "text": m.group(0).strip()}
            continue
        protos[name] = {"ret": ret, "params": ps, "text": " ".join(m.group(0).split())}
    return protos, structs, defines


def parse_c_defs(text):
    """Function DEFINITIONS at file scope of a C/C++ source -> {name: {"ret", "params", "text"}}"""
    body = strip_c_comments(text)
    body = re.sub(r'"(?:\\.|[^"\\\n])*"', '""', body)
    body = re.sub(r"'(?:\\.|[^'\\\n])'", "' '", body)
    body = re.sub(r"^[ \t]*#.*$", "", body, flags=re.M)
    body = re.sub(r'extern\s*""\s*\{', " ", body)
    out, depth, i, start = {}, 0, 0, 0
    n = len(body)
    while i < n:
        ch = body[i]
        if ch == "{":
            if depth == 0:
                head = body[start:i]
                m = re.search(r"((?:[A-Za-z_][\w]*[\s\*]+)+?)([A-Za-z_]\w*)\s*\(([^(){};]*(?:\([^()]*\)[^(){};]*)*)\)\s*$", head, re.S)
                if m and m.group(1).split()[0] not in ("typedef", "return", "else", "struct", "enum", "union", "namespace", "class"):
                    rt = re.sub(r"\b(static|inline|extern)\b", " ", m.group(1))
                    if not re.search(r"\bstatic\b", m.group(1)):
                        try:
                            out[m.group(2)] = {"ret": parse_c_param(rt, want_name=False), "params": parse_c_proto_params(m.group(3)),
                                               "text": " ".join(m.group(0).split())}
                        except ParseError as e:
                            out[m.group(2)] = {"error": str(e), "text": " ".join(m.group(0).split())}
            depth += 1
        elif ch == "}":
            depth = max(0, depth - 1)
            if depth == 0:
                start = i + 1
        elif ch == ";" and depth == 0:
            start = i + 1
        i += 1
    return out


def _remove_braced(body):
    out, depth = [], 0
    for ch in body:
        if ch == "{":
            depth += 1
            continue
        if ch == "}":
            depth -= 1
            out.append(" ")
            continue
        if depth == 0:
            out.append(ch)
    return "".join(out)


def _match_brace(s, i):
    depth = 0
    for j in range(i, len(s)):
        if s[j] == "{":
            depth += 1
        elif s[j] == "}":
            depth -= 1
            if depth == 0:
                return j
    raise ParseError("unbalanced braces")


def parse_c_fields(body):
    """struct body text -> list of field dicts; an anonymous union of pointers is one pointer field."""
    fields = []
    i = 0
    body = body.strip()
    while i < len(body):
        m = re.compile(r"\s*(union|struct)\s*\{").match(body, i)
        if m:
            j = _match_brace(body, m.end() - 1)
            inner = parse_c_fields(body[m.end():j])
            k = body.index(";", j)
            name = body[j + 1:k].strip()
            if m.group(1) == "union":
                if not inner or any(f["ptr"] == 0 for f in inner):
                    raise ParseError("union with a non-pointer member: %r" % body[m.start():k])
                fields.append({"base": ("void", 0), "ptr": 1, "name": name, "array": None, "union": len(inner), "unsigned": False})
            else:
                raise ParseError("nested anonymous struct")
            i = k + 1
            continue
        k = body.find(";", i)
        if k < 0:
            if body[i:].strip():
                raise ParseError("trailing text in struct body: %r" % body[i:])
            break
        decl = body[i:k].strip()
        if decl:
            fields.append(parse_c_param(decl))
        i = k + 1
    return fields


def parse_c_structs(body):
    """`struct s_X { ... }; typedef struct s_X X;` and `typedef struct {...} X;` and `struct X {...};`"""
    structs = {}
    for m in re.finditer(r"\b(typedef\s+)?struct\s+(\w+)?\s*\{", body):
        j = _match_brace(body, m.end() - 1)
        k = body.find(";", j)
        tail = body[j + 1:k].strip() if k >= 0 else ""
        try:
            fields = parse_c_fields(body[m.end():j])
        except ParseError as e:
            fields = {"error": str(e)}
        names = []
        if m.group(2):
            n = m.group(2)
            names.append(n)
            if n.startswith("s_"):
                names.append(n[2:])
        if m.group(1) and tail:
            names.append(tail)
        for n in names:
            structs[n] = fields
    for m in re.finditer(r"\btypedef\s+struct\s+(\w+)\s+(\w+)\s*;", body):
        if m.group(1) in structs:
            structs[m.group(2)] = structs[m.group(1)]
    return structs


# ------------------------------------------------------------------ Fortran
def f_logical_lines(text):
    """Join continuation lines, drop comments and blank lines."""
    out, cur = [], ""
    for raw in text.split("\n"):
        line = _strip_f_comment(raw).rstrip()
        if not line.strip():
            continue
        s = line.strip()
        if s.startswith("#"):
            continue
        if cur:
            if s.startswith("&"):
                s = s[1:].lstrip()
            cur += " " + s
        else:
            cur = s
        if cur.endswith("&"):
            cur = cur[:-1].rstrip()
            continue
        out.append(cur)
        cur = ""
    if cur:
        out.append(cur)
    return out


def _strip_f_comment(line):
    q = None
    for i, ch in enumerate(line):
        if q:
            if ch == q:
                q = None
        elif ch in "'\"":
            q = ch
        elif ch == "!":
            return line[:i]
    return line


def parse_f_type(spec):
    """declaration-type-spec -> (base, desc_by_type)   desc_by_type: character(len=*|:) needs a descriptor"""
    s = spec.strip()
    low = s.lower()
    m = re.match(r"^(type|class|procedure)\s*\(\s*(.*?)\s*\)$", s, re.I)
    if m:
        k, n = m.group(1).lower(), m.group(2)
        if k == "procedure":
            return ("procedure", n.lower()), False
        if k == "class":
            raise ParseError("polymorphic dummy %r in a bind(C) interface" % s)
        if n == "*":
            return ("assumedtype", 0), False
        if n.upper() == "C_PTR":
            return ("cptr", 0), False
        if n.upper() == "C_FUNPTR":
            return ("funptr", 0), False
        return ("derived", n.lower()), False
    m = re.match(r"^(integer|real|complex|logical|character|double\s+precision)\s*(?:\(\s*(.*?)\s*\))?$", s, re.I)
    if not m:
        raise ParseError("Fortran type %r" % spec)
    intr = re.sub(r"\s+", " ", m.group(1).lower())
    sel = m.group(2)
    if sel is None:
        return F_DEFAULT[intr], False
    desc = False
    kind = None
    for part in split_top(sel):
        part = part.strip()
        mm = re.match(r"^(kind|len)\s*=\s*(.*)$", part, re.I)
        if mm:
            key, val = mm.group(1).lower(), mm.group(2).strip()
        elif intr == "character":
            key, val = "len", part
        else:
            key, val = "kind", part
        if key == "kind":
            kind = val
        else:
            if val in ("*", ":"):
                desc = True
            elif val != "1":
                raise ParseError("character length %r is not interoperable" % val)
    if kind is None:
        return F_DEFAULT[intr], desc
    ku = kind.upper()
    if ku not in F_KINDS:
        if re.match(r"^\d+$", ku):
            n = int(ku)
            cls = F_INTRINSIC[intr]
            return (cls, n * (2 if cls == "complex" else 1)), desc
        raise ParseError("Fortran kind %r" % kind)
    cls, n = F_KINDS[ku]
    want = F_INTRINSIC.get(intr)
    if want != cls:
        raise ParseError("kind %s used with %s" % (kind, intr))
    return (cls, n), desc


def parse_f_decl(line):
    """One declaration line -> list of (name, dummy class dict).  Raises ParseError."""
    s = line.strip()
    if "::" in s:
        left, right = s.split("::", 1)
        parts = [p.strip() for p in split_top(left)]
        spec, attrs = parts[0], [a for a in parts[1:] if a]
    else:
        m = re.match(r"^((?:type|class|procedure|integer|real|complex|logical|character)\s*(?:\([^()]*(?:\([^()]*\))?[^()]*\))?)\s+(.*)$", s, re.I)
        if not m:
            raise ParseError("Fortran declaration %r" % line)
        spec, attrs, right = m.group(1), [], m.group(2)
    base, desc = parse_f_type(spec)
    value = False
    shape_attr = None
    for a in attrs:
        al = a.lower().replace(" ", "")
        if al == "value":
            value = True
        elif al in ("allocatable", "pointer"):
            desc = True
        elif al.startswith("intent(") or al in ("target", "optional", "contiguous", "private", "public", "parameter"):
            pass
        elif al.startswith("dimension("):
            shape_attr = a[a.index("(") + 1:a.rindex(")")]
        else:
            raise ParseError("Fortran attribute %r in %r" % (a, line))
    res = []
    for ent in split_top(right):
        ent = ent.split("=")[0].strip() if "(" not in ent.split("=")[0] or ")" in ent.split("=")[0] else ent.strip()
        m = re.match(r"^(\w+)\s*(?:\((.*)\))?\s*(?:=.*)?$", ent.strip())
        if not m:
            raise ParseError("Fortran entity %r in %r" % (ent, line))
        name, dim = m.group(1), m.group(2) if m.group(2) is not None else shape_attr
        shape, extent = "scalar", None
        if dim is not None:
            d = dim.replace(" ", "")
            if d == "..":
                shape = "desc"
            elif any(x == ":" or x.endswith(":") for x in d.split(",")):
                shape = "desc"
            else:
                shape = "array"
                extent = d
        if desc:
            shape = "desc"
        res.append((name.lower(), {"base": base, "value": value, "shape": shape, "extent": extent, "text": line.strip()}))
    return res


_F_HEAD = re.compile(
    r"^(?:(?:pure|elemental|recursive|impure)\s+)*(function|subroutine)\s+(\w+)\s*(?:\((.*?)\))?\s*"
    r"((?:result\s*\(\s*\w+\s*\)\s*|bind\s*\(.*?\)\s*)*)$", re.I)


def parse_f_module(text):
    """-> (interfaces [dict], types {lname: [(field, class)]}, params {NAME: text})
    Only interface bodies carrying bind(C, name="...") are returned; abstract interfaces are returned
    with bind=None."""
    lines = f_logical_lines(text)
    ifaces, types, params = [], {}, {}
    i, n = 0, len(lines)
    depth_iface = 0
    while i < n:
        ln = lines[i]
        low = ln.lower()
        if re.match(r"^(abstract\s+)?interface\b", low):
            depth_iface += 1
            abstract = low.startswith("abstract")
            i += 1
            while i < n and not re.match(r"^end\s*interface\b", lines[i].lower()):
                m = _F_HEAD.match(lines[i])
                if m and re.search(r"bind\s*\(", lines[i], re.I):
                    kind, fname, args, tail = m.group(1).lower(), m.group(2), m.group(3) or "", m.group(4)
                    mb = re.search(r"bind\s*\(\s*c\s*(?:,\s*name\s*=\s*[\"']([^\"']*)[\"'])?\s*\)", tail, re.I)
                    mr = re.search(r"result\s*\(\s*(\w+)\s*\)", tail, re.I)
                    item = {"kind": kind, "fname": fname, "bind": mb.group(1) if mb else None, "abstract": abstract,
                            "args": [a.strip().lower() for a in args.split(",") if a.strip()],
                            "result": (mr.group(1).lower() if mr else fname.lower()) if kind == "function" else None,
                            "decls": {}, "errors": [], "head": lines[i]}
                    i += 1
                    while i < n and not re.match(r"^end\s*(function|subroutine)\b", lines[i].lower()):
                        l2 = lines[i]
                        ll = l2.lower()
                        if ll.startswith("use ") or ll.startswith("use,") or ll.startswith("import") or ll.startswith("implicit "):
                            pass
                        else:
                            try:
                                for nm, cls in parse_f_decl(l2):
                                    item["decls"][nm] = cls
                            except ParseError as e:
                                item["errors"].append(str(e))
                        i += 1
                    ifaces.append(item)
                i += 1
            i += 1
            continue
        m = re.match(r"^type\s*(?:,\s*([^:]*?))?\s*(?:::)?\s*(\w+)$", ln, re.I)
        if m and not low.startswith("type("):
            tname = m.group(2).lower()
            bindc = bool(m.group(1) and re.search(r"bind\s*\(\s*c\s*\)", m.group(1), re.I))
            fields, err = [], None
            i += 1
            while i < n and not re.match(r"^end\s*type\b", lines[i].lower()):
                l2 = lines[i].lower()
                if l2 in ("private", "sequence", "contains") or l2.startswith("procedure") or l2.startswith("final") or l2.startswith("generic"):
                    i += 1
                    continue
                try:
                    for nm, cls in parse_f_decl(lines[i]):
                        fields.append((nm, cls))
                except ParseError as e:
                    err = str(e)
                i += 1
            types[tname] = {"fields": fields, "bindc": bindc, "error": err}
            i += 1
            continue
        m = re.match(r"^integer\s*(?:\([^)]*\))?\s*,\s*parameter\b[^:]*::\s*(.*)$", ln, re.I)
        if m:
            for ent in split_top(m.group(1)):
                if "=" in ent:
                    k, v = ent.split("=", 1)
                    params[k.strip().upper()] = v.strip()
        i += 1
    return ifaces, types, params


# ------------------------------------------------------------------ interoperability (Python statement, F2018 18.3)
def scalar_match(cb, fb):
    """C base type vs Fortran type for an object of that type (18.3.1 - 18.3.3); signedness is not distinguished."""
    if cb[0] in ("int", "float", "complex", "bool", "char"):
        return fb[0] == cb[0] and fb[1] == cb[1]
    return False


def interop(c, f, structs_c=None, types_f=None, _depth=0):
    """C parameter class vs Fortran dummy class.  structs_c / types_f resolve struct <-> derived type structurally.
    Returns (ok, reason)."""
    cb, ptr = c["base"], c["ptr"] + (1 if c.get("array") else 0)
    fb = f["base"]
    if cb[0] == "struct" and structs_c is not None and cb[1] not in structs_c:
        return None, "unresolved C type %s" % cb[1]
    if f["shape"] == "desc":
        return (cb[0] == "cdesc" and ptr == 1 and not f["value"]), "descriptor dummy needs CFI_cdesc_t *"
    if cb[0] == "cdesc":
        return False, "CFI_cdesc_t * needs an assumed-shape/assumed-rank/allocatable/pointer/character(len=*) dummy"
    if fb[0] == "procedure":
        return (cb[0] == "funptr" and not f["value"]), "dummy procedure needs a C function pointer"
    if cb[0] == "funptr":
        return (fb[0] == "funptr" and f["value"] and ptr == 0), "C function pointer needs a dummy procedure or type(C_FUNPTR), value"
    if f["value"]:
        if f["shape"] != "scalar":
            return False, "value dummy must be scalar"
        if ptr == 0:
            if cb[0] == "struct" and fb[0] == "derived":
                return struct_match(cb[1], fb[1], structs_c, types_f, _depth)
            return scalar_match(cb, fb), "by-value scalar of a different type/size"
        # any C object pointer passed by value
        return fb[0] == "cptr", "a C pointer parameter needs type(C_PTR), value or a dummy without value"
    # dummy without value: C receives an address
    if ptr == 0:
        return False, "C takes the argument by value but the dummy has no value attribute"
    if ptr >= 2:
        return fb[0] == "cptr", "pointer to pointer needs type(C_PTR) without value"
    # ptr == 1
    if cb[0] == "void":
        return True, ""                    # void * accepts the address of any object
    if fb[0] == "assumedtype":
        return True, ""
    if cb[0] == "struct":
        if fb[0] != "derived":
            return False, "struct pointer needs a derived-type dummy"
        return struct_match(cb[1], fb[1], structs_c, types_f, _depth)
    return scalar_match(cb, fb), "element type/size differs"


def struct_match(cname, fname, structs_c, types_f, _depth=0):
    if structs_c is None or types_f is None:
        return True, "unresolved"
    cs, ft = structs_c.get(cname), types_f.get(fname.lower())
    if cs is None or ft is None:
        return None, "unresolved struct %s / type %s" % (cname, fname)
    if isinstance(cs, dict) or ft.get("error"):
        return False, "unparsable struct/type %s / %s" % (cname, fname)
    if not ft["bindc"]:
        return False, "derived type %s is not bind(C)" % fname
    if _depth > 6:
        return False, "struct nesting too deep"
    ff = ft["fields"]
    if len(cs) != len(ff):
        return False, "struct %s has %d fields, type %s has %d" % (cname, len(cs), fname, len(ff))
    for k, (cf, (fn, fc)) in enumerate(zip(cs, ff)):
        ok, why = field_interop(cf, fc, structs_c, types_f, _depth + 1)
        if not ok:
            return ok, "field %d (%s / %s): %s" % (k + 1, cf["name"], fn, why)
    return True, ""


def field_interop(cf, fc, structs_c, types_f, _depth=0):
    """struct member vs derived-type component (18.3.4): same type, same array extent."""
    if fc["value"] or fc["shape"] == "desc":
        return False, "component may not be value/allocatable/pointer"
    carr = cf.get("array")
    if (carr is not None) != (fc["shape"] == "array"):
        return False, "array vs scalar"
    if carr is not None:
        # C is row-major, Fortran column-major: the extents must appear in reverse order (18.3.5)
        cd = [re.sub(r"\s+", "", x) for x in carr]
        fd = [re.sub(r"\s+", "", x) for x in split_top(fc["extent"])]
        if cd != list(reversed(fd)):
            return False, "array extents: C [%s] needs Fortran (%s), found (%s)" % ("][".join(cd), ",".join(reversed(cd)), ",".join(fd))
    cb, fb = cf["base"], fc["base"]
    if cf["ptr"] >= 1:
        return fb[0] == "cptr", "pointer member needs type(C_PTR)"
    if cb[0] == "funptr":
        return fb[0] == "funptr", "function pointer member needs type(C_FUNPTR)"
    if cb[0] == "struct":
        if fb[0] != "derived":
            return False, "struct member needs a derived-type component"
        return struct_match(cb[1], fb[1], structs_c, types_f, _depth)
    return scalar_match(cb, fb), "member type/size differs (%s vs %s)" % (cb, fb)


def dims_list(dims):
    """extent strings -> list of ints, or None if one is not a literal"""
    out = []
    for d in dims:
        d = d.strip()
        if not re.match(r"^\d+$", d):
            return None
        out.append(int(d))
    return out


def _extent(dims):
    tot = 1
    for d in dims:
        d = d.strip()
        if not re.match(r"^\d+$", d):
            return None
        tot *= int(d)
    return tot


def result_interop(cret, fres, structs_c=None, types_f=None):
    """C return type vs Fortran function result (fres None = subroutine)."""
    if cret is None or (cret["base"][0] == "void" and cret["ptr"] == 0):
        return fres is None, "C returns void, Fortran declares a function"
    if fres is None:
        return False, "C returns a value, Fortran declares a subroutine"
    if fres["shape"] != "scalar":
        return False, "array/descriptor function result"
    if cret["ptr"] >= 1:
        return fres["base"][0] == "cptr", "pointer result needs type(C_PTR)"
    if cret["base"][0] == "funptr":
        # a function returning a function pointer (18.3.3): type(C_FUNPTR), not an object pointer
        return fres["base"][0] == "funptr", "function-pointer result needs type(C_FUNPTR)"
    if cret["base"][0] == "struct" and fres["base"][0] == "derived":
        return struct_match(cret["base"][1], fres["base"][1], structs_c, types_f)
    return scalar_match(cret["base"], fres["base"]), "result type/size differs"


def callback_interop(cparam, aiface, structs_c=None, types_f=None):
    """C function-pointer parameter (parse_c_param with fp_ret / fp_params) vs the abstract interface the dummy
    procedure is declared with.  Returns list of (position or "result" or "count", ok, why)."""
    out = []
    if "fp_error" in cparam or "fp_params" not in cparam:
        return [("parse", None, cparam.get("fp_error", "function pointer type not parsed"))]
    if aiface["errors"]:
        return [("parse", False, "abstract interface %s: %s" % (aiface["fname"], aiface["errors"][:2]))]
    ps = cparam["fp_params"]
    if len(ps) != len(aiface["args"]):
        return [("count", False, "the C function pointer takes %d parameters, abstract interface %s has %d dummies" % (
            len(ps), aiface["fname"], len(aiface["args"])))]
    for k, (cp, an) in enumerate(zip(ps, aiface["args"])):
        fd = aiface["decls"].get(an)
        if fd is None:
            out.append((k + 1, False, "dummy %s of %s has no declaration" % (an, aiface["fname"])))
            continue
        ok, why = interop(cp, fd, structs_c, types_f)
        out.append((k + 1, ok, "%s | Fortran `%s`" % (why, fd["text"])))
    fres = aiface["decls"].get(aiface["result"]) if aiface["result"] else None
    if aiface["result"] and fres is None:
        out.append(("result", False, "function %s declares no result type" % aiface["fname"]))
    else:
        ok, why = result_interop(cparam["fp_ret"], fres, structs_c, types_f)
        out.append(("result", ok, "%s | Fortran `%s`" % (why, (fres or {}).get("text", "subroutine"))))
    return out
