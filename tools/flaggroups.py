"""C15: the consumer loops of the four emitters over a container's function list.

Model: lean/ShroudVerif/Model/FlagGroups.lean (`luaGroups`, `pyTable`, `pyDispatch`, `fGenerics`, `wrapped`);
theorems: Props/C15Groups.lean (a member of an emitted group / a function with a wrapper of its own has its OWN flag on,
and every function whose flag is on is emitted, for every function list).

Tie: generated libraries with overload sets (free functions and methods, not contiguous in the list) whose members
carry per-declaration wrap options in every position (all 2^3 on/off patterns per language, library level on with members
switched off and library level off with members switched on).  For every run
  * the real loops are observed (which functions each `Wrapl.wrap_function` call got, `Wrapp.overloaded_methods`,
    the `Wrapf.wrap_function_impl` / `wrap_function_interface` calls and the generic-interface lists) and
  * the emitted files are searched for each member's own marker (suffixed name / argument name),
and both are compared with the compiled model applied to the flags the functions carried when the emitter ran.
Oracle (implementation only): from the YAML alone - a member whose option for a language is off must not appear in that
language's files, one whose option is on must.
"""
import re

from tools import common
from tools.gen import libgen

SETS = {
    # overload set -> (members: (suffixed name, marker argument, decl)), a differently named function sits between them
    "qset": [("qset_ma", "qma", "void qset(int qma)"), ("qset_mb", "qmb", "void qset(double qmb, int qmb2)"),
             ("qset_mc", "qmc", "void qset(int qmc, int qmc2, int qmc3)")],
    "qput": [("qput_na", "qna", "void qput(int qna)"), ("qput_nb", "qnb", "void qput(double qnb, int qnb2)"),
             ("qput_nc", "qnc", "void qput(int qnc, int qnc2, int qnc3)")],
}
SOLO = {"qset": ("qsolo", "qsa", "int qsolo(int qsa)"), "qput": ("qlone", "qla", "int qlone(int qla)")}
OPT = {"c": "wrap_c", "fortran": "wrap_fortran", "python": "wrap_python", "lua": "wrap_lua"}
KINDS = ("c", "fortran", "python", "lua")


def marker_re(kind, sname, arg):
    if kind == "lua":
        return r"\b%s\b" % arg
    if kind == "fortran":
        return r'(?<![a-z0-9_"])%s\b' % sname
    return r"%s\b" % sname


def masks_for(scheme, m):
    """member masks (bit p = member p is on) per language; Fortran only together with C"""
    if scheme == 0:
        c = (5 * m + 2) % 8
        return {"lua": m, "python": (3 * m + 1) % 8, "c": c, "fortran": c & ((7 * m + 3) % 8)}
    return {"c": 7, "fortran": m, "lua": (5 * m + 1) % 8, "python": (7 * m + 5) % 8}


def build_lib(libon, masks_by_set):
    """libon: library-level value of the four options (all on or all off); a member states an option only when it differs"""
    def member(sname, decl, mask, p):
        d = {"decl": decl, "format": {"function_suffix": "_" + sname.split("_")[1]}}
        o = {}
        for kind in KINDS:
            want = bool(mask[kind] >> p & 1)
            if want != libon:
                o[OPT[kind]] = want
        if o:
            d["options"] = o
        return d

    def seq(setname):
        ms = [member(sn, dc, masks_by_set[setname], p) for p, (sn, _a, dc) in enumerate(SETS[setname])]
        return [ms[0], {"decl": SOLO[setname][2]}, ms[1], ms[2]]
    decls = seq("qset") + [{"decl": "class Qcls", "declarations": [{"decl": "Qcls()"}] + seq("qput")}]
    return libgen.Lib("qlib", "c++", decls)


def expected_from_yaml(libon, masks_by_set):
    exp = {}
    for setname, members in SETS.items():
        for p, (sn, arg, _d) in enumerate(members):
            for kind in KINDS:
                exp[(kind, sn)] = bool(masks_by_set[setname][kind] >> p & 1)
        for kind in KINDS:
            exp[(kind, SOLO[setname][0])] = bool(libon)
    return exp


ARG_OF = {sn: arg for ms in SETS.values() for sn, arg, _ in ms}
ARG_OF.update({v[0]: v[1] for v in SOLO.values()})


def sname_of(node):
    """the suffixed name by which a function of the generated library is found in the files (None: constructor etc.)"""
    nm = node.ast.name
    if nm in ("qsolo", "qlone"):
        return nm
    if nm in SETS and node.ast.params:
        first = node.ast.params[0].name
        for sn, arg, _ in SETS[nm]:
            if arg == first:
                return sn
    return None


def parse_groups(s):
    if s == "-" or s == "":
        return []
    out = []
    for g in s.split(";"):
        n, _, ms = g.partition("=")
        out.append((int(n), [int(x) for x in ms.split(",") if x != ""]))
    return out


def parse_idxs(s):
    return [] if s in ("-", "") else [int(x) for x in s.split(",")]


class Spies:
    """observe the real consumer loops; restored in `remove`"""

    def __init__(self):
        from shroud import wrapc, wrapf, wrapp, wrapl
        self.mods = (wrapc, wrapf, wrapp, wrapl)
        self.saved = []
        self.obs = []          # one dict per observed loop
        self.errors = []

    def _patch(self, cls, name, fn):
        self.saved.append((cls, name, getattr(cls, name)))
        setattr(cls, name, fn)

    def install(self):
        wrapc, wrapf, wrapp, wrapl = self.mods
        spies = self

        def fninfo(functions, lang, genopt=None):
            rows = []
            for f in functions:
                gen = True
                if genopt:
                    gen = bool(getattr(f.options, genopt))
                    if lang == "fortran":      # constructors go to a generic of their own (not the type's)
                        gen = gen and not f.ast.is_ctor() and not f.options.class_ctor
                key = f.ast.name
                if lang == "fortran":
                    key = getattr(f.fmtdict, "F_name_generic", None) or key
                rows.append({"name": key, "on": bool(getattr(f.wrap, lang)), "gen": gen, "sname": sname_of(f)})
            return rows

        def pos(functions, f):
            for i, g in enumerate(functions):
                if g is f:
                    return i
            return -1

        # ---- Lua
        o_lfs, o_lf = wrapl.Wrapl.wrap_functions, wrapl.Wrapl.wrap_function

        def l_functions(self, cls, functions):
            rec = {"em": "lua", "cls": getattr(cls, "name", None), "fns": fninfo(functions, "lua"), "groups": [], "_f": list(functions)}
            spies.obs.append(rec)
            self._c15_rec = rec
            return o_lfs(self, cls, functions)

        def l_function(self, cls, overloads):
            rec = getattr(self, "_c15_rec", None)
            if rec is not None:
                rec["groups"].append([pos(rec["_f"], f) for f in overloads])
            return o_lf(self, cls, overloads)
        self._patch(wrapl.Wrapl, "wrap_functions", l_functions)
        self._patch(wrapl.Wrapl, "wrap_function", l_function)

        # ---- Python
        o_pfs = wrapp.Wrapp.wrap_functions

        def p_functions(self, cls, functions, fileinfo):
            rec = {"em": "python", "cls": getattr(cls, "name", None), "fns": fninfo(functions, "python", "PY_create_generic"),
                   "_f": list(functions)}
            spies.obs.append(rec)
            res = o_pfs(self, cls, functions, fileinfo)
            try:
                rec["table"] = [(k, [pos(rec["_f"], f) for f in v]) for k, v in self.overloaded_methods.items()]
            except Exception as e:  # noqa
                spies.errors.append("python table: %r" % (e,))
            return res
        self._patch(wrapp.Wrapp, "wrap_functions", p_functions)

        # ---- Fortran
        o_ffs, o_fimpl, o_fint = wrapf.Wrapf.wrap_functions, wrapf.Wrapf.wrap_function_impl, wrapf.Wrapf.wrap_function_interface

        def f_functions(self, cls, functions, fileinfo):
            rec = {"em": "fortran", "cls": getattr(cls, "name", None), "_f": list(functions), "impl": [], "iface": [],
                   "con": [bool(f.wrap.c) for f in functions]}
            spies.obs.append(rec)
            self._c15_rec = rec
            res = o_ffs(self, cls, functions, fileinfo)
            self._c15_rec = None
            try:
                rec["fns"] = fninfo(functions, "fortran", "F_create_generic")
                table = fileinfo.f_type_generic if cls is not None else fileinfo.f_function_generic
                gl = []
                for key, g in table.items():
                    members = [pos(rec["_f"], f) for f in g.functions]
                    members = [i for i in members if i >= 0]
                    if members:
                        gl.append(members)
                rec["generics"] = gl
            except Exception as e:  # noqa
                spies.errors.append("fortran generics: %r" % (e,))
            return res

        def f_impl(self, cls, node, fileinfo):
            rec = getattr(self, "_c15_rec", None)
            if rec is not None:
                rec["impl"].append(pos(rec["_f"], node))
            return o_fimpl(self, cls, node, fileinfo)

        def f_int(self, cls, node, fileinfo):
            rec = getattr(self, "_c15_rec", None)
            if rec is not None:
                rec["iface"].append(pos(rec["_f"], node))
            return o_fint(self, cls, node, fileinfo)
        self._patch(wrapf.Wrapf, "wrap_functions", f_functions)
        self._patch(wrapf.Wrapf, "wrap_function_impl", f_impl)
        self._patch(wrapf.Wrapf, "wrap_function_interface", f_int)

        # ---- C: the guard sits inside wrap_function; record the flag each function carried when it was visited
        o_cf = wrapc.Wrapc.wrap_function

        def c_function(self, cls, node):
            key = getattr(cls, "name", None)
            rec = None
            for r0 in spies.obs:
                if r0["em"] == "c" and r0["cls"] == key:
                    rec = r0
            if rec is None:
                rec = {"em": "c", "cls": key, "fns": []}
                spies.obs.append(rec)
            rec["fns"].append({"name": node.ast.name, "on": bool(node.wrap.c), "gen": True, "sname": sname_of(node)})
            return o_cf(self, cls, node)
        self._patch(wrapc.Wrapc, "wrap_function", c_function)

    def remove(self):
        for cls, name, orig in reversed(self.saved):
            setattr(cls, name, orig)
        self.saved = []


def enc_fns(fns):
    ids = {}
    toks = []
    for f in fns:
        i = ids.setdefault(f["name"], len(ids) + 1)
        toks.append("%d:%d:%d" % (i, 1 if f["on"] else 0, 1 if f["gen"] else 0))
    return " ".join(toks)


def run(ctx, r, ok, thorough, work, run_config, text_of):
    drv = common.Driver("drv_flags")
    reqs = []       # (request line, how to read the model's answer, implementation's answer, context)
    configs = []
    for libon in (True, False):
        for scheme in (0, 1):
            for m in range(8):
                if not thorough and not libon and scheme == 1 and m % 2:
                    continue
                configs.append((libon, scheme, m))
    spies = Spies()
    nrun = 0
    for libon, scheme, m in configs:
        masks = {"qset": masks_for(scheme, m), "qput": masks_for(scheme, (m + 3) % 8)}
        lib = build_lib(libon, masks)
        flags = (1, 1, 1, 1) if libon else (0, 0, 0, 0)
        spies.obs, spies.errors = [], []
        spies.install()
        try:
            res = run_config(work, "grp-%d%d%d" % (libon, scheme, m), lib, flags)
        finally:
            spies.remove()
        nrun += 1
        ctx.count(1)
        ctx.nontrivial(("overload-members", libon, scheme, m))
        rp = {"yaml": res["yaml"], "flags": list(flags)}
        if res["exc"] is not None:
            ctx.fail("c15:exception:%s" % type(res["exc"]).__name__,
                     "Shroud failed on an overload set with per-declaration wrap options: %r" % (res["exc"],), rp)
            common.rmtree(res["dirs"]["out"].rsplit("/", 1)[0])
            continue
        texts = {k: text_of(res, k) for k in KINDS}
        present = {(k, sn): bool(re.search(marker_re(k, sn, arg), texts[k])) for k in KINDS for sn, arg in ARG_OF.items()}
        # ---- oracle: the YAML alone decides
        exp = expected_from_yaml(libon, masks)
        for (kind, sn), want in sorted(exp.items()):
            ctx.count(1)
            got = present[(kind, sn)]
            if got and not want:
                ctx.fail("c15:overload-member-off-but-present:%s:%s" % (kind, sn),
                         "%s (one member of an overload set / its neighbour) has %s off but appears in the %s output; "
                         "members' options per language (bit p = member p on): %s" % (sn, OPT[kind], kind, masks), rp)
            elif want and not got:
                ctx.fail("c15:overload-member-on-but-absent:%s:%s" % (kind, sn),
                         "%s has %s on but does not appear in the %s output; members' options per language: %s" % (
                             sn, OPT[kind], kind, masks), rp)
        # ---- tie: the observed loops and the emitted files against the model on the flags seen at emitter time
        who = "libon=%s scheme=%d m=%d" % (libon, scheme, m)
        for e in spies.errors:
            reqs.append(("groups bad", "raw", "spy error " + e, who))
        dispatch_calls = set(re.findall(r"= py_(q[a-z]+_[a-z]+)\(\s*self, args, kwds\)", texts["python"]))
        for rec in spies.obs:
            fns = rec.get("fns")
            if fns is None:
                continue
            toks = enc_fns(fns)
            em = rec["em"]
            marked = [i for i, f in enumerate(fns) if f["sname"]]
            infiles = [i for i in marked if present[(em, fns[i]["sname"])]]
            tag = "%s %s cls=%s" % (who, em, rec["cls"])
            if em == "lua":
                reqs.append(("groups lua " + toks, "groups", rec["groups"], tag + " wrap_function calls"))
                reqs.append(("groups lua " + toks, ("members", marked), infiles, tag + " emitted files"))
            elif em == "python":
                if "table" in rec:
                    reqs.append(("groups pytable " + toks, "groups", [g for _, g in rec["table"]], tag + " overloaded_methods"))
                reqs.append(("groups wrapped " + toks, ("idxs", marked), infiles, tag + " emitted files"))
                called = [i for i in marked if fns[i]["sname"] in dispatch_calls and fns[i]["sname"] not in ("qsolo", "qlone")]
                reqs.append(("groups pydispatch " + toks, ("members", marked), called, tag + " dispatcher calls in the files"))
            elif em == "fortran":
                reqs.append(("groups wrapped " + toks, "idxs", rec["impl"], tag + " wrap_function_impl calls"))
                ctoks = " ".join("1:%d:1" % (1 if c else 0) for c in rec["con"])
                reqs.append(("groups wrapped " + ctoks, "idxs", rec["iface"], tag + " wrap_function_interface calls"))
                reqs.append(("groups wrapped " + toks, ("idxs", marked), infiles, tag + " emitted files"))
                if "generics" in rec:
                    reqs.append(("groups fgeneric " + toks, "groups", rec["generics"], tag + " generic interface lists"))
            elif em == "c":
                reqs.append(("groups wrapped " + toks, ("idxs", marked), infiles, tag + " emitted files"))
        common.rmtree(res["dirs"]["out"].rsplit("/", 1)[0])
    ctx.note("overload_member_runs", nrun)
    ctx.note("consumer_loop_requests", len(reqs))
    ctx.count(len(reqs))
    if not (ok and drv.available()):
        ctx.tie_broken("consumer-loops", "driver not built")
        return
    model = drv.run([q for q, _, _, _ in reqs])
    bad = []
    kinds_seen = {}
    for (q, how, impl, tag), ans in zip(reqs, model):
        kinds_seen[q.split()[1]] = kinds_seen.get(q.split()[1], 0) + 1
        try:
            if how == "raw":
                mv = ans
            elif how == "groups":
                mv = [g for _, g in parse_groups(ans)]
            elif how == "idxs":
                mv = parse_idxs(ans)
            elif how[0] == "idxs":
                mv = [i for i in parse_idxs(ans) if i in how[1]]
            else:   # members of all groups, restricted to the functions that carry a marker
                mv = sorted(i for _, g in parse_groups(ans) for i in g if i in how[1])
        except ValueError:
            mv = ans
        if mv != impl:
            bad.append({"request": q, "what": tag, "impl": impl, "model": mv})
    ctx.note("consumer_loop_requests_by_kind", kinds_seen)
    ctx.note("consumer_loop_disagreements", len(bad))
    if bad:
        ctx.tie_broken("consumer-loops", bad[:5])
    for (q, how, impl, tag) in reqs[:2]:
        ctx.sample({"request": q, "what": tag, "impl": impl})
