"""Translator for C14: where does the code read options and format fields from?

AST scan of every shroud/*.py of the working tree (nothing is executed).  A *read* is
    E.options.NAME   E.options["NAME"]   E.options.get("NAME", ...)        (same for E.fmtdict)
or the same through a local alias (`options = node.options`, `fmt_func = node.fmtdict`, also tuple-free
re-assignments inside the same function).  Each read is recorded with the syntactic *owner* expression E,
classified as
    library    self.newlibrary, newlibrary, library, self.library, self (inside class LibraryNode)
    cls        cls, self (inside class ClassNode) ...
    ns         ns, self (inside NamespaceNode)
    node       node, fcn, function, C_node, F_node, generated ..., self (inside FunctionNode)
    other      anything else (parameters called options/fmt, computed owners)
-> lean/ShroudVerif/Gen/OptReads.lean, together with the function-scoped baseline of corpus/c14.txt.
"""
import ast
import glob
import json
import os

from tools import common

OUT = os.path.join(common.LEAN, "ShroudVerif", "Gen", "OptReads.lean")
SCOPE_METHODS = {"get", "setdefault", "update", "inlocal", "delattrs", "clone", "reparent", "get_parent", "trace",
                 "_to_dict", "_to_full_dict"}
LIBRARY_OWNERS = {"self.newlibrary", "newlibrary", "_newlibrary", "library", "self.library", "self.newlibrary.wrap_namespace",
                  "newlibrary.wrap_namespace", "self.get_LibraryNode()", "node.get_LibraryNode()"}
CLASS_OF_SELF = {"LibraryNode": "library", "ClassNode": "cls", "NamespaceNode": "ns", "FunctionNode": "node",
                 "BlockNode": "block", "EnumNode": "node", "VariableNode": "node", "TypedefNode": "node"}
CACHED = []
LOOPS = []
OWNERS = ["library", "cls", "ns", "node", "block", "other"]


def classify(owner_src, enclosing_class):
    if owner_src in LIBRARY_OWNERS:
        return "library"
    if owner_src == "self":
        return CLASS_OF_SELF.get(enclosing_class, "other")
    if owner_src in ("cls", "self.cls", "class_node", "clsnode"):
        return "cls"
    if owner_src in ("ns", "namespace", "nsnode"):
        return "ns"
    base = owner_src.split(".")[0].split("[")[0]
    if base in ("node", "fcn", "func", "function", "C_node", "F_node", "generated", "new", "newfcn", "method", "var",
                "enum", "typedef", "ordered", "ordered4", "fcn1", "F_new", "C_new", "node2", "decl"):
        return "node"
    return "other"


def _kind_of_scope_expr(e):
    """('options'|'fmtdict', owner source) when e is `<owner>.options` / `<owner>.fmtdict`"""
    if isinstance(e, ast.Attribute) and e.attr in ("options", "fmtdict"):
        return e.attr, ast.unparse(e.value)
    return None


def param_reads(trees):
    """callee simple name -> {parameter position: set of NAMES read as `param.NAME` / `param["NAME"]`}.
    For a class the callee is the class name and the positions are those of __init__ without self."""
    table = {}

    def one(fn, callee, skip_self):
        params = [a.arg for a in fn.args.args]
        if skip_self and params and params[0] == "self":
            params = params[1:]
        for pos, pname in enumerate(params):
            names = set()
            for n in ast.walk(fn):
                if isinstance(n, ast.Attribute) and isinstance(n.value, ast.Name) and n.value.id == pname \
                        and isinstance(n.ctx, ast.Load) and n.attr not in SCOPE_METHODS and not n.attr.startswith("_"):
                    names.add(n.attr)
                elif isinstance(n, ast.Subscript) and isinstance(n.value, ast.Name) and n.value.id == pname \
                        and isinstance(n.slice, ast.Constant) and isinstance(n.slice.value, str):
                    names.add(n.slice.value)
            if names and pname in ("options", "fmt", "fmtdict", "fmt_func", "fmtargs", "fmt_arg", "fmt_result", "fmt_var",
                                   "fmt_class", "fmt_library", "fmt_enum", "fmt_type"):
                table.setdefault(callee, {}).setdefault(pos, set()).update(names)

    for tree in trees:
        for n in ast.walk(tree):
            if isinstance(n, ast.ClassDef):
                for m in n.body:
                    if isinstance(m, ast.FunctionDef):
                        if m.name == "__init__":
                            one(m, n.name, True)
                        else:
                            one(m, m.name, True)
            elif isinstance(n, ast.FunctionDef):
                one(n, n.name, True)
    return table


def scan_file(path, rel, ptable=None):
    tree = ast.parse(open(path).read())
    reads = []
    cached = CACHED
    ptable = ptable or {}

    def visit_func(fn, enclosing_class):
        # aliases: NAME = <owner>.options / .fmtdict  (all assignments in this function body, nested defs excluded)
        aliases = {}
        body_nodes = []

        def collect(n):
            for ch in ast.iter_child_nodes(n):
                if isinstance(ch, (ast.FunctionDef, ast.ClassDef, ast.Lambda)):
                    continue
                body_nodes.append(ch)
                collect(ch)
        collect(fn)
        for n in body_nodes:
            if isinstance(n, ast.Assign) and len(n.targets) == 1 and isinstance(n.targets[0], ast.Name):
                k = _kind_of_scope_expr(n.value)
                if k:
                    aliases.setdefault(n.targets[0].id, set()).add(k)
        site = "%s:%s%s" % (rel, (enclosing_class + ".") if enclosing_class else "", fn.name)

        def owner_of(e):
            """list of (kind, owner source) for the scope expression e"""
            k = _kind_of_scope_expr(e)
            if k:
                return [k]
            if isinstance(e, ast.Name) and e.id in aliases:
                return sorted(aliases[e.id])
            return []

        def add(e, name):
            for kind, osrc in owner_of(e):
                reads.append((kind, name, classify(osrc, enclosing_class), osrc, site))

        def names_read_in(expr):
            out = []
            for m in ast.walk(expr):
                if isinstance(m, ast.Attribute) and isinstance(m.ctx, ast.Load) and m.attr not in SCOPE_METHODS \
                        and not m.attr.startswith("_"):
                    out += [(k, m.attr) for k, _o in owner_of(m.value)]
                elif isinstance(m, ast.Subscript) and isinstance(m.slice, ast.Constant) and isinstance(m.slice.value, str):
                    out += [(k, m.slice.value) for k, _o in owner_of(m.value)]
            return out

        # a value read from a scope and kept in an attribute of a long-lived object (a pass or wrapper instance,
        # not an AST node) outlives the declaration it was read for
        if enclosing_class and enclosing_class not in CLASS_OF_SELF:
            for n in body_nodes:
                tgts = n.targets if isinstance(n, ast.Assign) else [n.target] if isinstance(n, (ast.AugAssign, ast.AnnAssign)) else []
                for t in tgts:
                    base = t
                    while isinstance(base, ast.Subscript):
                        base = base.value
                    if isinstance(base, ast.Attribute) and isinstance(base.value, ast.Name) and base.value.id == "self" \
                            and getattr(n, "value", None) is not None:
                        for k, nm in names_read_in(n.value):
                            cached.append((k, nm, site + ":self." + base.attr))

        # reads inside `for X in <expr>.namespaces / .classes / .functions`: is the scope that of the member X
        # (or of an alias of X.options) or of something else (the enclosing node)?
        def loops(n, active):
            for ch in ast.iter_child_nodes(n):
                if isinstance(ch, (ast.FunctionDef, ast.ClassDef, ast.Lambda)):
                    continue
                act = active
                if isinstance(ch, ast.For) and isinstance(ch.target, ast.Name) and isinstance(ch.iter, ast.Attribute) \
                        and ch.iter.attr in ("namespaces", "classes", "functions"):
                    act = active + [(ch.iter.attr, ch.target.id)]
                if act and isinstance(ch, ast.Attribute) and isinstance(ch.ctx, ast.Load) and ch.attr not in SCOPE_METHODS \
                        and not ch.attr.startswith("_"):
                    for kind, osrc in owner_of(ch.value):
                        for lk, var in act:
                            LOOPS.append((kind, ch.attr, lk, osrc.split(".")[0] == var, site))
                loops(ch, act)
        loops(fn, [])

        for n in body_nodes:
            if isinstance(n, ast.Attribute) and isinstance(n.ctx, ast.Load) and n.attr not in SCOPE_METHODS \
                    and not n.attr.startswith("_"):
                add(n.value, n.attr)
            elif isinstance(n, ast.Subscript) and isinstance(n.ctx, ast.Load) and isinstance(n.slice, ast.Constant) \
                    and isinstance(n.slice.value, str):
                add(n.value, n.slice.value)
            elif isinstance(n, ast.Call) and isinstance(n.func, ast.Attribute) and n.func.attr in ("get", "inlocal") \
                    and n.args and isinstance(n.args[0], ast.Constant) and isinstance(n.args[0].value, str):
                add(n.func.value, n.args[0].value)
            if isinstance(n, ast.Call):
                # X.eval_template("NAME"[, "TNAME"]) reads X.options["NAME" + "TNAME" + "_template"]
                if isinstance(n.func, ast.Attribute) and n.func.attr == "eval_template" and n.args \
                        and isinstance(n.args[0], ast.Constant):
                    tname = n.args[1].value if len(n.args) > 1 and isinstance(n.args[1], ast.Constant) else ""
                    osrc = ast.unparse(n.func.value)
                    reads.append(("options", n.args[0].value + tname + "_template", classify(osrc, enclosing_class), osrc, site))
                # f(..., X.options, ...) where f reads NAMES from that parameter
                callee = n.func.id if isinstance(n.func, ast.Name) else n.func.attr if isinstance(n.func, ast.Attribute) else None
                if callee in ptable:
                    for pos, arg in enumerate(n.args):
                        if pos in ptable[callee]:
                            for nm in sorted(ptable[callee][pos]):
                                add(arg, nm)

    def walk(n, cls):
        for ch in ast.iter_child_nodes(n):
            if isinstance(ch, ast.ClassDef):
                walk(ch, ch.name)
            elif isinstance(ch, ast.FunctionDef):
                visit_func(ch, cls)
                walk(ch, cls)
            else:
                walk(ch, cls)
    walk(tree, None)
    return reads


def scan(repo=None):
    repo = repo or common.REPO
    reads = []
    del CACHED[:]
    del LOOPS[:]
    paths = sorted(glob.glob(os.path.join(repo, "shroud", "*.py")))
    ptable = param_reads([ast.parse(open(p).read()) for p in paths])
    for path in paths:
        reads += scan_file(path, os.path.basename(path), ptable)
    return reads


def baseline_kind(field):
    out = []
    cpath = os.path.join(common.CORPUS, "c14.txt")
    if os.path.exists(cpath):
        for ln in open(cpath):
            ln = ln.strip()
            if ln.startswith("{"):
                rec = json.loads(ln)
                if rec.get("type") == "baseline":
                    out += rec.get(field, [])
    return sorted(set(out))


def baseline():
    o, f = [], []
    cpath = os.path.join(common.CORPUS, "c14.txt")
    if os.path.exists(cpath):
        for ln in open(cpath):
            ln = ln.strip()
            if ln.startswith("{"):
                rec = json.loads(ln)
                if rec.get("type") == "baseline":
                    o += rec.get("function_scoped_options", [])
                    f += rec.get("function_scoped_format_fields", [])
    return sorted(set(o)), sorted(set(f))


def _nats(s):
    return "[" + ", ".join(str(ord(c)) for c in s) + "]"


def render(reads, base_o, base_f):
    names, sites = [], []
    cached = sorted(set(CACHED))
    loopreads = sorted(set(LOOPS))
    ns_o, cls_o = baseline_kind("namespace_scoped_options"), baseline_kind("class_scoped_options")
    for k, n, lk, onm, st in loopreads:
        if n not in names:
            names.append(n)
        if st not in sites:
            sites.append(st)
    for n in ns_o + cls_o:
        if n not in names:
            names.append(n)
    for k, n, st in cached:
        if n not in names:
            names.append(n)
        if st not in sites:
            sites.append(st)
    for kind, name, cls, osrc, site in reads:
        if name not in names:
            names.append(name)
        if site not in sites:
            sites.append(site)
    for n in base_o + base_f:
        if n not in names:
            names.append(n)
    ni = {n: i for i, n in enumerate(names)}
    si = {n: i for i, n in enumerate(sites)}
    out = ["/-! GENERATED by tools/extract_optreads.py from shroud/*.py and corpus/c14.txt -- do not edit.",
           "Every syntactic read of an option / format field with the class of its owner expression. -/",
           "namespace Shroud.Gen.OptReads", "",
           "inductive Owner where", "  | library | cls | ns | node | block | other", "deriving Repr, DecidableEq", "",
           "/-- name id -> code points -/", "def names : List (List Nat) := ["]
    out.append(",\n".join("  /- %d %s -/ %s" % (i, n, _nats(n)) for i, n in enumerate(names)))
    out += ["]", "", "/-- site id -> `file:Class.function` -/", "def sites : List (List Nat) := ["]
    out.append(",\n".join("  /- %d %s -/ %s" % (i, n, _nats(n)) for i, n in enumerate(sites)))
    out += ["]", ""]
    for kind, dname in (("options", "optionReads"), ("fmtdict", "formatReads")):
        rows = sorted(set((ni[n], c, si[s]) for k, n, c, o, s in reads if k == kind))
        out.append("/-- (name, owner class, site) -/")
        out.append("def %s : List (Nat × Owner × Nat) := [" % dname)
        out.append(",\n".join("  (%d, .%s, %d)" % row for row in rows))
        out += ["]", ""]
    out.append("/-- (name, site:self.attr): a value read from an option (true) / format (false) scope is stored in an attribute")
    out.append("    of a pass or wrapper object, where it outlives the declaration it was read for -/")
    out.append("def cachedReads : List (Bool × Nat × Nat) := [")
    out.append(",\n".join("  (%s, %d, %d)" % ("true" if k == "options" else "false", ni[n], si[st]) for k, n, st in cached))
    out += ["]", ""]
    out.append("/-- option reads inside a loop over `.namespaces` (0) / `.classes` (1) / `.functions` (2):")
    out.append("    (name, loop kind, read on the loop variable's own scope?, site) -/")
    out.append("def loopReads : List (Nat × Nat × Bool × Nat) := [")
    lk_id = {"namespaces": 0, "classes": 1, "functions": 2}
    out.append(",\n".join("  (%d, %d, %s, %d)" % (ni[n], lk_id[lk], "true" if onm else "false", si[st])
                          for k, n, lk, onm, st in loopreads if k == "options"))
    out += ["]", ""]
    out.append("/-- options measured as read from namespace scopes only / class scopes only (corpus/c14.txt) -/")
    out.append("def namespaceScopedOptions : List Nat := [" + ", ".join("/- %s -/ %d" % (n, ni[n]) for n in ns_o) + "]")
    out.append("def classScopedOptions : List Nat := [" + ", ".join("/- %s -/ %d" % (n, ni[n]) for n in cls_o) + "]")
    out.append("")
    out.append("/-- options measured (full trace, corpus/c14.txt) as read from function scopes only -/")
    out.append("def functionScopedOptions : List Nat := [" + ", ".join("/- %s -/ %d" % (n, ni[n]) for n in base_o) + "]")
    out.append("")
    out.append("def functionScopedFormats : List Nat := [" + ", ".join("/- %s -/ %d" % (n, ni[n]) for n in base_f) + "]")
    out += ["", "end Shroud.Gen.OptReads", ""]
    return "\n".join(out)


def regenerate(repo=None):
    reads = scan(repo)
    base_o, base_f = baseline()
    text = render(reads, base_o, base_f)
    os.makedirs(os.path.dirname(OUT), exist_ok=True)
    old = open(OUT).read() if os.path.exists(OUT) else None
    if old != text:
        with open(OUT, "w") as f:
            f.write(text)
    return reads, old != text


if __name__ == "__main__":
    import collections
    reads, ch = regenerate()
    print("changed" if ch else "unchanged", len(reads), "reads")
    print("cached:", sorted(set(CACHED)))
    ns_o, cls_o = baseline_kind("namespace_scoped_options"), baseline_kind("class_scoped_options")
    for k, n, lk, onm, st in sorted(set(LOOPS)):
        if k == "options" and ((lk == "namespaces" and n in ns_o) or (lk == "classes" and n in cls_o)):
            print("LOOP", n, lk, "member" if onm else "ENCLOSING", st)
    base_o, base_f = baseline()
    c = collections.Counter((k, cls) for k, n, cls, o, s in reads)
    print(dict(c))
    for k, n, cls, o, s in reads:
        if cls == "library" and ((k == "options" and n in base_o) or (k == "fmtdict" and n in base_f)):
            print("LIBRARY-LEVEL READ OF FUNCTION-SCOPED", k, n, o, s)
    oth = collections.Counter(o for k, n, cls, o, s in reads if cls == "other")
    print("other owners:", dict(oth))
