"""Translator for C06: /repo working tree -> lean/ShroudVerif/Gen/Capsule.lean

For every *effective* statement block (after base / mixin / language selection, exactly as
statements.update_stmt_tree builds them) of statements.fc_statements and wrapp.py_statements, for
both languages, every template line of every clause is classified through an explicit pattern
table into memory operations:

  alloc codes   1 ShroudStrAlloc   2 ShroudStrArrayAlloc   3 new   4 malloc
  free codes    1 ShroudStrFree    2 ShroudStrArrayFree    3 delete 4 free
  hand-over     1 C capsule/context gets {idtor} and find_idtor will store a non-zero index
                  (statement destructor_name, or owner=caller from the statement)
                2 Python: NumPy capsule with {PY_capsule_destructor_function} + context {capsule_order}
                  and allocate_local_var (wrapp.allocate_memory registers the destructor)
                3 Python: {PY_to_object_idtor_func}(.., {capsule_order}) and allocate_local_var

A line that mentions memory management (regex SUSPICIOUS) and matches no pattern, or sits in a
clause whose role is unknown, makes the translator raise: a broken tie, never a silent skip.
"""
import json
import os
import re
import subprocess
import sys

from tools import common

GEN = os.path.join(common.LEAN, "ShroudVerif", "Gen", "Capsule.lean")

SUSPICIOUS = re.compile(r"alloc|\bnew\b|free|\bdelete\b|strdup|idtor|capsule_order|PyCapsule_New", re.I)

# (regex, kind, code); first match wins.  kinds: A alloc, F free, H hand-over marker, N neutral
PATTERNS = [
    (r"ShroudStrArrayAlloc\(", "A", 2),
    (r"ShroudStrAlloc\(", "A", 1),
    (r"ShroudStrArrayFree\(", "F", 2),
    (r"ShroudStrFree\(", "F", 1),
    (r"=\s*new\s+(\{|std::)", "A", 3),
    (r"=\s*(static_cast<[^>]*>\s*\()?\s*(std::)?malloc\(", "A", 4),
    (r"^delete (cxx_ptr|\{CXX_this\});$", "F", 3),
    (r"^(if \(\{cxx_var\} != \{nullptr\}\)\s*)?(\{stdlib\})?free\((\{cxx_var\}|cxx_ptr|ptr)\);$", "F", 4),
    (r"->(cxx\.)?idtor = \{idtor\};$", "H", 1),
    (r"^ShroudStrToArray\(.*\{idtor\}\);$", "H", 1),
    (r"^\{py_capsule\} = PyCapsule_New\(\{cxx_var\}, \"\{PY_numpy_array_capsule_name\}\", \s*\{PY_capsule_destructor_function\}\);$", "H", 2),
    (r"^PyCapsule_SetContext\(\{py_capsule\},\s*\{PY_fetch_context_function\}\(\{capsule_order\}\)\);$", "H", 2),
    (r"^\{py_var\} = \{PY_to_object_idtor_func\}\(.*\{capsule_order\}\);$", "H", 3),
    # release through the registered destructor (matches whatever was allocated)
    (r"\{PY_release_memory_function\}\(\{capsule_order\}, \{cxx_var\}\);", "F", 9),
    (r"^\{py_var\} = PyCapsule_New\(\{cxx_var\}, NULL, NULL\);$", "N", 0),   # raw pointer pass-through
    # Fortran allocatable dummies / results: owned and released by the Fortran caller
    (r"^allocate\(", "N", 0),
    (r"^if \(allocated\(\{f_var\}\)\) deallocate\(\{f_var\}\)$", "N", 0),
    (r"allocatable ::", "N", 0),
    (r"CFI_allocate\(", "N", 0),
    (r"^// XXX - .*", "N", 0),
]
PATTERNS = [(re.compile(p), k, c) for p, k, c in PATTERNS]

ROLE_ALLOC = {"pre_call", "call"}
ROLE_RELEASE = {"post_call", "cleanup", "final", "post_call_capsule"}
ROLE_FAIL = {"fail", "fail_capsule"}
ROLE_DTOR = {"destructor"}
# clauses that declare or convert; an allocation found there is reported as unclassified
ROLE_OTHER = {"arg_decl", "f_arg_decl", "f_result_decl", "c_arg_decl", "declare", "declare_capsule", "arg_declare",
              "post_declare", "post_parse", "setter", "getter", "arg_call", "arg_c_call", "ret", "declare_keep",
              "parse_args", "cxx_local_var", "iface_header", "impl_header", "buf_args", "buf_extra", "f_module_line",
              "c_helper", "f_helper", "mixin", "dealloc_capsule", "c_dealloc_capsule", "cxx_dealloc_capsule",
              "c_pre_call", "cxx_pre_call", "c_post_call", "cxx_post_call", "c_impl_header", "cxx_impl_header",
              "c_cxx_local_var", "cxx_cxx_local_var", "c_declare", "cxx_declare", "c_post_parse", "cxx_post_parse",
              "c_cleanup", "cxx_cleanup", "c_fail", "cxx_fail", "arg_name", "need_wrapper", "result"}

DUMP = r"""
import json, sys
from shroud import statements, wrapp, util
lang = sys.argv[1]
statements.update_statements_for_language(lang)
wrapp.update_statements_for_language(lang)
keys = set()
for lst in (statements.fc_statements, wrapp.py_statements):
    for it in lst:
        keys |= set(it)
for sc in (statements.CStmts, statements.FStmts, wrapp.PyStmts):
    keys |= set(k for k in sc.__dict__ if not k.startswith("_"))
out = []
def walk(tab, tree):
    for k, v in sorted(tree.items()):
        if k == "_stmts":
            d = {}
            for key in sorted(keys):
                try:
                    val = getattr(v, key)
                except AttributeError:
                    continue
                if isinstance(val, (list, tuple)) and all(isinstance(x, str) for x in val):
                    d[key] = list(val)
                elif isinstance(val, (str, bool, int)) or val is None:
                    d[key] = val
            out.append([tab, tree["_key"], d])
        elif isinstance(v, dict) and not k.startswith("_"):
            walk(tab, v)
walk("fc", statements.cf_tree)
walk("py", wrapp.py_tree)
print(json.dumps(out))
"""


def dump(lang):
    e = dict(os.environ, PYTHONPATH=common.REPO, PYTHONDONTWRITEBYTECODE="1")
    p = subprocess.run([sys.executable, "-c", DUMP, lang], stdout=subprocess.PIPE, stderr=subprocess.PIPE, text=True, env=e)
    if p.returncode:
        raise RuntimeError("extract_capsule dump failed: " + p.stderr[-2000:])
    return json.loads(p.stdout.strip().split("\n")[-1])


class Unclassified(Exception):
    pass


def unhint(line):
    """drop the break hints of write_continue (TAB; the blank after a hinted position stays a single blank)"""
    return re.sub(r" {2,}", " ", line.replace("\t", "")).strip()


def classify(line):
    line = unhint(line)
    if not SUSPICIOUS.search(line):
        return ("N", 0)
    for rx, k, c in PATTERNS:
        if rx.search(line):
            return (k, c)
    return None


def capsule_arg_intents(lang, problems):
    """(block name, intent code) of every Fortran argument declared `type({F_capsule_type})` in an
    effective fc block: 0 OUT (finalised on entry: a reused capsule releases what it held), 1 INOUT, 2 IN, 3 none"""
    res = []
    for tab, name, d in dump(lang):
        if tab != "fc":
            continue
        for clause in ("arg_decl", "f_arg_decl"):
            for text in d.get(clause) or []:
                for line in text.split("\n"):
                    if "{F_capsule_type}" not in line:
                        continue
                    m = re.search(r"intent\((\w+)\)", line, re.I)
                    code = {"OUT": 0, "INOUT": 1, "IN": 2}.get(m.group(1).upper(), 9) if m else 3
                    if code == 9:
                        problems.append("%s fc %s.%s: unknown intent in %r" % (lang, name, clause, line))
                    res.append((name, code))
    return res


def registry_key_code(problems):
    """the expression Wrapc.compute_idtor uses as key of the destructor registry:
    0 = the typemap's cxx_type (namespace-qualified C++ type), 1 = the bare node name, 9 = anything else"""
    import ast
    src = open(os.path.join(common.REPO, "shroud", "wrapc.py")).read()
    tree = ast.parse(src)
    for node in ast.walk(tree):
        if isinstance(node, ast.FunctionDef) and node.name == "compute_idtor":
            assigns = {}
            for n in ast.walk(node):
                if isinstance(n, ast.Assign) and len(n.targets) == 1 and isinstance(n.targets[0], ast.Name):
                    assigns[n.targets[0].id] = ast.unparse(n.value)
            for n in ast.walk(node):
                if isinstance(n, ast.Call) and isinstance(n.func, ast.Attribute) and n.func.attr == "add_capsule_code" and n.args:
                    key = ast.unparse(n.args[0])
                    key = assigns.get(key, key)
                    if key == "ntypemap.cxx_type" or key == "node.typemap.cxx_type":
                        return 0
                    if key in ("node.name", "ntypemap.name"):
                        return 1
                    return 9
    problems.append("compute_idtor: no add_capsule_code call found")
    return 9


GROUPS = {"pre_call": 0, "call_code": 1, "post_call_pattern": 2, "post_call": 3, "final_code": 4, "return_code": 5}


def wrap_group_order(problems):
    """the order in which Wrapc.wrap_function concatenates the statement groups of a C wrapper
    (`C_code = pre_call + call_code + ...`): 0 pre_call, 1 call, 2 post_call_pattern, 3 post_call,
    4 final (user supplied release code), 5 return"""
    import ast
    tree = ast.parse(open(os.path.join(common.REPO, "shroud", "wrapc.py")).read())
    found = []
    for node in ast.walk(tree):
        if isinstance(node, ast.Assign) and len(node.targets) == 1 and isinstance(node.targets[0], ast.Name) \
                and node.targets[0].id == "C_code" and isinstance(node.value, ast.BinOp):
            names = []

            def flat(e):
                if isinstance(e, ast.BinOp) and isinstance(e.op, ast.Add):
                    flat(e.left)
                    flat(e.right)
                elif isinstance(e, ast.Name):
                    names.append(e.id)
                else:
                    names.append("?" + ast.unparse(e))
            flat(node.value)
            found.append(names)
    if len(found) != 1:
        problems.append("wrap_function: expected one `C_code = a + b + ...` assignment, found %d" % len(found))
        return []
    out = []
    for n in found[0]:
        if n not in GROUPS:
            problems.append("wrap_function: unknown statement group %r in C_code" % n)
        out.append(GROUPS.get(n, 9))
    return out


def rows_for(lang, problems):
    rows = []
    dealloc_flag = dealloc_capsule_registers()
    for tab, name, d in dump(lang):
        allocs, frees, fails, hand, dtor = [], [], [], [], []
        for clause, val in d.items():
            if not isinstance(val, list) or clause in ("mixin", "buf_args", "buf_extra"):
                continue
            for text in val:
                for line in text.split("\n"):
                    line = line.strip()
                    cl = classify(line)
                    if cl is None:
                        problems.append("%s %s %s.%s: cannot classify %r" % (lang, tab, name, clause, line))
                        continue
                    k, c = cl
                    if k == "N":
                        continue
                    if clause in ROLE_ALLOC:
                        if k == "A":
                            allocs.append(c)
                        elif k == "F" and clause == "call":
                            pass    # c_shadow_dtor: the wrapped destructor itself
                        elif k == "H" and clause == "call":
                            hand.append(c)   # c_shadow_ctor stores {idtor} right after `new`
                        else:
                            problems.append("%s %s %s.%s: %s%d in an allocating clause: %r" % (lang, tab, name, clause, k, c, line))
                    elif clause in ROLE_RELEASE:
                        if k == "F":
                            frees.append(c)
                        elif k == "H":
                            hand.append(c)
                        else:
                            problems.append("%s %s %s.%s: allocation in a release clause: %r" % (lang, tab, name, clause, line))
                    elif clause in ROLE_FAIL:
                        if k == "F":
                            fails += [3, 4] if c == 9 else [c]
                        else:
                            problems.append("%s %s %s.%s: %s%d in a fail clause: %r" % (lang, tab, name, clause, k, c, line))
                    elif clause in ROLE_DTOR:
                        if k == "F":
                            dtor.append(c)
                        else:
                            problems.append("%s %s %s.%s: %s%d in a destructor: %r" % (lang, tab, name, clause, k, c, line))
                    elif clause in ROLE_OTHER:
                        if clause.endswith("dealloc_capsule"):
                            continue    # presence flag only, see dealloc_capsule_registers
                        if clause.startswith(("c_", "cxx_")) and clause.split("_", 1)[1] in (ROLE_ALLOC | ROLE_RELEASE | ROLE_FAIL):
                            continue    # language variants were already folded into the generic clause
                        problems.append("%s %s %s.%s: memory operation in a non-executable clause: %r" % (lang, tab, name, clause, line))
                    else:
                        problems.append("%s %s %s.%s: clause with unknown role holds %r" % (lang, tab, name, clause, line))
        alv = bool(d.get("allocate_local_var"))
        if alv:
            # wrapp.add_stmt_capsule/allocate_memory: `new` (C++) or `malloc` (C), destructor registered,
            # fail block releases through PY_release_memory_function
            allocs.append(3 if lang == "cxx" else 4)
            fails.append(3 if lang == "cxx" else 4)
        # effective hand-over
        handover = 0
        if tab == "fc":
            if 1 in hand and (d.get("destructor_name") or d.get("owner") == "caller"):
                handover = 1
        else:
            # wrapp registers a destructor for allocate_local_var blocks (allocate_memory) and for blocks
            # that carry a <lang>_dealloc_capsule field (argument loop of wrap_function)
            registered = alv or (dealloc_flag and bool(d.get(lang + "_dealloc_capsule")))
            if registered and 2 in hand:
                handover = 2
            elif registered and 3 in hand:
                handover = 3
        if d.get("destructor_name") and not dtor:
            problems.append("%s %s %s: destructor_name without a destructor that frees" % (lang, tab, name))
        if allocs or frees or fails or hand:
            rows.append(dict(lang=lang, tab=tab, name=name, allocs=allocs, frees=frees, fails=fails,
                             handover=handover, goto_fail=bool(d.get("goto_fail")),
                             dtor=dtor, dname=bool(d.get("destructor_name"))))
    return rows


def dealloc_capsule_registers():
    """does wrapp.py register a destructor for a block that has a `<lang>_dealloc_capsule` field?
    (the field's lines themselves are not used as code; its presence selects the registration)"""
    src = open(os.path.join(common.REPO, "shroud", "wrapp.py")).read()
    m = re.search(r'intent_blk\.get\(self\.language \+ "_dealloc_capsule"\)(.{0,900}?)update_code_blocks', src, re.S)
    return bool(m and "fmt_arg.capsule_order = self.add_capsule_code(" in m.group(1))


def nat_list(s):
    return "[" + ", ".join(str(ord(c)) for c in s) + "]"


def render(rows, capargs, keycode=0, order=()):
    L = ["/- GENERATED by tools/extract_capsule.py from the /repo working tree.  Do not edit. -/",
         "namespace Shroud.Gen.Capsule", "",
         "/-- one effective statement block that allocates, frees or hands over memory:",
         "    (name as code points, language 0=c 1=cxx, table 0=fc 1=py, alloc codes in pre_call/call,",
         "     free codes in post_call/cleanup/final, free codes in fail, hand-over code, goto_fail) -/",
         "structure Row where",
         "  name : List Nat",
         "  lang : Nat",
         "  tab : Nat",
         "  allocs : List Nat",
         "  frees : List Nat",
         "  fails : List Nat",
         "  handover : Nat",
         "  gotoFail : Bool",
         "  deriving Repr, DecidableEq", "",
         "def rows : List Row := ["]
    body = []
    for r in rows:
        body.append("  ⟨%s, %d, %d, %s, %s, %s, %d, %s⟩  -- %s %s %s" % (
            nat_list(r["name"]), 0 if r["lang"] == "c" else 1, 0 if r["tab"] == "fc" else 1,
            r["allocs"], r["frees"], r["fails"], r["handover"], "true" if r["goto_fail"] else "false",
            r["lang"], r["tab"], r["name"]))
    # the comma has to precede the comment
    body = [b.replace("⟩  --", "⟩,  --") for b in body]
    if body:
        last = body[-1]
        body[-1] = last.replace("⟩,  --", "⟩   --")
    L += body
    L += ["]", "",
          "/-- (block name, intent code) of every Fortran `type(<capsule>)` argument: 0 OUT, 1 INOUT, 2 IN, 3 none -/",
          "def capsuleArgIntents : List (List Nat × Nat) := [",
          ",\n".join("  (%s, %d)" % (nat_list(n), c) for n, c in capargs), "]", "",
          "/-- key of the destructor registry in Wrapc.compute_idtor: 0 qualified C++ type, 1 bare class name, 9 other -/",
          "def registryKeyCode : Nat := %d" % keycode, "",
          "/-- order of the statement groups of a C wrapper: 0 pre_call, 1 call, 2 post_call_pattern, 3 post_call, 4 final, 5 return -/",
          "def wrapGroupOrder : List Nat := [%s]" % ", ".join(map(str, order)), "",
          "end Shroud.Gen.Capsule", ""]
    return "\n".join(L)


def write_if_changed(path, text):
    os.makedirs(os.path.dirname(path), exist_ok=True)
    try:
        if open(path).read() == text:
            return False
    except OSError:
        pass
    with open(path, "w") as f:
        f.write(text)
    return True


def regenerate():
    problems = []
    rows = rows_for("c", problems) + rows_for("cxx", problems)
    if problems:
        raise Unclassified("\n".join(problems[:20]))
    capargs = capsule_arg_intents("c", problems) + capsule_arg_intents("cxx", problems)
    if problems:
        raise Unclassified("\n".join(problems[:20]))
    keycode = registry_key_code(problems)
    if problems:
        raise Unclassified("\n".join(problems[:20]))
    order = wrap_group_order(problems)
    if problems:
        raise Unclassified("\n".join(problems[:20]))
    text = render(rows, capargs, keycode, order)
    changed = write_if_changed(GEN, text)
    return {"capsule_args": len(capargs), "rows": len(rows), "allocating": sum(1 for r in rows if r["allocs"]), "changed": changed,
            "row_list": rows}


if __name__ == "__main__":
    info = regenerate()
    for r in info.pop("row_list"):
        print(r)
    print(json.dumps(info))
