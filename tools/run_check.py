"""Entry point: ./check <Cnn> --tier quick|thorough [--replay file]"""
import argparse
import importlib
import os
import sys
import traceback

from tools import common


def main():
    ap = argparse.ArgumentParser()
    ap.add_argument("prop")
    ap.add_argument("--tier", default=os.environ.get("VERIF_TIER", "quick"), choices=["quick", "thorough"])
    ap.add_argument("--replay", default=None)
    a = ap.parse_args()
    prop = a.prop.upper()
    mod = importlib.import_module("tools.props.%s" % prop.lower())
    if a.replay:
        return mod.replay(a.replay)
    ctx = common.Ctx(prop, a.tier, mod.LEVEL)
    try:
        mod.run(ctx)
    except Exception:
        # machinery failure: not a verdict about the property
        traceback.print_exc()
        print("%s ERROR: check machinery failed (exit 2, not a violation)" % prop)
        return 2
    return ctx.finish()


if __name__ == "__main__":
    sys.exit(main())
