"""Translator for C06 (Python half): /repo working tree -> lean/ShroudVerif/Gen/PyRes.lean

Every effective argument/result block of wrapp.py_statements (both languages; constructor and
descriptor blocks `py_ctor*`, `py_descr*`, `base_*` are not argument blocks and are skipped) becomes a
resource-event list per clause (post_parse, pre_call, post_call[+post_call_capsule], cleanup,
fail[+fail_capsule]) through an explicit pattern table.  Variables: 0 {py_var}, 1 {value_var}.dataobj,
2 {py_capsule}, 3 {cxx_var}/{c_var} memory.  Event codes: see lean/ShroudVerif/Model/PyRes.lean.
A line that looks like resource handling (regex SUSPICIOUS) and matches no pattern raises.
"""
import json
import os
import re

from tools import common, extract_capsule

GEN = os.path.join(common.LEAN, "ShroudVerif", "Gen", "PyRes.lean")

SUSPICIOUS = re.compile(r"Py_X?(DECREF|INCREF|CLEAR)|_New|New\(|_From|From\w*\(|malloc|free\(|goto fail|hnamefunc|to_PyList|"
                        r"PY_to_object|PY_cleanup_decref|release_memory|SetBaseObject|steal|PyArray_\w+\(")

PY, VAL, CAP, MEM = 0, 1, 2, 3
NEW_OBJ = (r"PyBool_FromLong|PyString_FromStringAndSize|PyArray_SimpleNewFromData|PyArray_SimpleNew|PyArray_FROM_OTF|"
           r"PyArray_FromAny|PyArray_NewFromDescr|PyObject_New|\{hnamefunc\d\}|SHROUD_to_PyList_vector_\{cxx_T\}|\{PY_to_object_func\}")

# (regex, events)  first match wins
PATTERNS = [
    (r"^\{py_capsule\} = PyCapsule_New\(\{cxx_var\}, \"\{PY_numpy_array_capsule_name\}\",", [(1, CAP), (5, MEM * 10 + CAP)]),
    (r"^if \(PyArray_SetBaseObject\(.*\{py_capsule\}\) < 0\)\s*goto fail;$", [(6, 0), (5, CAP * 10 + PY)]),
    (r"^PyCapsule_SetContext\(", []),
    (r"^\{py_var\} = \{PY_to_object_idtor_func\}\(.*\{cxx_var\},\s*\{capsule_order\}\);$", [(1, PY), (5, MEM * 10 + PY)]),
    (r"^\{py_var\} = PyCapsule_New\(\{cxx_var\}, NULL, NULL\);$", [(1, PY)]),
    (r"^(\{npy_intp_asgn\})?(\{PyObject\} \* )?\{py_var\} =\s*(\{cast_reinterpret\}PyArrayObject \*\{cast1\})?(%s)\s*\(" % NEW_OBJ, [(1, PY)]),
    (r"^if \(\{hnamefunc0\}\s*\(\{pytmp_var\}, &\{value_var\}\) == 0\)$", [(1, VAL)]),
    (r"^if \(\{hnamefunc0\}\s*\(\s*\{pytmp_var\},\s*\"\{c_var\}\",\s*\{cxx_var\}\) == -1\)$", [(6, 0)]),
    (r"^if \(PyErr_Occurred\(\)\)$", [(6, 0)]),
    (r"^\{c(xx)?_var\} = (static_cast<\{cxx_type\} \*>\s*\()?\s*(std::)?malloc\(", "MALLOC"),
    (r"^\{cxx_var\} = new \{cxx_type\};$", [(2, MEM)]),
    (r"^Py_INCREF\(\{py_var\}\);$", [(2, PY)]),      # the argument object is returned again: a new owned reference
    (r"^Py_XDECREF\(\{py_var\}\);$", [(3, PY)]),
    (r"^\{PY_cleanup_decref\}\(\{py_var\}\);$", [(3, PY)]),
    (r"^Py_XDECREF\(\{value_var\}\.dataobj\);$", [(3, VAL)]),
    (r"^Py_XDECREF\(\{py_capsule\}\);$", [(3, CAP)]),
    (r"^(if \(\{cxx_var\} != \{nullptr\}\)\s*)?\{stdlib\}free\(\{cxx_var\}\);$", [(3, MEM)]),
    (r"^\{cxx_var\} = \{nullptr\};$", [(4, MEM)]),
    (r"^if \(\{py_var\} == \{nullptr\} && \{cxx_var\} != \{nullptr\}\)\s*\{PY_release_memory_function\}\(\{capsule_order\}, \{cxx_var\}\);$",
     [(7, MEM * 10 + PY)]),
    # checks that belong to the preceding fallible acquisition, error text, plain data moves
    (r"^(\+)?goto fail;(-)?$", []),
    (r"^if \(\{(py_var|cxx_var|py_capsule)\} == \{nullptr\}\) (\{\{\+|goto fail;)$", []),
    (r"^PyErr_(SetString|NoMemory)\(", []),
    (r"^(\{npy_intp_asgn\})?Py_INCREF\(\{PYN_descr\}\);$", []),   # stolen by the array constructor that follows
    (r"^\{(c_var|cxx_var|data_var)\} = (static_cast<\{cxx_(type|T)\} \*>\s*\()?PyArray_DATA\(\{py_var\}\)\)?;$", []),
    (r"^\{cxx_var\}\.assign\(", []),
    (r"^\{c_var\} = PyCapsule_GetPointer\(\{py_var\}, NULL\);$", []),
]
PATTERNS = [(re.compile(p), e) for p, e in PATTERNS]

PHASES = [("post_parse",), ("pre_call",), ("post_call", "post_call_capsule"), ("cleanup",), ("fail", "fail_capsule")]


class Unclassified(Exception):
    pass


def events_for(lines, problems, where):
    evs = []
    flat = []
    for text in lines:
        for ln in text.split("\n"):
            ln = extract_capsule.unhint(ln)
            if ln and ln not in ("{+", "-}", "-}}", "{{+"):
                flat.append(ln)
    for i, ln in enumerate(flat):
        for rx, ev in PATTERNS:
            if rx.search(ln):
                if ev == "MALLOC":
                    checked = i + 1 < len(flat) and re.match(r"^if \(\{cxx_var\} == \{nullptr\}\)", flat[i + 1])
                    ev = [(1 if checked else 2, MEM)]
                evs += ev
                break
        else:
            if SUSPICIOUS.search(ln):
                problems.append("%s: cannot classify %r" % (where, ln))
    return evs


def rows_for(lang, problems):
    rows = []
    for tab, name, d in extract_capsule.dump(lang):
        if tab != "py" or name.startswith(("py_ctor", "py_descr", "base_")):
            continue
        ph = []
        has_capsule = bool(d.get("post_call_capsule"))
        for group in PHASES:
            lines = []
            for cl in group:
                if cl.endswith("_capsule") and not (has_capsule and d.get("allocate_local_var")):
                    continue     # update_code_blocks adds *_capsule only when capsule_order is local (allocate_memory ran)
                lines += d.get(cl) or []
            ph.append(events_for(lines, problems, "%s py %s.%s" % (lang, name, group[0])))
        if d.get("allocate_local_var"):
            # wrapp.add_stmt_capsule: pre_call `var = malloc/new; if NULL goto fail`, fail `if (var != NULL) release_memory(order, var)`
            ph[1] = [(1, MEM)] + ph[1]
            ph[4] = [(3, MEM)] + ph[4]
        if not any(ph):
            continue
        acquired_py = any(e in ((1, PY), (2, PY)) for p in ph[:3] for e in p)
        released_py = any(e == (3, PY) for p in (ph[2], ph[3]) for e in p)
        rows.append(dict(lang=lang, name=name, phases=ph, ret=acquired_py and not released_py))
    return rows


# ---------------------------------------------------------------- member descriptors (py_descr_*)
OBJ, DATA = 0, 1
DESCR_SUSPICIOUS = re.compile(r"Py_X?(DECREF|INCREF|CLEAR)|c_var_obj|c_var_data|steal|hnamefunc|_New|From")
DESCR_PATTERNS = [
    (r"^Py_XDECREF\(\{c_var_obj\}\);$", [(3, OBJ)]),
    (r"^Py_XDECREF\(\{c_var_data\}\);$", [(3, DATA)]),
    (r"^\{c_var_obj\} = \{nullptr\};$", [(4, OBJ)]),
    (r"^\{c_var_data\} = \{nullptr\};$", [(4, DATA)]),
    (r"^\{c_var_obj\} = cvalue\.obj;\s*// steal reference$", [(2, OBJ)]),
    (r"^\{c_var_data\} = cvalue\.dataobj;\s*// steal reference$", [(2, DATA)]),
    (r"^\{c_var_obj\} = (rv|PyArray_SimpleNewFromData\()", [(8, OBJ)]),           # cached when NULL (guarded by the lines before)
    (r"^if \(\{c_var_obj\} (!=|==) \{nullptr\}\) \{\{\+$", []),
    (r"^Py_INCREF\((\{c_var_obj\}|rv)\);$", []),                                # the new reference is the getter's result
    (r"^return \{c_var_obj\};$", []),
    (r"^PyObject \*\s*rv = ", []),
    (r"^\{cxx_decl\} = \{PY_get\};$", []),
]
DESCR_PATTERNS = [(re.compile(p), e) for p, e in DESCR_PATTERNS]
CONVERT = re.compile(r"^if \(\{hnamefunc0\}\(.*\) == (0|-1)\) \{\{\+$")


def descr_events(lines, problems, where):
    evs = []
    for ln in lines:
        for rx, ev in DESCR_PATTERNS:
            if rx.search(ln):
                evs += ev
                break
        else:
            if DESCR_SUSPICIOUS.search(ln):
                problems.append("%s: cannot classify %r" % (where, ln))
    return evs


def flat_lines(texts):
    out = []
    for text in texts or []:
        for ln in text.split("\n"):
            ln = extract_capsule.unhint(ln)
            if ln:
                out.append(ln)
    return out


def dealloc_events():
    """what Wrapp.tp_del (also the body of tp_dealloc) releases per array member"""
    src = open(os.path.join(common.REPO, "shroud", "wrapp.py")).read()
    m = re.search(r"    def tp_del\(self, node, msg, ret\):(.*?)\n    def ", src, re.S)
    body = m.group(1) if m else ""
    evs = []
    if '"Py_XDECREF(self->{PY_member_object});"' in body:
        evs.append((3, OBJ))
    if '"Py_XDECREF(self->{PY_member_data});"' in body:
        evs.append((3, DATA))
    return evs


def members_for(lang, problems):
    rows = []
    dealloc = dealloc_events()
    for tab, name, d in extract_capsule.dump(lang):
        if tab != "py" or not name.startswith("py_descr"):
            continue
        setter = flat_lines(d.get("setter"))
        pre, fail, ok = [], [], []
        cur = pre
        depth = 0
        for ln in setter:
            if cur is pre and CONVERT.search(ln):
                cur = fail
                depth = 1
                continue
            if cur is fail:
                if ln.endswith("{{+"):
                    depth += 1
                if ln == "-}}":
                    depth -= 1
                    if depth == 0:
                        cur = ok
                    continue
            cur.append(ln)
        where = "%s py %s" % (lang, name)
        rows.append(dict(lang=lang, name=name, pre=descr_events(pre, problems, where + ".setter"),
                         fail=descr_events(fail, problems, where + ".setter(error)"),
                         ok=descr_events(ok, problems, where + ".setter(ok)"),
                         getter=descr_events(flat_lines(d.get("getter")), problems, where + ".getter"), dealloc=dealloc))
    return rows


def result_pre_call_sites():
    """every place where Wrapp.wrap_function emits the result's pre_call code (the allocation of a
    by-value result): True when the emission is immediately followed by `result_pre_call = []`"""
    src = open(os.path.join(common.REPO, "shroud", "wrapp.py")).read().split("\n")
    sites = []
    for i, ln in enumerate(src):
        if re.search(r"\.extend\(result_pre_call\)", ln):
            nxt = src[i + 1].strip() if i + 1 < len(src) else ""
            sites.append(nxt == "result_pre_call = []")
    return sites


def lean_evs(evs):
    return "[" + ", ".join("(%d, %d)" % e for e in evs) + "]"


def render(rows, members):
    L = ["/- GENERATED by tools/extract_pyres.py from the /repo working tree.  Do not edit. -/",
         "import ShroudVerif.Model.PyRes",
         "namespace Shroud.Gen.PyRes", "open Shroud.PyRes", "",
         "/-- (name as code points, language 0=c 1=cxx, block) per effective argument/result block of py_statements -/",
         "def rows : List (List Nat × Nat × Blk) := ["]
    body = []
    for r in rows:
        p = r["phases"]
        body.append("  (%s, %d, ⟨%s, %s, %s, %s, %s, %s⟩)" % (
            "[" + ", ".join(str(ord(c)) for c in r["name"]) + "]", 0 if r["lang"] == "c" else 1,
            lean_evs(p[0]), lean_evs(p[1]), lean_evs(p[2]), lean_evs(p[3]), lean_evs(p[4]), "true" if r["ret"] else "false"))
    L.append(",\n".join(body))
    L += ["]", "",
          "/-- (name, language, member descriptor) per effective py_descr_* block: setter before / error / ok, getter, dealloc -/",
          "def members : List (List Nat × Nat × Member) := ["]
    body = []
    for r in members:
        body.append("  (%s, %d, ⟨%s, %s, %s, %s, %s⟩)" % (
            "[" + ", ".join(str(ord(c)) for c in r["name"]) + "]", 0 if r["lang"] == "c" else 1,
            lean_evs(r["pre"]), lean_evs(r["fail"]), lean_evs(r["ok"]), lean_evs(r["getter"]), lean_evs(r["dealloc"])))
    L.append(",\n".join(body))
    L += ["]", "",
          "/-- emission sites of the result's pre_call code in Wrapp.wrap_function (before the default-argument switch, in the",
          "    per-call loop): true = the pending list is reset right after the emission -/",
          "def resultPreCallSites : List Bool := [%s]" % ", ".join("true" if x else "false" for x in result_pre_call_sites()), "",
          "end Shroud.Gen.PyRes", ""]
    return "\n".join(L)


def regenerate():
    problems = []
    rows = rows_for("c", problems) + rows_for("cxx", problems)
    members = members_for("c", problems) + members_for("cxx", problems)
    if problems:
        raise Unclassified("\n".join(problems[:20]))
    changed = extract_capsule.write_if_changed(GEN, render(rows, members))
    return {"members": len(members), "member_list": members, "rows": len(rows), "with_events": sum(1 for r in rows if any(r["phases"])), "changed": changed, "row_list": rows}


if __name__ == "__main__":
    info = regenerate()
    for r in info.pop("member_list"):
        print(r)
    for r in info.pop("row_list"):
        print(r["lang"], r["name"], r["phases"], r["ret"])
    print(json.dumps(info))
