"""Translator for C13: which option each emitter's `self.linelen` / `self.cont` comes from, and the option defaults.
/repo working tree -> lean/ShroudVerif/Gen/LineCfg.lean"""
import ast
import os
import subprocess
import sys

from tools import common
from tools.extract_registry import write_if_changed

GEN = os.path.join(common.LEAN, "ShroudVerif", "Gen", "LineCfg.lean")
EMITTERS = [("wrapc.py", "Wrapc", 0), ("wrapf.py", "Wrapf", 1), ("wrapp.py", "Wrapp", 2), ("wrapl.py", "Wrapl", 3)]
OPTS = {"C_line_length": 0, "F_line_length": 1}


def _linelen_expr(v, cont):
    """`self.linelen = <expr>`: (option code, addend) for `options.X`, `options.X + k`, `options.X - k`, `k + options.X`,
    where k is an integer constant or `len(self.cont)`; anything else is (9, 0)"""
    def konst(n):
        if isinstance(n, ast.Constant) and isinstance(n.value, int) and not isinstance(n.value, bool):
            return n.value
        if isinstance(n, ast.Call) and isinstance(n.func, ast.Name) and n.func.id == "len" and len(n.args) == 1 \
                and ast.unparse(n.args[0]) == "self.cont" and cont is not None:
            return len(cont)
        return None
    if isinstance(v, ast.Attribute):
        return OPTS.get(v.attr, 9), 0
    if isinstance(v, ast.BinOp) and isinstance(v.op, (ast.Add, ast.Sub)):
        sign = 1 if isinstance(v.op, ast.Add) else -1
        if isinstance(v.left, ast.Attribute) and konst(v.right) is not None and v.left.attr in OPTS:
            return OPTS[v.left.attr], sign * konst(v.right)
        if sign == 1 and isinstance(v.right, ast.Attribute) and konst(v.left) is not None and v.right.attr in OPTS:
            return OPTS[v.right.attr], konst(v.left)
    return 9, 0


def scan():
    """(emitter, option feeding self.linelen, addend, continuation marker).  Every assignment to self.linelen / self.cont
    anywhere in the emitter class counts; two different assignments to self.linelen give option 9 (not a function of one option)."""
    rows = []
    for fn, cls, code in EMITTERS:
        tree = ast.parse(open(os.path.join(common.REPO, "shroud", fn)).read())
        exprs, cont = [], None
        for c in ast.walk(tree):
            if isinstance(c, ast.ClassDef) and c.name == cls:
                for n in ast.walk(c):
                    tg = []
                    if isinstance(n, ast.Assign):
                        tg = n.targets
                    elif isinstance(n, ast.AugAssign):
                        tg = [n.target]
                    for t in tg:
                        if isinstance(t, ast.Attribute) and isinstance(t.value, ast.Name) and t.value.id == "self":
                            if t.attr == "linelen":
                                exprs.append(n.value if isinstance(n, ast.Assign) else None)
                            if t.attr == "cont":
                                cont = n.value.value if isinstance(n, ast.Assign) and isinstance(n.value, ast.Constant) \
                                    and isinstance(n.value.value, str) and cont is None else "?"
        if len(exprs) == 1 and exprs[0] is not None:
            opt, add = _linelen_expr(exprs[0], cont)
        else:
            opt, add = 9, 0
        rows.append((code, opt, add, [ord(ch) for ch in (cont if cont is not None else "?")]))
    return rows


def defaults():
    code = ("import json\nfrom shroud import ast, typemap\ntypemap.initialize()\n"
            "lib = ast.LibraryNode()\nprint(json.dumps([lib.options.C_line_length, lib.options.F_line_length]))\n")
    e = dict(os.environ, PYTHONPATH=common.REPO, PYTHONDONTWRITEBYTECODE="1")
    p = subprocess.run([sys.executable, "-c", code], stdout=subprocess.PIPE, stderr=subprocess.PIPE, text=True, env=e)
    if p.returncode:
        raise RuntimeError(p.stderr[-1000:])
    import json
    return json.loads(p.stdout.strip().split("\n")[-1])


def scan_splicer_branches():
    """_create_splicer: for the force / user (splicer_stack) / default branch, do the lines pass through _literal_lines?"""
    tree = ast.parse(open(os.path.join(common.REPO, "shroud", "util.py")).read())
    fn = [n for n in ast.walk(tree) if isinstance(n, ast.FunctionDef) and n.name == "_create_splicer"]
    out = []
    if not fn:
        return [("missing", False)]

    def classify(test):
        src = ast.unparse(test)
        if "force" in src:
            return "force"
        if "splicer_stack" in src:
            return "user"
        if "default" in src:
            return "default"
        return "other:" + src[:30]

    def has_literal(body):
        return any(isinstance(n, ast.Call) and isinstance(n.func, ast.Attribute) and n.func.attr == "_literal_lines"
                   for st in body for n in ast.walk(st))

    def emits(body):
        return any(isinstance(n, ast.Call) and isinstance(n.func, ast.Attribute) and n.func.attr in ("extend", "append")
                   for st in body for n in ast.walk(st)) or any(isinstance(st, ast.Assign) for st in body)

    for st in fn[0].body:
        if isinstance(st, ast.If) and "force" in ast.unparse(st.test):
            cur = st
            while True:
                if emits(cur.body):
                    out.append((classify(cur.test), has_literal(cur.body)))
                if len(cur.orelse) == 1 and isinstance(cur.orelse[0], ast.If):
                    cur = cur.orelse[0]
                else:
                    break
            # lines written after the chain through a common variable: a later `_literal_lines` around it protects all
            break
    return out


def scan_list_joins():
    """wrapf.py: every `<sep>.join(...)` whose constant separator is a comma followed by white space builds a
    list inside a Fortran statement (arguments, USE only-lists, IMPORT, PRIVATE): (function, has a TAB break hint)"""
    tree = ast.parse(open(os.path.join(common.REPO, "shroud", "wrapf.py")).read())
    out = []
    for fn in ast.walk(tree):
        if not isinstance(fn, ast.FunctionDef):
            continue
        for n in ast.walk(fn):
            if isinstance(n, ast.Call) and isinstance(n.func, ast.Attribute) and n.func.attr == "join" \
                    and isinstance(n.func.value, ast.Constant) and isinstance(n.func.value.value, str):
                sep = n.func.value.value
                if sep.startswith(",") and len(sep) > 1 and sep[1:].strip(" \t") == "":
                    out.append((fn.name, n.lineno, "\t" in sep))
    return sorted(set(out), key=lambda r: r[1])


def scan_arrow_literals():
    """wrapf.py: every string constant (docstrings excluded) that contains the binding arrow `=>`: (function, can be
    continued after the arrow).  Continuable = has the break hint `=>\\t`, or is the bare arrow (joined with hints by the
    caller), or binds a single generated name (`generic :: assignment(=) => ...`)."""
    tree = ast.parse(open(os.path.join(common.REPO, "shroud", "wrapf.py")).read())
    doc = set()
    for n in ast.walk(tree):
        if isinstance(n, (ast.FunctionDef, ast.ClassDef, ast.Module)) and n.body and isinstance(n.body[0], ast.Expr) \
                and isinstance(n.body[0].value, ast.Constant) and isinstance(n.body[0].value.value, str):
            doc.add(id(n.body[0].value))
    out = []
    for fn in ast.walk(tree):
        if not isinstance(fn, ast.FunctionDef):
            continue
        in_list = set()
        for n in ast.walk(fn):
            if isinstance(n, ast.List):
                in_list.update(id(e) for e in n.elts)
        for n in ast.walk(fn):
            if isinstance(n, ast.Constant) and isinstance(n.value, str) and "=>" in n.value and id(n) not in doc:
                v = n.value
                # a bare arrow is fine only as an element of a list of parts (the parts are joined with break hints)
                ok = "=>\t" in v or (v.strip() == "=>" and id(n) in in_list) or "assignment(=)" in v
                out.append((fn.name, n.lineno, ok))
    return sorted(set(out), key=lambda r: r[1])


LONG_FIELDS = ("{f_var}", "{c_var_context}", "{F_result}", "{F_pointer}", "{c_var_capsule}", "{c_var}", "{f_var_len}", "{c_var_dimension}")


def scan_f_statement_lines():
    """Fortran executable-statement templates of statements.fc_statements (entries named f_*; keys declare / pre_call /
    call / post_call): (entry, key, index, number of placeholders that expand to user-chosen or derived long names, has a
    break hint).  A line that carries two or more such names can exceed the line limit unless it can be continued."""
    code = ("import json\nfrom shroud import statements\nout=[]\n"
            "for st in statements.fc_statements:\n"
            "    nm = st.get('name', '')\n"
            "    if not nm.startswith('f_'): continue\n"
            "    for key in ('declare', 'pre_call', 'call', 'post_call'):\n"
            "        v = st.get(key) or []\n"
            "        for i, line in enumerate(v if isinstance(v, list) else [v]):\n"
            "            if isinstance(line, str): out.append([nm, key, i, line])\n"
            "print(json.dumps(out))\n")
    e = dict(os.environ, PYTHONPATH=common.REPO, PYTHONDONTWRITEBYTECODE="1")
    p = subprocess.run([sys.executable, "-c", code], stdout=subprocess.PIPE, stderr=subprocess.PIPE, text=True, env=e)
    if p.returncode:
        raise RuntimeError(p.stderr[-1000:])
    import json
    rows = []
    for nm, key, i, line in json.loads(p.stdout.strip().split("\n")[-1]):
        n = sum(line.count(f) for f in LONG_FIELDS)
        rows.append((nm, key, i, n, "\t" in line, "_result" in nm))
    return rows


def regenerate():
    fst = scan_f_statement_lines()
    arrows = scan_arrow_literals()
    joins = scan_list_joins()
    rows = scan()
    d = defaults()
    br = scan_splicer_branches()
    L = ["/- GENERATED by tools/extract_linecfg.py from the /repo working tree.  Do not edit. -/",
         "namespace Shroud.Gen.LineCfg", "",
         "/-- (emitter, option feeding self.linelen, addend to the option's value, continuation marker code points);",
         "    emitter 0 Wrapc 1 Wrapf 2 Wrapp 3 Wrapl; option 0 C_line_length 1 F_line_length 9 other -/",
         "def emitterLineCfg : List (Nat × Nat × Int × List Nat) := ["]
    L.append(",\n".join("  (%d, %d, %d, [%s])" % (c, o, a, ", ".join(map(str, cont))) for c, o, a, cont in rows))
    L += ["]", "", "/-- defaults of C_line_length and F_line_length -/",
          "def lineLengthDefaults : Nat × Nat := (%d, %d)" % (d[0], d[1]), "",
          "/-- branches of util._create_splicer: (source of the lines, passed through _literal_lines) -/",
          "def splicerBranches : List (String × Bool) := [" + ", ".join('("%s", %s)' % (k, "true" if v else "false") for k, v in br) + "]",
          "",
          "/-- wrapf.py: every join with a comma-and-blank separator (lists inside Fortran statements): (function, has break hint) -/",
          "def fortranListJoins : List (String × Bool) := [" + ", ".join('("%s", %s)' % (f, "true" if h else "false") for f, _, h in joins) + "]",
          "",
          "/-- wrapf.py: every string constant with the binding arrow `=>`: (function, can be continued after the arrow) -/",
          "def fortranArrowLiterals : List (String × Bool) := [" + ", ".join('("%s", %s)' % (f, "true" if ok else "false") for f, _, ok in arrows) + "]",
          "",
          "/-- Fortran executable-statement templates (fc_statements entries f_*): (entry, key, index, number of placeholders for",
          "    long names, has break hint, entry for a function RESULT (its names are generated constants such as SHT_rv)) -/",
          "def fStatementLines : List (String × String × Nat × Nat × Bool × Bool) := [",
          ",\n".join('  ("%s", "%s", %d, %d, %s, %s)' % (a, b, c, d, "true" if h else "false", "true" if rs else "false") for a, b, c, d, h, rs in fst),
          "]",
          "", "end Shroud.Gen.LineCfg"]
    changed = write_if_changed(GEN, "\n".join(L) + "\n")
    return {"rows": rows, "defaults": d, "splicer_branches": br, "fortran_list_joins": joins, "f_statement_lines": len(fst), "arrow_literals": arrows,
            "f_statement_lines_with_two_long_names": len([1 for r in fst if r[3] >= 2]), "changed": changed}


if __name__ == "__main__":
    print(regenerate())
