"""C05 correspondence workers.  Every function here runs in a FRESH process (ProcessPoolExecutor with
max_tasks_per_child=1): they overwrite whelpers.CHelpers / FHelpers / wrapl.LuaHelpers and poke wrapper
instances, so nothing of it may leak into the checking process.

 * real wrapper instances are obtained from a real generation run (the `wrap_library` methods are
   wrapped to remember `self`), not built by hand;
 * gather: the real `gather_helper_code` of Wrapc, Wrapf, Wrapp, Wrapl on a given helper table
   (synthetic or the real dependency graph) and request set; emission order is read from the lists the
   real code appends to (every helper is given `source = <its own name>`);
 * skeleton: the real `write_header`, `write_impl`, `write_header_utility`, `write_impl_utility` on the
   real instance with `write_output_file` intercepted.
"""
import os
import re
import sys
import types

from tools import common


def _instances(corpus="tutorial", extra_options=()):
    """real run; returns dict of wrapper instances"""
    sys.path.insert(0, common.REPO)
    from tools import shroudrun
    from shroud import wrapc, wrapf, wrapp, wrapl
    got = {}

    def wrap(cls, key):
        orig = cls.wrap_library

        def wl(self, *a, **k):
            got[key] = self
            return orig(self, *a, **k)
        cls.wrap_library = wl
    wrap(wrapc.Wrapc, "c")
    wrap(wrapf.Wrapf, "f")
    wrap(wrapp.Wrapp, "p")
    wrap(wrapl.Wrapl, "l")
    d = common.scratch("c05t-")
    try:
        cfg, exc, out = shroudrun.run_corpus_inproc(corpus, d, extra_options=list(extra_options))
    finally:
        common.rmtree(d)
    if exc is not None:
        raise RuntimeError("reference run failed: %r" % (exc,))
    return got


def _set_table(tab, graph):
    tab.clear()
    for k, deps in graph.items():
        e = dict(source=k, name=k)
        if deps is not None:
            e["dependent_helpers"] = list(deps)
        tab[k] = e


def _real_gather(inst, which, req):
    """returns ('ok', [names]) or ('keyerror', name)"""
    from shroud import whelpers, wrapl, wrapf
    helpers = {r: True for r in req}
    try:
        if which == "c":
            inst.gather_helper_code(helpers)
            return ("ok", list(inst.helper_source["file"]))
        if which == "p":
            inst.gather_helper_code(helpers)
            return ("ok", list(inst.helper_summary["source"]["file"]))
        if which == "l":
            # wrapl keeps its copy in class wrapl.Helpers (instance Wrapl.helpers)
            inst.helpers.gather_helper_code(helpers)
            return ("ok", list(inst.helpers.helper_summary["source"]["file"]))
        if which == "f":
            fi = wrapf.ModuleInfo(inst.newlibrary)
            fi.f_helper = helpers
            inst.private_lines = []
            inst.gather_helper_code(fi)
            return ("ok", list(fi.helper_source))
    except KeyError as e:
        return ("keyerror", e.args[0])
    except RecursionError:
        return ("recursion", "")
    raise AssertionError(which)


def gather_worker(cases):
    """cases: list of dict(table in C|F|L, graph {name: deps|None}, req [names]).
    Returns per case {emitter: result} for the emitters that read that table."""
    inst = _instances()
    from shroud import whelpers, wrapl
    out = []
    for c in cases:
        res = {}
        if c["table"] == "C":
            _set_table(whelpers.CHelpers, c["graph"])
            res["c"] = _real_gather(inst["c"], "c", c["req"])
            res["p"] = _real_gather(inst["p"], "p", c["req"])
        elif c["table"] == "F":
            _set_table(whelpers.FHelpers, c["graph"])
            res["f"] = _real_gather(inst["f"], "f", c["req"])
        else:
            _set_table(wrapl.LuaHelpers, c["graph"])
            res["l"] = _real_gather(inst["l"], "l", c["req"])
        out.append(res)
    return out


# ------------------------------------------------------------------ skeletons
def classify_line(ln, headers, guard_re=r"^#ifndef [A-Z0-9_]+$"):
    """real output line -> model code (None = neutral text)"""
    if not isinstance(ln, str):
        return None
    res = []
    for s in ln.split("\n"):
        s = s.strip()
        if s == "":
            continue
        if s.startswith("#include"):
            m = re.match(r'#include\s*[<"]([^>"]+)[>"]', s)
            h = m.group(1)
            res.append("I%d" % headers.setdefault(h, len(headers) + 100))
        elif s == "#ifdef __cplusplus":
            res.append("O0")
        elif s == "#ifndef __cplusplus":
            res.append("O1")
        elif re.match(guard_re, s):
            res.append("O3")
        elif s.startswith("#if"):
            res.append("O2")
        elif s.startswith("#else"):
            res.append("E")
        elif s.startswith("#endif"):
            res.append("N")
        elif s.startswith("#define"):
            res.append("D")
        elif s == 'extern "C" {':
            res.append("X")
        elif s == "}" or s.startswith('}  // extern "C"'):
            res.append("Y")
        elif s.startswith("//"):
            continue
        else:
            res.append("b")
    return res


def skeleton_worker(cases):
    """cases: list of dict(which h|i|hu|iu, cxx, cppIf, dox, hname, shroud:[names], cxx_header:[names], debug).
    Calls the real Wrapc methods; returns the classified bracket/include lines."""
    inst = _instances("classes")
    c = inst["c"]
    lib = c.newlibrary
    cls = lib.wrap_namespace.classes[0]
    captured = {}

    def wof(fname, directory, output, **kw):
        captured["out"] = list(output)
    c.write_output_file = wof
    from shroud import util
    state = {}
    orig_wh = util.Header.write_headers

    def rec_wh(self, output):
        state["hdr"] = dict(
            cxx=list(self.header_impl_include_order["cxx_header"].keys()),
            typemap=list(self.header_impl_include_order["typemap"].keys()),
            shroud=list(self.header_impl_include_order["shroud"].keys()),
            typemaps=[dict(c=list(t.c_header), x=list(t.cxx_header), w=list(t.wrap_header), i=list(t.impl_header),
                           b=bool(t.cpp_if)) for t in self.typemaps.values()],
            field=self.typemap_field, langC=self.newlibrary.language == "c", debug=bool(self.newlibrary.options.debug),
            util=self.newlibrary.fmtdict.C_header_utility)
        return orig_wh(self, output)
    util.Header.write_headers = rec_wh
    out = []
    for case in cases:
        captured.clear()
        state.clear()
        c.language = "cxx" if case["cxx"] else "c"
        lib.language = c.language
        lib.options.debug = bool(case["debug"])
        node = cls if case["use_cls"] else None
        old_cppif = cls.cpp_if
        cls.cpp_if = "if defined(USE_X)" if case["cppIf"] else None
        old_dox = (cls.options.doxygen, lib.options.doxygen)
        cls.options.doxygen = lib.options.doxygen = bool(case["dox"])
        try:
            c._begin_output_file()
            c.header_proto_c = ["@@proto"]
            c.impl = ["@@impl"]
            c.enum_impl = []
            c.struct_impl = []
            c.shared_proto_c = []
            c.helper_source = dict(file=[], cwrap_include=[], cwrap_impl=["@@helper"])
            c.helper_include = dict(file={h: True for h in case["shroud"]}, cwrap_include={h: True for h in case["shroud"]},
                                    cwrap_impl={h: True for h in case["shroud"]})
            c.c_helper_include = {h: True for h in case["shroud"]}
            for h in case["cxx_header"]:
                c.header_impl.header_impl_include_order["cxx_header"][h] = True
            for h in case.get("typemap", []):
                c.header_impl.header_impl_include_order["typemap"][h] = True
                c.header_iface.header_impl_include_order["typemap"][h] = True
            w = case["which"]
            if w == "h":
                c.write_header(lib, node, "wrapX.h")
            elif w == "i":
                c.write_impl(lib, node, "wrapX.h" if case["hname"] else None, "wrapX.cpp")
            elif w == "hu":
                c.write_header_utility()
            else:
                c.write_impl_utility()
            lines = captured.get("out")
            out.append({"written": lines is not None, "hdr": state.get("hdr"),
                        "raw": [l for l in (lines or []) if isinstance(l, str)]})
        except Exception as e:   # the real code failed: report, the caller decides
            out.append({"error": "%s: %s" % (type(e).__name__, e)})
        finally:
            cls.cpp_if = old_cppif
            cls.options.doxygen, lib.options.doxygen = old_dox
    return out


# ------------------------------------------------------------------ helper closure compile
def helper_sources_worker(arg):
    """For every helper of the real CHelpers / FHelpers tables: the text the real gather_helper_code
    collects for the request {helper}, per language.  Returns list of dict(table, lang, helper, includes, text)."""
    inst = _instances("tutorial")
    from shroud import whelpers
    res = []
    c = inst["c"]
    for lang in ("c", "cxx"):
        c.language = lang
        for name in sorted(whelpers.CHelpers):
            try:
                c.gather_helper_code({name: True})
            except KeyError as e:
                res.append({"table": "C", "lang": lang, "helper": name, "keyerror": e.args[0]})
                continue
            incs, text = [], []
            for scope in ("cwrap_include", "cwrap_impl", "file"):
                incs.extend(c.helper_include[scope].keys())
                text.extend(c.helper_source[scope])
            # pwrap_impl helpers are collected by Wrapp
            p = inst["p"]
            p.language = lang
            p.gather_helper_code({name: True})
            pin = list(p.helper_summary["include"]["pwrap_impl"].keys()) + list(p.helper_summary["include"]["file"].keys())
            ptext = p.helper_summary["proto"]["pwrap_impl"] + p.helper_summary["proto"]["file"] + \
                p.helper_summary["source"]["pwrap_impl"] + p.helper_summary["source"]["file"]
            res.append({"table": "C", "lang": lang, "helper": name, "includes": incs, "text": text,
                        "pincludes": pin, "ptext": ptext, "numpy": bool(p.helper_need_numpy),
                        "scope": whelpers.CHelpers[name].get("scope", "file")})
    return res


# ------------------------------------------------------------------ helpers shared between modules
def shared_worker(cases):
    """cases: list of dict(tag, yaml path | yaml_text, options).  Real generation; records the C helper set of every module
    (Wrapf.gather_helper_code(fileinfo), Wrapc.gather_helper_code(self.c_helper), add_shadow_helper) and the shared set at the
    moment Wrapc.write_impl_utility gathers it, and whether the utility source was written."""
    sys.path.insert(0, common.REPO)
    from tools import shroudrun
    from shroud import wrapc, wrapf, whelpers
    rec = {}
    of, oc, ou, osh = wrapf.Wrapf.gather_helper_code, wrapc.Wrapc.gather_helper_code, wrapc.Wrapc.write_impl_utility, whelpers.add_shadow_helper

    def gf(self, fileinfo):
        rec["modules"].append(["fortran:" + str(getattr(fileinfo.node, "name", "?")), sorted(fileinfo.c_helper)])
        return of(self, fileinfo)

    def gc(self, helpers):
        if helpers is getattr(self, "c_helper", None):
            rec["modules"].append(["c-file", sorted(helpers)])
        return oc(self, helpers)

    def wu(self):
        rec["shared"] = sorted(self.shared_helper)
        return ou(self)

    def sh(node):
        name = osh(node)
        rec["modules"].append(["shadow", [name]])
        return name
    wrapf.Wrapf.gather_helper_code = gf
    wrapc.Wrapc.gather_helper_code = gc
    wrapc.Wrapc.write_impl_utility = wu
    whelpers.add_shadow_helper = sh
    out = []
    for c in cases:
        rec.clear()
        rec["modules"] = []
        d = common.scratch("c05s-")
        try:
            if c.get("yaml_text") is not None:
                y = shroudrun.write_yaml(d, "lib.yaml", c["yaml_text"])
            else:
                y = c["yaml"]
            o = os.path.join(d, "out")
            os.makedirs(o)
            cfg, exc, _ = shroudrun.run_inproc([y], o, options=c.get("options", []))
            out.append({"tag": c["tag"], "exc": repr(exc) if exc is not None else None, "modules": list(rec["modules"]),
                        "shared": rec.get("shared"), "files": sorted(os.listdir(o))})
        finally:
            common.rmtree(d)
    return out
