"""Translator for C01: /repo working tree -> lean/ShroudVerif/Gen/FStmts.lean

`statements.fc_statements` is expanded exactly as Shroud does it (update_for_language on a deep
copy for language c and for language c++, then update_stmt_tree, which resolves `base` and
`mixin`), and every node of the resulting lookup tree is written as one row:

    (path, buf_args, buf_extra, flags, clauses)

* path      : the key split at '_' with every part interned by the FIXED table PARTS (unknown parts
              get ids >= 200 in sorted order, so hand-written Lean keys never shift);
* buf_args / buf_extra : codes from BUFARG;
* flags     : [f c_local_var, cxx_local_var (0 none 1 scalar 2 pointer), need_wrapper, result set,
               c-side c_local_var, return_cptr, arg_decl present, owner caller];
* clauses   : (clause id, [(op code, [variable codes])]) for pre_call, post_call, call, declare,
              arg_c_call, arg_call, ret, arg_decl, arg_name.

Every template line is mapped to an op code by the explicit pattern table PATTERNS (regular
expressions whose groups capture the *variables* in each parameter position, so that a template
that names another variable still translates - to different variable codes - and is then caught
by the Lean table theorems, not hidden by the translator).  A line that matches no pattern makes
the translator fail loudly (TranslatorError).
"""
import json
import os
import re
import subprocess
import sys

from tools import common
from tools.extract_registry import write_if_changed

GEN = os.path.join(common.LEAN, "ShroudVerif", "Gen", "FStmts.lean")


class TranslatorError(Exception):
    pass


# ------------------------------------------------------------------ fixed interning tables
PARTS = {
    "c": 1, "f": 2,
    "native": 10, "bool": 11, "char": 12, "string": 13, "vector": 14, "shadow": 15, "struct": 16, "void": 17,
    "XXX": 18, "mixin": 19, "subroutine": 20, "unknown": 21, "enum": 22,
    "scalar": 30, "*": 31, "&": 32, "**": 33, "*&": 34,
    "in": 40, "out": 41, "inout": 42, "result": 43, "ctor": 44, "dtor": 45,
    "buf": 50, "cfi": 51,
    "allocatable": 60, "pointer": 61, "raw": 62, "caller": 63, "cdesc": 64,
    "character": 70, "arg": 71, "library": 72, "result-as-arg": 73,
}
BUFARG = {"arg": 1, "arg_decl": 2, "len": 3, "len_trim": 4, "size": 5, "context": 6, "capsule": 7, "shadow": 8}
CLAUSE = {"pre_call": 1, "post_call": 2, "call": 3, "declare": 4, "arg_c_call": 5, "arg_call": 6, "ret": 7,
          "arg_decl": 8, "arg_name": 9}
VARS = {
    "f_var": 0, "c_var": 1, "c_var_len": 2, "c_var_trim": 3, "c_var_size": 4, "c_var_context": 5, "cxx_var": 6,
    "F_pointer": 7, "F_result": 8, "ELEMLEN": 9, "CFI": 10, "shadow_var": 11, "F_result_ptr": 12,
    "c_var_capsule": 13, "SHAPE": 14, "nullptr": 98, "-1": 99, "0": 97,
}

V = r"\{(\w+)\}"
# the CFI descriptor of the argument and its element length
CFI = r"\{cfi_prefix\}\{c_var\}"
ELEM = CFI + r"->elem_len"
CAST = r"\{cast_static\}char \*\{cast1\}" + CFI + r"->base_addr\{cast2\}"
MEM = r"\{cxx_member\}"

# (regex on the normalised line, op code, variable slots: group numbers or fixed names)
# ---- modelled ops (semantics in Model/WrapF.lean) ----
PATTERNS = [
    (V + r" = " + V + r" ! coerce to C_BOOL", 1, [1, 2]),
    (V + r" = " + V + r" ! coerce to logical", 2, [1, 2]),
    (r"char \* ?" + V + r" = ShroudStrAlloc\(" + V + r", " + V + r", " + V + r"\);", 10, [1, 2, 3, 4]),
    (r"char \*" + V + r" = ShroudStrAlloc\(" + V + r", " + ELEM + r", -1\);", 10, [1, 2, "ELEMLEN", "-1"]),
    (r"ShroudStrFree\(" + V + r"\);", 11, [1]),
    (r"ShroudStrBlankFill\(" + V + r", " + V + r"\);", 12, [1, 2]),
    (r"ShroudStrBlankFill\(" + V + r", " + ELEM + r"\);", 12, [1, "ELEMLEN"]),
    (r"ShroudStrCopy\(" + V + r", " + V + r", " + V + r", -1\);", 13, [1, 2, 3]),
    (r"ShroudStrCopy\(" + V + r", " + ELEM + r", " + V + r", -1\);", 13, [1, "ELEMLEN", 2]),
    (r"ShroudStrCopy\(" + V + r", " + V + r", " + V + MEM + r"data\(\), " + V + MEM + r"size\(\)\);", 14, [1, 2, 3, 4]),
    (r"ShroudStrCopy\(" + V + r", " + ELEM + r", " + V + MEM + r"data\(\), " + V + MEM + r"size\(\)\);", 14,
     [1, "ELEMLEN", 2, 3]),
    (r"ShroudStrCopy\(" + V + r", " + V + r", \{nullptr\}, 0\);", 15, [1, 2]),
    (r"ShroudStrCopy\(" + V + r", " + ELEM + r", \{nullptr\}, 0\);", 15, [1, "ELEMLEN"]),
    (r"(?:\{c_const\})?std::string " + V + r"\(" + V + r", " + V + r"\);", 16, [1, 2, 3]),
    (r"(?:\{c_const\})?std::string " + V + r";", 17, [1]),
    (r"(?:\{c_const\})?std::string " + V + r"\(" + V + r"\);", 18, [1, 2]),
    (r"\{stdlib\}memset\(" + V + r", ' ', " + V + r"\);", 19, [1, 2]),
    (r"\{stdlib\}memset\(" + V + r", ' ', " + ELEM + r"\);", 19, [1, "ELEMLEN"]),
    (V + r"\[0\] = " + V + r";", 20, [1, 2]),
    (r"if \(" + V + MEM + r"empty\(\)\) \{\{\+", 21, [1]),
    (r"-\}\} else \{\{\+", 22, []),
    (r"-\}\}", 23, []),
    (r"char \*" + V + r" = " + CAST + r";", 24, [1, "CFI"]),
    (r"size_t " + V + r" = ShroudLenTrim\(" + V + r", " + ELEM + r"\);", 25, [1, 2, "ELEMLEN"]),
    (r"strcpy\(" + V + r", " + V + MEM + r"c_str\(\)\);", 26, [1, 2]),
    # C `call` of c_string_scalar_in_buf, arg_call forms
    (V, 30, [1]),
    (r"&" + V, 31, [1]),
    (r"C_LOC\(" + V + r"\)", 32, [1]),
    (r"return " + V + r";", 33, [1]),
    # shadow (class instance) ops
    (r"\{c_const\}\{cxx_type\} \* " + V + r" = \{cast_static\}\{c_const\}\{cxx_type\} \*\{cast1\}" + V
     + r"\{c_member\}addr\{cast2\};", 40, [1, 2]),
    (V + r"->addr = \{cxx_nonconst_ptr\};", 41, [1]),
    (V + r"->idtor = \{idtor\};", 42, [1]),
    (r"\{cxx_type\} \*" + V + r" = new \{cxx_type\}\(\{C_call_list\}\);", 43, [1]),
    (V + r"->addr = static_cast<\{c_const\}void \*>\(" + V + r"\);", 44, [1, 2]),
    (r"delete \{CXX_this\};", 45, []),
    (r"\{C_this\}->addr = \{nullptr\};", 46, []),
    (r"type\(C_PTR\) :: " + V, 47, [1]),
    (V + r" = \{F_C_call\}\(\{F_arg_c_call\}\)", 48, [1]),
    (r"\{cxx_type\} \* " + V + r" = new \{cxx_type\};", 49, [1]),
    (r"\{c_const\}\{cxx_type\} \*" + V + r";", 66, [1]),
    # std::vector through the context struct and ShroudCopyArray
    (r"\{c_const\}std::vector<\{cxx_T\}> " + V + r"\(" + V + r", " + V + r" \+ " + V + r"\);", 50, [1, 2, 3, 4]),
    (r"\{c_const\}std::vector<\{cxx_T\}> \*" + V + r" = new std::vector<\{cxx_T\}>;", 51, [1]),
    (r"std::vector<\{cxx_T\}> \*" + V + r" = new std::vector<\{cxx_T\}>\(" + V + r", " + V + r" \+ " + V + r"\);", 52, [1, 2, 3, 4]),
    (V + r"->cxx\.addr = \{cxx_nonconst_ptr\};", 61, [1]),
    (V + r"->cxx\.addr = " + V + r";", 53, [1, 2]),
    (V + r"->cxx\.idtor = \{idtor\};", 54, [1]),
    (V + r"->addr\.base = " + V + r"->empty\(\) \? \{nullptr\} : &" + V + r"->front\(\);", 55, [1, 2, 3]),
    (V + r"->type = \{sh_type\};", 56, [1]),
    (V + r"->elem_len = sizeof\(\{cxx_T\}\);", 57, [1]),
    (V + r"->size = " + V + r"->size\(\);", 58, [1, 2]),
    (V + r"->rank = 1;", 59, [1]),
    (V + r"->shape\[0\] = " + V + r"->size;", 60, [1, 2]),
    # native pointer results through the context struct
    (V + r"->addr\.base = " + V + r";", 62, [1, 2]),
    (V + r"->elem_len = sizeof\(\{cxx_type\}\);", 63, [1]),
    (V + r"->rank = \{rank\};\{c_array_shape\}", 64, [1]),
    (V + r"->size = \{c_array_size\};", 65, [1]),
    (r"call \{hnamefunc0\}\(" + V + r", " + V + r", size\(" + V + r", ?kind=C_SIZE_T\)\)", 70, [1, 2, 3]),
    (r"allocate\(" + V + r"\(" + V + r"%size\)\)", 71, [1, 2]),
    (r"if \(allocated\(" + V + r"\)\) deallocate\(" + V + r"\)", 72, [1, 2]),
    (r"allocate\(" + V + r"\{f_array_allocate\}\)", 73, [1]),
    (r"allocate\(" + V + r"\(\{c_var_dimension\}\)\)", 74, [1]),
    (r"call c_f_pointer\(" + V + r"%base_addr, " + V + r"\{f_array_shape\}\)", 75, [1, 2]),
    (r"call c_f_pointer\(" + V + r", " + V + r"\{f_array_shape\}\)", 76, [1, 2]),
    # allocatable character / std::string results through the context struct
    (V + r"->addr\.ccharp = " + V + r";", 82, [1, 2]),
    (V + r"->elem_len = " + V + r" == \{nullptr\} \? 0 : \{stdlib\}strlen\(" + V + r"\);", 83, [1, 2, 3]),
    (V + r"->size = 1;", 84, [1]),
    (V + r"->rank = 0;", 85, [1]),
    (r"ShroudStrToArray\(" + V + r", (?:\{cxx_addr\})?" + V + r", \{idtor\}\);", 86, [1, 2]),
    (r"std::string \* " + V + r" = new std::string;", 87, [1]),
    (r"allocate\(character\(len=" + V + r"%elem_len\):: " + V + r"\)", 88, [1, 2]),
    (r"call \{hnamefunc0\}\(" + V + r", " + V + r", " + V + r"%elem_len\)", 89, [1, 2, 3]),
    # struct argument: the C++ struct behind the C struct the wrapper receives
    (r"\{c_const\}\{cxx_type\} \* " + V + r" = static_cast<\{c_const\}\{cxx_type\} \*>\(static_cast<\{c_const\}void \*>\(\{c_addr\}" + V + r"\)\);", 93, [1, 2]),
    # char ** input
    (r"char \*\*" + V + r" = ShroudStrArrayAlloc\(" + V + r", " + V + r", " + V + r"\);", 80, [1, 2, 3, 4]),
    (r"ShroudStrArrayFree\(" + V + r", " + V + r"\);", 81, [1, 2]),
]

# ---- unmodelled lines: explicit, one op code each (>= 100); entries using them are `_partial` ----
OPAQUE = [
    "<modelled> allocate({f_var}{f_array_allocate})",
    "{c_var_context}%base_addr = C_LOC({f_var})",
    "{c_var_context}%type = {sh_type}",
    "! {c_var_context}%elem_len = C_SIZEOF()",
    "{c_var_context}%size = {size}",
    "{c_var_context}%rank = {rank}",
    "{c_var_context}%shape(1:{rank}) = shape({f_var})",
    "call c_f_pointer({F_pointer}, {f_var})",
    "<modelled> call c_f_pointer({c_var_context}%base_addr, {f_var}{f_array_shape})",
    "{f_var} = {c_var_context}%base_addr",
    "<modelled> allocate({f_var}({c_var_dimension}))",
    "<modelled> call {hnamefunc0}({c_var_context}, {f_var}, size({f_var}, kind=C_SIZE_T))",
    "<modelled> call c_f_pointer({F_pointer}, {F_result}{f_array_shape})",
    "{c_var_capsule}%mem = {c_var_context}%cxx",
    "<modelled> allocate(character(len={c_var_context}%elem_len):: {f_var})",
    "<modelled> call {hnamefunc0}({c_var_context}, {f_var}, {c_var_context}%elem_len)",
    "<modelled> call {hnamefunc0}({c_var_context}, {f_var}, size({f_var},kind=C_SIZE_T))",
    "<modelled> allocate({f_var}({c_var_context}%size))",
    "<modelled> if (allocated({f_var})) deallocate({f_var})",
    "type({F_array_type}) {c_var_context}",
    "<modelled> {c_const}{cxx_type} *{cxx_var};",
    "{cxx_type} * {c_var} = {c_var_context}->addr.base;",
    "{cxx_type} * {c_var} = static_cast<{cxx_type} *>(const_cast<void *>({c_var_context}->addr.base));",
    "<modelled> char **{cxx_var} = ShroudStrArrayAlloc({c_var}, {c_var_size}, {c_var_len});",
    "<modelled> ShroudStrArrayFree({cxx_var}, {c_var_size});",
    "<modelled> std::string * {cxx_var} = new std::string;",
    "<modelled> {c_const}std::vector<{cxx_T}> {cxx_var}({c_var}, {c_var} + {c_var_size});",
    "<modelled> {c_const}std::vector<{cxx_T}> *{cxx_var} = new std::vector<{cxx_T}>;",
    "<modelled> std::vector<{cxx_T}> *{cxx_var} = new std::vector<{cxx_T}>({c_var}, {c_var} + {c_var_size});",
    "std::vector<{cxx_T}> {cxx_var};",
    "{c_const}std::vector<{cxx_T}> {cxx_var};",
    "{{+",
    "{c_const}char * BBB = {c_var};",
    "char * BBB = {c_var};",
    "std::vector<{cxx_T}>::size_type",
    "+{c_temp}i = 0,",
    "{c_temp}n = {c_var_size};",
    "-for(; {c_temp}i < {c_temp}n; {c_temp}i++) {{+",
    "for(; {c_temp}i < {c_temp}n; {c_temp}i++) {{+",
    "{cxx_var}.push_back(std::string(BBB,ShroudLenTrim(BBB, {c_var_len})));",
    "BBB += {c_var_len};",
    "{c_temp}n = std::min({cxx_var}.size(),{c_temp}n);",
    "-{c_temp}n = std::min({cxx_var}.size(),{c_temp}n);",
    "ShroudStrCopy(BBB, {c_var_len}, {cxx_var}[{c_temp}i].data(), {cxx_var}[{c_temp}i].size());",
    "<modelled> {c_const}{cxx_type} * {cxx_var} = static_cast<...>({c_addr}{c_var});",
    "{c_const}{c_type} * {c_var} = static_cast<{c_const}{c_type} *>(static_cast<{c_const}void *>({cxx_addr}{cxx_var}));",
    "{cxx_type} *{cxx_var} = {cast_static}{cxx_type} *{cast1}{c_var}->base_addr{cast2};",
    "<modelled> {c_var_context}->cxx.addr = {cxx_nonconst_ptr};",
    "<modelled> {c_var_context}->cxx.idtor = {idtor};",
    "<modelled> {c_var_context}->addr.base = {cxx_var};",
    "<modelled> {c_var_context}->type = {sh_type};",
    "<modelled> {c_var_context}->elem_len = sizeof({cxx_type});",
    "<modelled> {c_var_context}->rank = {rank};{c_array_shape}",
    "<modelled> {c_var_context}->size = {c_array_size};",
    "<modelled> {c_var_context}->addr.ccharp = {cxx_var};",
    "<modelled> {c_var_context}->elem_len = {cxx_var} == {nullptr} ? 0 : {stdlib}strlen({cxx_var});",
    "<modelled> {c_var_context}->size = 1;",
    "<modelled> {c_var_context}->rank = 0;",
    "<modelled> ShroudStrToArray({c_var_context}, {cxx_addr}{cxx_var}, {idtor});",
    "<modelled> ShroudStrToArray({c_var_context}, {cxx_var}, {idtor});",
    "<modelled> {c_var_context}->cxx.addr = {cxx_var};",
    "<modelled> {c_var_context}->addr.base = {cxx_var}->empty() ? {nullptr} : &{cxx_var}->front();",
    "<modelled> {c_var_context}->elem_len = sizeof({cxx_T});",
    "<modelled> {c_var_context}->size = {cxx_var}->size();",
    "<modelled> {c_var_context}->rank = 1;",
    "<modelled> {c_var_context}->shape[0] = {c_var_context}->size;",
    "if ({cxx_var} != {nullptr}) {{+",
    "int SH_ret = CFI_allocate({cfi_prefix}{c_var}, (CFI_index_t *) 0, (CFI_index_t *) 0, strlen({cxx_var}));",
    "if (SH_ret == CFI_SUCCESS) {{+",
    "{stdlib}memcpy({cfi_prefix}{c_var}->base_addr, {cxx_var}, {cfi_prefix}{c_var}->elem_len);",
    "int SH_ret = CFI_allocate({cfi_prefix}{c_var}, (CFI_index_t *) 0, (CFI_index_t *) 0, {cxx_var}{cxx_member}length());",
    "{stdlib}memcpy({cfi_prefix}{c_var}->base_addr, {cxx_var}{cxx_member}data(), {cxx_var}{cxx_member}length());",
    "int SH_ret = CFI_allocate({cfi_prefix}{c_var}, (CFI_index_t *) 0, (CFI_index_t *) 0, {cxx_var}.length());",
    "{stdlib}memcpy({cfi_prefix}{c_var}->base_addr, {cxx_var}.data(), {cfi_prefix}{c_var}->elem_len);",
    # Fortran argument declarations (clause arg_decl): only the form of the declaration
    "{f_type}, intent({f_intent}), target :: {f_var}{f_assumed_shape}",
    "{f_type}, intent({f_intent}), allocatable :: {f_var}{f_assumed_shape}",
    "{f_type}, intent({f_intent}), pointer :: {f_var}",
    "{f_type}, intent({f_intent}), pointer :: {f_var}{f_assumed_shape}",
    "type(C_PTR), intent({f_intent}) :: {f_var}",
    "type(C_PTR), intent(IN) :: {f_var}",
    "type(C_PTR), intent(IN) :: {f_var}{f_assumed_shape}",
    "type(C_PTR), intent(OUT) :: {f_var}",
    "{f_type}, pointer :: {f_var}{f_assumed_shape}",
    "type({F_capsule_type}), intent(OUT) :: {c_var_capsule}",
    "character, value, intent(IN) :: {f_var}",
    "character(len=:), allocatable :: {f_var}",
    "character(len=*), intent(IN) :: {f_var}",
]
OPAQUE_BASE = 100


def norm(line):
    return re.sub(r"\s+", " ", line.replace("\t", "")).strip()


_OPAQUE = {norm(l): OPAQUE_BASE + i for i, l in enumerate(OPAQUE)}
_COMPILED = [(re.compile("^" + rx + "$"), code, slots) for rx, code, slots in PATTERNS]


def map_line(line, where=""):
    n = norm(line)
    for rx, code, slots in _COMPILED:
        m = rx.match(n)
        if m:
            vs = []
            for s in slots:
                name = m.group(s) if isinstance(s, int) else s
                if name not in VARS:
                    raise TranslatorError("template line %r (%s): variable {%s} has no code" % (line, where, name))
                vs.append(VARS[name])
            return code, vs
    if n in _OPAQUE:
        return _OPAQUE[n], []
    raise TranslatorError("template line %r (%s) matches no pattern of tools/extract_fstmts.py" % (line, where))


# ------------------------------------------------------------------ reading the tables (fresh process)
_DUMP = r"""
import copy, json, sys
from shroud import statements as st
out = {}
for lang in ("c", "cxx"):
    stmts = copy.deepcopy(st.fc_statements)
    st.update_for_language(stmts, lang)
    tree = {}
    st.update_stmt_tree(stmts, tree, st.default_stmts)
    rows = []
    def walk(t):
        if "_node" in t:
            s = t["_stmts"]
            row = {"key": t["_key"], "orig": t["_node"]["name"]}
            for k in ("buf_args", "buf_extra", "pre_call", "post_call", "call", "declare", "arg_c_call", "arg_call",
                      "ret", "arg_decl", "arg_name", "c_local_var", "cxx_local_var", "need_wrapper", "result",
                      "return_cptr", "owner", "final"):
                try:
                    row[k] = getattr(s, k)
                except AttributeError:
                    row[k] = None
            rows.append(row)
        for k in sorted(x for x in t if not x.startswith("_")):
            if isinstance(t[k], dict):
                walk(t[k])
    walk(tree)
    out[lang] = rows
json.dump(out, sys.stdout)
"""


def read_tables():
    e = dict(os.environ, PYTHONPATH=common.REPO, PYTHONDONTWRITEBYTECODE="1")
    p = subprocess.run([sys.executable, "-c", _DUMP], stdout=subprocess.PIPE, stderr=subprocess.PIPE, text=True, env=e)
    if p.returncode:
        raise TranslatorError("reading fc_statements failed: " + p.stderr[-1500:])
    return json.loads(p.stdout)


# ------------------------------------------------------------------ context shape / size (wrapc.set_fmt_fields)
# `c_array_shape` and `c_array_size` are computed by code, not by a table: the real pipeline is run on probe
# declarations with +dimension(n), (n,m), (n,m,k) for a result and for a `**` intent(out) argument, and the text
# substituted into `{c_var_context}->rank = {rank};{c_array_shape}` / `->size = {c_array_size}` is parsed into
#   (rank, [(shape index, position of the dimension name in the declared list)], [shape indices multiplied for size])
_PROBE_YAML = """library: probe
cxx_header: probe.h
language: c
options: {wrap_python: false, wrap_lua: false}
declarations:
- decl: int *r1(int n) +dimension(n)+deref(allocatable)
- decl: int *r2(int n, int m) +dimension(n,m)+deref(allocatable)
- decl: int *r3(int n, int m, int k) +dimension(n,m,k)+deref(pointer)
- decl: void p2(int n, int m, int **p +intent(out)+dimension(n,m))
- decl: void p3(int n, int m, int k, int **p +intent(out)+dimension(n,m,k))
"""

_PROBE = r"""
import argparse, json, os, sys, io, contextlib
from shroud import main as smain
d = sys.argv[1]
y = os.path.join(d, "probe.yaml")
a = argparse.Namespace(cmake="", cfiles="", ffiles="", filename=[y], logdir=d, outdir=d, outdir_c_fortran="", outdir_lua="",
                       outdir_python="", outdir_yaml="", path=[d], write_helpers="", write_statements="", yaml_types="",
                       write_version=False, option=[], language=None)
with contextlib.redirect_stdout(io.StringIO()):
    cfg = smain.main_with_args(a)
cfg.log.close()
j = json.load(open(os.path.join(d, "probe.json")))
out = []
for f in j["library"]["functions"]:
    if f.get("_generated") != "arg_to_buffer":
        continue
    name = f["ast"]["declarator"]["name"]
    fc = f["_fmtresult"]["fmtc"] if name.startswith("r") else f["_fmtargs"]["p"]["fmtc"]
    out.append([name, fc.get("rank"), fc.get("c_array_shape"), fc.get("c_array_size"), fc.get("c_var_context")])
json.dump(out, sys.stdout)
"""


def read_ctx_probe():
    d = common.scratch("shroudverif-probe-")
    try:
        with open(os.path.join(d, "probe.yaml"), "w") as f:
            f.write(_PROBE_YAML)
        e = dict(os.environ, PYTHONPATH=common.REPO, PYTHONDONTWRITEBYTECODE="1")
        p = subprocess.run([sys.executable, "-c", _PROBE, d], stdout=subprocess.PIPE, stderr=subprocess.PIPE, text=True, env=e)
        if p.returncode:
            raise TranslatorError("context shape probe failed: " + p.stderr[-1500:])
        data = json.loads(p.stdout.strip().split("\n")[-1])
    finally:
        common.rmtree(d)
    rows = []
    dims = {"n": 0, "m": 1, "k": 2}
    for name, rank, shape, size, ctxname in data:
        if rank is None or shape is None or size is None:
            raise TranslatorError("context shape probe %s: rank/c_array_shape/c_array_size missing" % name)
        assigns = []
        for line in [l for l in shape.split("\n") if l.strip()]:
            m = re.fullmatch(re.escape(ctxname) + r"->shape\[(\d+)\] = (\w+);", line.strip())
            if not m or m.group(2) not in dims:
                raise TranslatorError("context shape probe %s: cannot parse %r" % (name, line))
            assigns.append((int(m.group(1)), dims[m.group(2)]))
        factors = []
        for part in size.replace("\t", "").split("*"):
            m = re.fullmatch(re.escape(ctxname) + r"->shape\[(\d+)\]", part.strip())
            if not m:
                raise TranslatorError("context shape probe %s: cannot parse size %r" % (name, size))
            factors.append(int(m.group(1)))
        rows.append((0 if name.startswith("r") else 1, int(rank), assigns, factors))
    if len(rows) != 5:
        raise TranslatorError("context shape probe: expected 5 bufferify clones, got %d" % len(rows))
    return rows


def part_ids(rows):
    extra = sorted({p for r in rows for p in r["key"].split("_")} - set(PARTS))
    ids = dict(PARTS)
    for i, p in enumerate(extra):
        ids[p] = 200 + i
    return ids, extra


# ---- clause-level patterns: the std::vector<std::string> loops are one op each (whole clause, exact text) ----
_VS_IN = ["std::vector<{cxx_T}> {cxx_var};", "{{+", "{c_const}char * BBB = {c_var};", "std::vector<{cxx_T}>::size_type", "+{c_temp}i = 0,",
          "{c_temp}n = {c_var_size};", "-for(; {c_temp}i < {c_temp}n; {c_temp}i++) {{+",
          "{cxx_var}.push_back(std::string(BBB,ShroudLenTrim(BBB, {c_var_len})));", "BBB += {c_var_len};", "-}}", "-}}"]
_VS_OUT1 = ["{{+", "char * BBB = {c_var};", "std::vector<{cxx_T}>::size_type", "+{c_temp}i = 0,", "{c_temp}n = {c_var_size};",
            "{c_temp}n = std::min({cxx_var}.size(),{c_temp}n);", "-for(; {c_temp}i < {c_temp}n; {c_temp}i++) {{+",
            "ShroudStrCopy(BBB, {c_var_len}, {cxx_var}[{c_temp}i].data(), {cxx_var}[{c_temp}i].size());", "BBB += {c_var_len};", "-}}", "-}}"]
_VS_OUT2 = ["{{+", "char * BBB = {c_var};", "std::vector<{cxx_T}>::size_type", "+{c_temp}i = 0,", "{c_temp}n = {c_var_size};",
            "-{c_temp}n = std::min({cxx_var}.size(),{c_temp}n);", "for(; {c_temp}i < {c_temp}n; {c_temp}i++) {{+",
            "ShroudStrCopy(BBB, {c_var_len}, {cxx_var}[{c_temp}i].data(), {cxx_var}[{c_temp}i].size());", "BBB += {c_var_len};", "-}}", "-}}"]
CLAUSE_PATTERNS = [([norm(x) for x in _VS_IN], [(90, [6, 1, 4, 2])]),
                   ([norm(x) for x in _VS_OUT1], [(91, [1, 4, 2, 6])]),
                   ([norm(x) for x in _VS_OUT2], [(91, [1, 4, 2, 6])]),
                   ([norm("{c_const}std::vector<{cxx_T}> {cxx_var};")], [(92, [6])])]


def map_clause(lines, where):
    n = [norm(l) for l in lines]
    for pat, ops in CLAUSE_PATTERNS:
        if n == pat:
            return list(ops)
    return [map_line(l, where) for l in lines]


def encode_row(r, ids):
    side = r["key"].split("_")[0]
    path = [ids[p] for p in r["key"].split("_")]
    ba = [BUFARG[b] for b in (r["buf_args"] or [])] if side == "c" else []
    be = [BUFARG[b] for b in (r["buf_extra"] or [])] if side == "c" else []
    for b in (r["buf_args"] or []) + (r["buf_extra"] or []):
        if b not in BUFARG:
            raise TranslatorError("unknown buf_arg %r in %s" % (b, r["key"]))
    cxxl = {None: 0, "": 0, "scalar": 1, "pointer": 2}.get(r["cxx_local_var"], 9)
    flags = [
        1 if (side == "f" and r["c_local_var"]) else 0,
        cxxl,
        1 if r["need_wrapper"] else 0,
        1 if r["result"] else 0,
        1 if (side == "c" and r["c_local_var"]) else 0,
        1 if r["return_cptr"] else 0,
        1 if (side == "f" and r["arg_decl"]) else 0,
        1 if r["owner"] == "caller" else 0,
    ]
    clauses = []
    for cl, cid in CLAUSE.items():
        lines = r.get(cl) or []
        if lines:
            clauses.append((cid, map_clause(lines, "%s.%s" % (r["key"], cl))))
    if r.get("final"):
        raise TranslatorError("clause 'final' of %s is not translated" % r["key"])
    return path, ba, be, flags, clauses


def _nl(xs):
    return "[" + ", ".join(str(x) for x in xs) + "]"


def _ops(ops):
    return "[" + ", ".join("(%d, %s)" % (c, _nl(v)) for c, v in ops) + "]"


def render(tabs, probe=()):
    ids, extra = part_ids(tabs["c"] + tabs["cxx"])
    L = ["/- GENERATED by tools/extract_fstmts.py from statements.fc_statements of the /repo working tree.",
         "   Do not edit.  Encoding: see the docstring of the translator. -/",
         "namespace Shroud.Gen.FStmts", "",
         "abbrev Ops := List (Nat × List Nat)",
         "/-- (path, buf_args, buf_extra, flags, clauses) -/",
         "abbrev RawRow := List Nat × List Nat × List Nat × List Nat × List (Nat × Ops)", ""]
    for lang in ("c", "cxx"):
        L.append("def rows%s : List RawRow := [" % ("C" if lang == "c" else "Cxx"))
        enc = []
        for r in tabs[lang]:
            path, ba, be, flags, clauses = encode_row(r, ids)
            cl = "[" + ", ".join("(%d, %s)" % (cid, _ops(ops)) for cid, ops in clauses) + "]"
            enc.append("  (%s, %s, %s, %s, %s)" % (_nl(path), _nl(ba), _nl(be), _nl(flags), cl))
        L.append(",\n".join(enc))
        L += ["]", ""]
    L.append("/-- key names in the order of `rowsCxx` (messages only) -/")
    L.append("def rowNames : List String := [" + ", ".join('"%s"' % r["key"] for r in tabs["cxx"]) + "]")
    L.append("")
    L.append("/-- wrapc.set_fmt_fields on probe declarations +dimension(n) / (n,m) / (n,m,k): (0 result | 1 `**` out argument,")
    L.append("    rank, [(shape index, position of the dimension in the declared list)], [shape indices multiplied into size]) -/")
    L.append("def ctxProbe : List (Nat × Nat × List (Nat × Nat) × List Nat) := [" + ", ".join(
        "(%d, %d, [%s], %s)" % (k, r, ", ".join("(%d, %d)" % a for a in asg), _nl(fac)) for k, r, asg, fac in probe) + "]")
    L.append("")
    L.append("/-- parts outside the fixed interning table (ids 200, 201, ...) -/")
    L.append("def extraParts : List String := [" + ", ".join('"%s"' % p for p in extra) + "]")
    L += ["", "end Shroud.Gen.FStmts"]
    return "\n".join(L) + "\n", ids


def regenerate():
    tabs = read_tables()
    probe = read_ctx_probe()
    text, ids = render(tabs, probe)
    changed = write_if_changed(GEN, text)
    nlines = len({norm(l) for lang in tabs for r in tabs[lang] for cl in CLAUSE for l in (r.get(cl) or [])})
    return {"rows_c": len(tabs["c"]), "rows_cxx": len(tabs["cxx"]), "distinct_template_lines": nlines,
            "extra_parts": [p for p in ids if ids[p] >= 200], "changed": changed}


def tables():
    """(tabs, ids) for the harness (names <-> ids)"""
    tabs = read_tables()
    ids, _ = part_ids(tabs["c"] + tabs["cxx"])
    return tabs, ids


if __name__ == "__main__":
    print(json.dumps(regenerate(), indent=1))
