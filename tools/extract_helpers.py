"""Translator for C05: /repo working tree -> lean/ShroudVerif/Gen/Helpers.lean

 * cHelpers / fHelpers / luaHelpers: `name -> dependent_helpers` of whelpers.CHelpers, whelpers.FHelpers
   (as filled by add_all_helpers / add_shadow_helper during real runs of the upstream corpus; union over
   the corpus) and wrapl.LuaHelpers.  Names are interned in Python's sorted order so that Nat order is
   the order of `sorted(helpers.keys())`.  A dependency that names no helper gets an id beyond the table.
 * cRank / fRank / luaRank: topological certificate (longest dependency chain below the helper); computed
   here, CHECKED by the Lean kernel (`rankedB`).
 * templateFields: (kind, entry, placeholders) for every fc_statements / py_statements / lua_statements
   entry: every `{field}` of every string of the entry (string.Formatter().parse; the root name before
   `.`/`[`).  kind 0 = fc entry c_*, 1 = fc entry f_*, 2 = py, 3 = lua.
 * providedFields: (kind, fields): union of
     - the fields visible (local or through the parent chain) in any Scope/dict handed to util.wformat
       from the emitter(s) of the kind while really generating every upstream corpus configuration
       (recorded by replacing util.fmt, the string.Formatter used by wformat);
       kind 0: calls from wrapc.py and wrapf.py (the Fortran emitter formats the f_* clauses of c_ entries),
       kind 1: wrapf.py, kind 2: wrapp.py, kind 3: wrapl.py;
     - AST scan of `fmt*.<name> = ...` assignments and `fmt*.update(dict(<name>=...))` in those modules.
   A placeholder outside the set is never provided: KeyError/AttributeError -> SystemExit at generation.
 * helper templates are expanded eagerly inside whelpers.add_*_helper (wformat at definition time): a missing
   field there makes every run fail, including this translator (loud failure, not a table row).
"""
import ast
import re
import concurrent.futures
import json
import multiprocessing
import os
import string
import sys

from tools import common

GEN = os.path.join(common.LEAN, "ShroudVerif", "Gen", "Helpers.lean")
KIND_MODULES = {0: ("wrapc.py", "wrapf.py"), 1: ("wrapf.py",), 2: ("wrapp.py",), 3: ("wrapl.py",)}
STRUCTURAL_KEYS = {"name", "alias", "base", "mixin", "comments", "notimplemented"}


def write_if_changed(path, text):
    try:
        if open(path).read() == text:
            return False
    except OSError:
        pass
    os.makedirs(os.path.dirname(path), exist_ok=True)
    tmp = path + ".tmp%d" % os.getpid()
    with open(tmp, "w") as f:
        f.write(text)
    os.replace(tmp, path)
    return True


# ------------------------------------------------------------------ worker (fresh process per configuration)
def _visible(dct):
    out = set()
    seen = 0
    while dct is not None and seen < 50:
        seen += 1
        if isinstance(dct, dict):
            out.update(k for k in dct if isinstance(k, str))
            break
        d = getattr(dct, "__dict__", None)
        if d is None:
            break
        out.update(k for k in d if not k.startswith("_Scope__"))
        dct = d.get("_Scope__parent")
    return out


def _strings(v):
    if isinstance(v, str):
        yield v
    elif isinstance(v, (list, tuple)):
        for x in v:
            yield from _strings(x)
    elif isinstance(v, dict):
        for k, x in v.items():
            yield from _strings(k)
            yield from _strings(x)


def placeholders(s):
    """root field names of a template; None if it is not a parsable template"""
    try:
        parsed = list(string.Formatter().parse(s))
    except ValueError:
        return None
    res = []
    for _lit, field, spec, _conv in parsed:
        if field is None:
            continue
        root = field.split(".")[0].split("[")[0]
        res.append(root)
        if spec:
            sub = placeholders(spec)
            if sub:
                res.extend(sub)
    return res


def worker(name):
    """run one corpus configuration with a recording formatter; returns JSON-able dict"""
    sys.path.insert(0, common.REPO)
    from tools import shroudrun
    from shroud import util
    rec = {}

    class Rec(string.Formatter):
        def vformat(self, template, args, dct):
            f = sys._getframe(1)
            mod = None
            while f is not None:
                fn = os.path.basename(f.f_code.co_filename)
                if fn != "util.py" and fn != os.path.basename(__file__):
                    mod = fn
                    break
                f = f.f_back
            rec.setdefault(mod, set()).update(_visible(dct))
            return string.Formatter.vformat(self, template, args, dct)

    util.fmt = Rec()
    d = common.scratch()
    try:
        cfg, exc, out = shroudrun.run_corpus_inproc(name, d)
    finally:
        common.rmtree(d)
    from shroud import whelpers, wrapl, statements, wrapp
    res = {"name": name, "exc": repr(exc) if exc is not None else None,
           "rec": {k: sorted(v) for k, v in rec.items() if k},
           "C": {k: list(v.get("dependent_helpers", [])) for k, v in whelpers.CHelpers.items()},
           "F": {k: list(v.get("dependent_helpers", [])) for k, v in whelpers.FHelpers.items()},
           "L": {k: list(v.get("dependent_helpers", [])) for k, v in wrapl.LuaHelpers.items()}}
    if name == "tutorial":
        def _txt(h, keys):
            return "\n".join(str(h.get(k, "")) for k in keys)
        res["htext"] = {
            "C": {k: {"name": v.get("name") or k, "text": _txt(v, ("source", "c_source", "cxx_source"))} for k, v in whelpers.CHelpers.items()},
            "F": {k: {"name": v.get("name") or k, "text": _txt(v, ("interface", "source", "derived_type"))} for k, v in whelpers.FHelpers.items()},
        }
        ents = []
        for kindsel, tab in (("fc", statements.fc_statements), ("py", wrapp.py_statements), ("lua", wrapl.lua_statements)):
            for e in tab:
                nm = e.get("name", "?")
                if kindsel == "fc":
                    kind = 1 if nm.startswith("f_") else 0
                elif kindsel == "py":
                    kind = 2
                else:
                    kind = 3
                fields, bad = [], []
                for k, v in e.items():
                    if k in STRUCTURAL_KEYS:
                        continue
                    for s in _strings(v):
                        ph = placeholders(s)
                        if ph is None:
                            bad.append(s)
                        else:
                            fields.extend(ph)
                ents.append({"kind": kind, "name": nm, "fields": sorted(set(fields)), "bad": bad})
        res["entries"] = ents
        rows = []
        for e in statements.fc_statements:
            nm = e.get("name", "?")
            kind = 1 if nm.startswith("f_") else 0
            clauses = ("arg_decl",) if kind == 1 else ("f_arg_decl", "f_result_decl")
            needed = set()
            for cl in clauses:
                for line in (e.get(cl) or []):
                    fields = placeholders(line)
                    if fields is None:
                        raise RuntimeError("unparsable declaration template in %s.%s: %r" % (nm, cl, line))
                    needed.update(re.findall(r"\bC_[A-Z0-9_]+\b", line))
                    if kind == 0 and "f_type" in fields:
                        # explicit interface declarations get no typemap module from the emitter: the kind of {f_type}
                        # has to come from the entry itself
                        needed.add("{f_kind}")
            fm = sorted(set(x for k, v in (e.get("f_module") or {}).items() if k != "__line__" for x in v))
            line = []
            if e.get("f_module_line"):
                for use in e["f_module_line"].replace(" ", "").split(";"):
                    mname, syms = use.split(":")
                    line.extend(syms.split(","))
            if needed or fm or line:
                rows.append({"name": nm, "kind": kind, "needed": sorted(needed), "f_module": fm, "line": sorted(set(line))})
        res["fmodule_rows"] = rows
    return res


# ------------------------------------------------------------------ AST scan of fmt assignments
def scan_assignments():
    """module file -> set of names assigned on a variable whose name contains 'fmt'"""
    out = {}
    d = os.path.join(common.REPO, "shroud")
    for fn in sorted(os.listdir(d)):
        if not fn.endswith(".py"):
            continue
        try:
            tree = ast.parse(open(os.path.join(d, fn)).read())
        except SyntaxError:
            continue
        names = set()

        def isfmt(node):
            if isinstance(node, ast.Name):
                return "fmt" in node.id
            if isinstance(node, ast.Attribute):
                return "fmt" in node.attr
            return False

        for node in ast.walk(tree):
            if isinstance(node, (ast.Assign, ast.AugAssign, ast.AnnAssign)):
                targets = node.targets if isinstance(node, ast.Assign) else [node.target]
                for t in targets:
                    for tt in (t.elts if isinstance(t, ast.Tuple) else [t]):
                        if isinstance(tt, ast.Attribute) and isfmt(tt.value):
                            names.add(tt.attr)
            elif isinstance(node, ast.Call) and isinstance(node.func, ast.Attribute) and node.func.attr in ("update", "setdefault") \
                    and isfmt(node.func.value):
                for a in node.args:
                    if isinstance(a, ast.Call) and isinstance(a.func, ast.Name) and a.func.id == "dict":
                        names.update(k.arg for k in a.keywords if k.arg)
                    elif isinstance(a, ast.Dict):
                        names.update(k.value for k in a.keys if isinstance(k, ast.Constant) and isinstance(k.value, str))
                    elif isinstance(a, ast.Constant) and isinstance(a.value, str) and node.func.attr == "setdefault":
                        names.add(a.value)
            elif isinstance(node, ast.Call) and isinstance(node.func, ast.Name) and node.func.id == "setattr" and len(node.args) >= 2 \
                    and isfmt(node.args[0]) and isinstance(node.args[1], ast.Constant):
                names.add(node.args[1].value)
        out[fn] = names
    return out


# ------------------------------------------------------------------ collect
def collect(jobs=None):
    from tools import shroudrun
    names = [c[0] for c in shroudrun.CORPUS]
    ctx = multiprocessing.get_context("spawn")
    results = []
    with concurrent.futures.ProcessPoolExecutor(max_workers=jobs or min(16, os.cpu_count() or 4),
                                                mp_context=ctx, max_tasks_per_child=1) as ex:
        for r in ex.map(worker, names):
            results.append(r)
    return results


def ranks(graph):
    """longest chain below each node; None if the graph has a cycle"""
    rank, state = {}, {}
    cyc = []

    def go(n, stack):
        if n in rank:
            return rank[n]
        if state.get(n) == 1:
            cyc.append(stack + [n])
            return 0
        state[n] = 1
        r = 0
        for d in graph.get(n, []):
            if d in graph:
                r = max(r, go(d, stack + [n]) + 1)
        state[n] = 2
        rank[n] = r
        return r

    sys.setrecursionlimit(10000)
    for n in sorted(graph):
        go(n, [])
    return rank, cyc


def build(results):
    graphs = {"C": {}, "F": {}, "L": {}}
    conflicts = []
    rec = {}
    entries = None
    failed = []
    for r in results:
        if r["exc"] is not None:
            failed.append((r["name"], r["exc"]))
        for t in graphs:
            for k, v in r[t].items():
                if k in graphs[t] and graphs[t][k] != v:
                    conflicts.append((t, k, graphs[t][k], v))
                graphs[t][k] = v
        for m, fs in r["rec"].items():
            rec.setdefault(m, set()).update(fs)
        if "entries" in r:
            entries = r["entries"]
            build.htext = r.get("htext", {})
            build.fmodule_rows = r.get("fmodule_rows", [])
    assigned = scan_assignments()
    provided = {}
    common_assigned = set()
    for fn in ("ast.py", "generate.py", "typemap.py", "util.py", "main.py", "whelpers.py", "statements.py"):
        common_assigned |= assigned.get(fn, set())
    for kind, mods in KIND_MODULES.items():
        s = set(common_assigned)
        for m in mods:
            s |= rec.get(m, set())
            s |= assigned.get(m, set())
        provided[kind] = s
    return graphs, conflicts, provided, entries or [], failed


def render(graphs, provided, entries):
    allnames = sorted(set(n for g in graphs.values() for k, v in g.items() for n in [k] + list(v)))
    nid = {n: i for i, n in enumerate(allnames)}
    fieldnames = sorted(set(f for s in provided.values() for f in s) | set(f for e in entries for f in e["fields"]))
    fid = {n: i for i, n in enumerate(fieldnames)}
    L = ["/- GENERATED by tools/extract_helpers.py from the /repo working tree.  Do not edit. -/",
         "namespace Shroud.Gen.Helpers", ""]

    def table(name, g, doc):
        L.append("/-- %s -/" % doc)
        L.append("def %s : List (Nat × List Nat) := [" % name)
        L.append(",\n".join("  (%d, [%s])" % (nid[k], ", ".join(str(nid[d]) for d in g[k])) for k in sorted(g)))
        L.append("]")
        L.append("")

    info = {}
    for t, nm, doc in (("C", "cHelpers", "whelpers.CHelpers: name -> dependent_helpers"),
                       ("F", "fHelpers", "whelpers.FHelpers: name -> dependent_helpers"),
                       ("L", "luaHelpers", "wrapl.LuaHelpers: name -> dependent_helpers")):
        table(nm, graphs[t], doc)
        rk, cyc = ranks(graphs[t])
        info[nm] = {"helpers": len(graphs[t]), "edges": sum(len(v) for v in graphs[t].values()),
                    "max_rank": max(rk.values()) if rk else 0, "cycles": cyc[:3]}
        rn = {"C": "cRank", "F": "fRank", "L": "luaRank"}[t]
        L.append("/-- topological certificate for %s (checked by the kernel) -/" % nm)
        L.append("def %s : List (Nat × Nat) := [" % rn)
        L.append(",\n".join("  (%d, %d)" % (nid[k], rk.get(k, 0)) for k in sorted(graphs[t])))
        L.append("]")
        L.append("")
    L.append("def helperNames : List String := [")
    L.append(",\n".join('  "%s"' % n for n in allnames))
    L.append("]")
    L.append("")
    entnames = [e["name"] for e in entries]
    L.append("/-- (kind, entry index, placeholder field ids); kind 0 fc c_*, 1 fc f_*, 2 py, 3 lua -/")
    L.append("def templateFields : List (Nat × Nat × List Nat) := [")
    L.append(",\n".join("  (%d, %d, [%s])" % (e["kind"], i, ", ".join(str(fid[f]) for f in e["fields"])) for i, e in enumerate(entries)))
    L.append("]")
    L.append("")
    L.append("/-- (kind, format fields that exist for the kind) -/")
    L.append("def providedFields : List (Nat × List Nat) := [")
    L.append(",\n".join("  (%d, [%s])" % (k, ", ".join(str(fid[f]) for f in sorted(provided[k]))) for k in sorted(provided)))
    L.append("]")
    L.append("")
    L.append("def entryNames : List String := [")
    L.append(",\n".join('  "%s"' % n for n in entnames))
    L.append("]")
    L.append("")
    L.append("def fieldNames : List String := [")
    L.append(",\n".join('  "%s"' % n for n in fieldnames))
    L.append("]")
    L.append("")
    L.append("end Shroud.Gen.Helpers")
    info["entries"] = len(entries)
    info["fields"] = len(fieldnames)
    info["provided"] = {str(k): len(v) for k, v in provided.items()}
    return "\n".join(L) + "\n", nid, info


def missing_placeholders(provided, entries):
    """implementation-level statement of (2b): list of (kind, entry, field) never provided"""
    out = []
    for e in entries:
        for f in e["fields"]:
            if f not in provided[e["kind"]]:
                out.append((e["kind"], e["name"], f))
    return out


def undeclared_uses(graphs, htext):
    """implementation-level closure check: a helper whose text calls the function of another helper must reach that helper
    through dependent_helpers (otherwise a request for the first alone yields text that uses an undefined name)"""
    import re
    out = []
    for t, tab in htext.items():
        g = graphs[t]

        def reach(n, seen):
            if n in seen:
                return seen
            seen.add(n)
            for x in g.get(n, []):
                if x in g:
                    reach(x, seen)
            return seen
        for hn, h in tab.items():
            if hn not in g:
                continue
            # comments may mention other helpers
            if t == "F":
                h = dict(h, text=re.sub(r"!.*", "", h["text"]))
            else:
                h = dict(h, text=re.sub(r"//.*", "", re.sub(r"/\*.*?\*/", "", h["text"], flags=re.S)))
            r = reach(hn, set())
            for kn, k in tab.items():
                nm = k.get("name") or kn
                if kn == hn or not nm or len(nm) < 4 or nm == h.get("name"):
                    continue
                if kn not in r and re.search(r"\b%s\b" % re.escape(nm), h["text"]) \
                        and not any(tab.get(x, {}).get("name") == nm for x in r):
                    out.append((t, hn, kn, nm))
    return out


GEN_FMOD = os.path.join(common.LEAN, "ShroudVerif", "Gen", "FModule.lean")


def scan_emitter_adds():
    """literal symbols of `self.set_f_module(<modules>, "<module>", "<sym>", ...)` calls in wrapf.py"""
    tree = ast.parse(open(os.path.join(common.REPO, "shroud", "wrapf.py")).read())
    out = set()
    for node in ast.walk(tree):
        if isinstance(node, ast.Call) and isinstance(node.func, ast.Attribute) and node.func.attr == "set_f_module":
            for a in node.args[2:]:
                if isinstance(a, ast.Constant) and isinstance(a.value, str):
                    out.add(a.value)
    return sorted(out)


def scan_emitter_decl_rows():
    """literal Fortran declarations written by wrapf.py itself (struct members, capsule / size / len arguments ...): for every
    statement block that both appends a string naming an iso_c_binding symbol in a type spec - `(kind=C_X)`, `type(C_X)`,
    `integer(C_X)` - and calls set_f_module with literal symbols, one row (needed = symbols named, provided = symbols of the
    set_f_module calls of the same block)"""
    tree = ast.parse(open(os.path.join(common.REPO, "shroud", "wrapf.py")).read())
    decl = re.compile(r"\((?:kind=)?(C_[A-Z0-9_]+)\)")
    rows = []
    compound = (ast.If, ast.For, ast.While, ast.With, ast.Try, ast.FunctionDef, ast.ClassDef)
    for node in ast.walk(tree):
        for field in ("body", "orelse", "finalbody"):
            block = getattr(node, field, None)
            if not isinstance(block, list):
                continue
            prov, need = [], []
            for st in block:
                if isinstance(st, compound):
                    continue
                for n in ast.walk(st):
                    if isinstance(n, ast.Call) and isinstance(n.func, ast.Attribute) and n.func.attr == "set_f_module":
                        prov += [a.value for a in n.args[2:] if isinstance(a, ast.Constant) and isinstance(a.value, str)]
                    if isinstance(n, ast.Constant) and isinstance(n.value, str):
                        need += decl.findall(n.value)
            if prov and need:
                rows.append({"name": "wrapf.py:%d" % block[0].lineno, "kind": 0, "needed": sorted(set(need)),
                             "f_module": sorted(set(prov)), "line": []})
    rows.sort(key=lambda r: int(r["name"].split(":")[1]))
    return rows


def render_fmodule(rows, emitter):
    syms = sorted(set(x for r in rows for k in ("needed", "f_module", "line") for x in r[k]) | set(emitter))
    sid = {n: i for i, n in enumerate(syms)}

    def ids(l):
        return "[%s]" % ", ".join(str(sid[x]) for x in l)
    L = ["/- GENERATED by tools/extract_helpers.py from the /repo working tree.  Do not edit. -/",
         "namespace Shroud.Gen.FModule", "",
         "/-- (entry index, kind 0 = c_ entry (f_arg_decl / f_result_decl: explicit bind(C) interface declaration, the emitter adds",
         "    no typemap module) 1 = f_ entry (arg_decl), symbols named by the declaration templates (`{f_type}` of a kind-0 row",
         "    counts as the symbol `{f_kind}`), symbols of the entry's f_module, symbols of its f_module_line) -/",
         "def declRows : List (Nat × Nat × List Nat × List Nat × List Nat) := ["]
    L.append(",\n".join("  (%d, %d, %s, %s, %s)" % (i, r["kind"], ids(r["needed"]), ids(r["f_module"]), ids(r["line"]))
                        for i, r in enumerate(rows)))
    L += ["]", "", "/-- symbols the emitter adds on its own (literal set_f_module calls in wrapf.py) -/",
          "def emitterAdds : List Nat := %s" % ids(emitter), "",
          "def rowNames : List String := [" + ", ".join('"%s"' % r["name"] for r in rows) + "]", "",
          "def symbolNames : List String := [" + ", ".join('"%s"' % x for x in syms) + "]", "",
          "end Shroud.Gen.FModule"]
    return "\n".join(L) + "\n"


def uncovered_decl_symbols(rows, emitter):
    """implementation-level statement of the table theorem"""
    out = []
    for r in rows:
        have = set(r["f_module"]) | set(r["line"]) | (set(emitter) if r["kind"] == 1 else set())
        for x in r["needed"]:
            if x not in have:
                out.append((r["name"], x))
    return out


def regenerate(jobs=None):
    results = collect(jobs)
    graphs, conflicts, provided, entries, failed = build(results)
    text, nid, info = render(graphs, provided, entries)
    changed = write_if_changed(GEN, text)
    frows = list(getattr(build, "fmodule_rows", [])) + scan_emitter_decl_rows()
    emitter = scan_emitter_adds()
    changed = write_if_changed(GEN_FMOD, render_fmodule(frows, emitter)) or changed
    info["fmodule"] = {"rows": len(frows), "with_needed": sum(1 for r in frows if r["needed"]), "emitter_adds": emitter,
                       "uncovered": uncovered_decl_symbols(frows, emitter)[:10]}
    info.update({"changed": changed, "conflicts": conflicts[:5], "failed_runs": failed[:5],
                 "unparsable_templates": [(e["name"], e["bad"][:2]) for e in entries if e["bad"]][:5],
                 "missing_placeholders": missing_placeholders(provided, entries)[:10]})
    data = {"fmodule_rows": frows, "emitter_adds": emitter, "htext": getattr(build, "htext", {}), "graphs": graphs, "nid": nid, "provided": {k: sorted(v) for k, v in provided.items()}, "entries": entries,
            "failed": failed}
    return info, data


if __name__ == "__main__":
    i, _d = regenerate()
    print(json.dumps(i, indent=1, default=str))
