"""Translator (T) for property C10: the character / std::string entries of shroud/statements.py
(resolved through statements.lookup_fc_stmts, i.e. with mixins and bases applied, exactly what
wrapc/wrapf use) -> lean/ShroudVerif/Gen/StrStmts.lean.

Every template line is mapped to a constructor of `Shroud.StrStmts.Op` through the explicit pattern
table below.  A line (or an entry) that the table does not know makes the translator raise: a changed
statement table is a broken tie, never a silent skip.  No text is emitted: entries are lists of
constructors, lengths are `LenArg` constructors, entry names are numbered (name table in a comment).
"""
import os
import re

from tools import common

OUT = os.path.join(common.LEAN, "ShroudVerif", "Gen", "StrStmts.lean")

# (lean name, lookup path)
ENTRIES = [
    ("c_char_ptr_in_buf", ["c", "char", "*", "in", "buf"]),
    ("c_char_ptr_out_buf", ["c", "char", "*", "out", "buf"]),
    ("c_char_ptr_inout_buf", ["c", "char", "*", "inout", "buf"]),
    ("c_char_ptr_result_buf", ["c", "char", "*", "result", "buf"]),
    ("c_char_scalar_result_buf", ["c", "char", "scalar", "result", "buf"]),
    ("c_char_ptr_in_cfi", ["c", "char", "*", "in", "cfi"]),
    ("c_char_ptr_out_cfi", ["c", "char", "*", "out", "cfi"]),
    ("c_char_ptr_inout_cfi", ["c", "char", "*", "inout", "cfi"]),
    ("c_char_ptr_result_cfi", ["c", "char", "*", "result", "cfi"]),
    ("c_char_scalar_result_cfi", ["c", "char", "scalar", "result", "cfi"]),
    ("c_char_ptr_result_buf_allocatable", ["c", "char", "*", "result", "buf", "allocatable"]),
    ("c_char_ptr_result_cfi_allocatable", ["c", "char", "*", "result", "cfi", "allocatable"]),
    ("c_char_pp_in_buf", ["c", "char", "**", "in", "buf"]),
    ("c_string_ptr_in_buf", ["c", "string", "*", "in", "buf"]),
    ("c_string_ref_in_buf", ["c", "string", "&", "in", "buf"]),
    ("c_string_scalar_in_buf", ["c", "string", "scalar", "in", "buf"]),
    ("c_string_ptr_out_buf", ["c", "string", "*", "out", "buf"]),
    ("c_string_ref_out_buf", ["c", "string", "&", "out", "buf"]),
    ("c_string_ptr_inout_buf", ["c", "string", "*", "inout", "buf"]),
    ("c_string_ref_inout_buf", ["c", "string", "&", "inout", "buf"]),
    ("c_string_scalar_result_buf", ["c", "string", "scalar", "result", "buf"]),
    ("c_string_ptr_result_buf", ["c", "string", "*", "result", "buf"]),
    ("c_string_ref_result_buf", ["c", "string", "&", "result", "buf"]),
    ("c_string_ptr_in_cfi", ["c", "string", "*", "in", "cfi"]),
    ("c_string_ref_in_cfi", ["c", "string", "&", "in", "cfi"]),
    ("c_string_scalar_in_cfi", ["c", "string", "scalar", "in", "cfi"]),
    ("c_string_ptr_out_cfi", ["c", "string", "*", "out", "cfi"]),
    ("c_string_ref_out_cfi", ["c", "string", "&", "out", "cfi"]),
    ("c_string_ptr_inout_cfi", ["c", "string", "*", "inout", "cfi"]),
    ("c_string_ref_inout_cfi", ["c", "string", "&", "inout", "cfi"]),
    ("c_string_scalar_result_cfi", ["c", "string", "scalar", "result", "cfi"]),
    ("c_string_ptr_result_cfi", ["c", "string", "*", "result", "cfi"]),
    ("c_string_ref_result_cfi", ["c", "string", "&", "result", "cfi"]),
    ("c_string_ptr_result_buf_allocatable", ["c", "string", "*", "result", "buf", "allocatable"]),
    ("c_string_ref_result_buf_allocatable", ["c", "string", "&", "result", "buf", "allocatable"]),
    ("c_string_scalar_result_buf_allocatable", ["c", "string", "scalar", "result", "buf", "allocatable"]),
    ("c_string_ptr_result_cfi_allocatable", ["c", "string", "*", "result", "cfi", "allocatable"]),
    ("c_string_ref_result_cfi_allocatable", ["c", "string", "&", "result", "cfi", "allocatable"]),
    ("c_string_scalar_result_cfi_allocatable", ["c", "string", "scalar", "result", "cfi", "allocatable"]),
    ("f_char_scalar_result_buf_allocatable", ["f", "char", "scalar", "result", "buf", "allocatable"]),
    ("f_char_ptr_result_buf_allocatable", ["f", "char", "*", "result", "buf", "allocatable"]),
    ("f_string_scalar_result_buf_allocatable", ["f", "string", "scalar", "result", "buf", "allocatable"]),
    ("f_string_ptr_result_buf_allocatable", ["f", "string", "*", "result", "buf", "allocatable"]),
    ("f_string_ref_result_buf_allocatable", ["f", "string", "&", "result", "buf", "allocatable"]),
    ("c_vector_in_buf_string", ["c", "vector", "in", "buf", "string"]),
    ("c_vector_out_buf_string", ["c", "vector", "out", "buf", "string"]),
    ("c_vector_inout_buf_string", ["c", "vector", "inout", "buf", "string"]),
]

LEN = r"(\{c_var_len\}|\{c_var_trim\}|\{cfi_prefix\}\{c_var\}->elem_len|-1|0)"
LENMAP = {"{c_var_len}": ".len", "{c_var_trim}": ".trim", "{cfi_prefix}{c_var}->elem_len": ".elemLen", "-1": ".neg1", "0": ".zero"}
BASE = r"\{cast_static\}char \*\{cast1\}\{cfi_prefix\}\{c_var\}->base_addr\{cast2\};"


def L(x):
    return LENMAP[x]


# (regex on the normalised template line, function(match) -> Lean term)
LINE_PATTERNS = [
    (r"char \*\{c_var\} = " + BASE, lambda m: ".cfiBase"),
    (r"char \*\{cxx_var\} = " + BASE, lambda m: ".cfiCxxBase"),
    (r"char \* ?\{cxx_var\} = ShroudStrAlloc\(\{c_var\}, %s, %s\);" % (LEN, LEN), lambda m: ".strAlloc %s %s" % (L(m.group(1)), L(m.group(2)))),
    (r"ShroudStrFree\(\{cxx_var\}\);", lambda m: ".strFree"),
    (r"ShroudStrCopy\(\{c_var\}, %s, \{cxx_var\}, -1\);" % LEN, lambda m: ".strCopyC %s" % L(m.group(1))),
    (r"ShroudStrCopy\(\{c_var\}, %s, \{cxx_var\}\{cxx_member\}data\(\), \{cxx_var\}\{cxx_member\}size\(\)\);" % LEN,
     lambda m: ".strCopyStd %s" % L(m.group(1))),
    (r"ShroudStrCopy\(\{c_var\}, %s, \{nullptr\}, 0\);" % LEN, lambda m: ".strCopyNull %s" % L(m.group(1))),
    (r"ShroudStrBlankFill\(\{c_var\}, %s\);" % LEN, lambda m: ".blankFill false %s" % L(m.group(1))),
    (r"ShroudStrBlankFill\(\{cxx_var\}, %s\);" % LEN, lambda m: ".blankFill true %s" % L(m.group(1))),
    (r"(?:\{c_const\})?std::string \{cxx_var\}\(\{c_var\}, %s\);" % LEN, lambda m: ".stringCtor %s" % L(m.group(1))),
    (r"std::string \{cxx_var\};", lambda m: ".stringDecl"),
    (r"size_t \{c_var_trim\} = ShroudLenTrim\(\{c_var\}, \{cfi_prefix\}\{c_var\}->elem_len\);", lambda m: ".lenTrimDecl"),
    (r"\{stdlib\}memset\(\{c_var\}, ' ', %s\);" % LEN, lambda m: ".memsetBlank %s" % L(m.group(1))),
    (r"\{c_var\}\[0\] = \{cxx_var\};", lambda m: ".storeFirst"),
    (r"if \(\{cxx_var\}\{cxx_member\}empty\(\)\) \{\{\+", lambda m: ".ifEmpty"),
    (r"if \(\{cxx_var\} != \{nullptr\}\) \{\{\+", lambda m: ".ifNotNull"),
    (r"if \(SH_ret == CFI_SUCCESS\) \{\{\+", lambda m: ".ifSuccess"),
    (r"-\}\} else \{\{\+", lambda m: ".else_"),
    (r"-\}\}", lambda m: ".endIf"),
    (r"int SH_ret = CFI_allocate\(\{cfi_prefix\}\{c_var\}, \(CFI_index_t \*\) 0, \(CFI_index_t \*\) 0, strlen\(\{cxx_var\}\)\);",
     lambda m: ".cfiAllocate .strlenCxx"),
    (r"int SH_ret = CFI_allocate\(\{cfi_prefix\}\{c_var\}, \(CFI_index_t \*\) 0, \(CFI_index_t \*\) 0, \{cxx_var\}(?:\{cxx_member\}|\.)length\(\)\);",
     lambda m: ".cfiAllocate .lengthCxx"),
    (r"\{stdlib\}memcpy\(\{cfi_prefix\}\{c_var\}->base_addr, \{cxx_var\}, \{cfi_prefix\}\{c_var\}->elem_len\);", lambda m: ".memcpyBaseC .elemLen"),
    (r"\{stdlib\}memcpy\(\{cfi_prefix\}\{c_var\}->base_addr, \{cxx_var\}(?:\{cxx_member\}|\.)data\(\), \{cxx_var\}(?:\{cxx_member\}|\.)length\(\)\);",
     lambda m: ".memcpyBaseS .lengthCxx"),
    (r"\{stdlib\}memcpy\(\{cfi_prefix\}\{c_var\}->base_addr, \{cxx_var\}(?:\{cxx_member\}|\.)data\(\), \{cfi_prefix\}\{c_var\}->elem_len\);",
     lambda m: ".memcpyBaseS .elemLen"),
    (r"char \*\*\{cxx_var\} = ShroudStrArrayAlloc\(\{c_var\}, \{c_var_size\}, \{c_var_len\}\);", lambda m: ".strArrayAlloc"),
    (r"ShroudStrArrayFree\(\{cxx_var\}, \{c_var_size\}\);", lambda m: ".strArrayFree"),
    (r"ShroudStrToArray\(\{c_var_context\}, (?:\{cxx_addr\})?\{cxx_var\}, \{idtor\}\);", lambda m: ".strToArray"),
    (r"std::string \* \{cxx_var\} = new std::string;", lambda m: ".newString"),
    (r"\{c_var_context\}->cxx\.addr = \{cxx_nonconst_ptr\};", lambda m: ".ctxAddr"),
    (r"\{c_var_context\}->cxx\.idtor = \{idtor\};", lambda m: ".ctxIdtor"),
    (r"\{c_var_context\}->addr\.ccharp = \{cxx_var\};", lambda m: ".ctxCcharp"),
    (r"\{c_var_context\}->type = \{sh_type\};", lambda m: ".ctxType"),
    (r"\{c_var_context\}->elem_len = \{cxx_var\} == \{nullptr\} \? 0 : \{stdlib\}strlen\(\{cxx_var\}\);", lambda m: ".ctxElemLenStrlen"),
    (r"\{c_var_context\}->size = 1;", lambda m: ".ctxSize1"),
    (r"\{c_var_context\}->rank = 0;", lambda m: ".ctxRank0"),
    (r"allocate\(character\(len=\{c_var_context\}%elem_len\):: \{f_var\}\)", lambda m: ".fAllocate"),
    (r"call \{hnamefunc0\}\(\{c_var_context\}, \{f_var\}, \{c_var_context\}%elem_len\)", lambda m: ".fCopyString"),
]

# whole clauses (normalised lines joined by '\n') of the std::vector<std::string> entries
VEC_IN = "\n".join([
    "std::vector<{cxx_T}> {cxx_var};",
    "{{+",
    "{c_const}char * BBB = {c_var};",
    "std::vector<{cxx_T}>::size_type",
    "+{c_temp}i = 0,",
    "{c_temp}n = {c_var_size};",
    "-for(; {c_temp}i < {c_temp}n; {c_temp}i++) {{+",
    "{cxx_var}.push_back(std::string(BBB,ShroudLenTrim(BBB, {c_var_len})));",
    "BBB += {c_var_len};",
    "-}}",
    "-}}",
])
VEC_OUT_HEAD = ["{{+", "char * BBB = {c_var};", "std::vector<{cxx_T}>::size_type", "+{c_temp}i = 0,", "{c_temp}n = {c_var_size};"]
VEC_OUT_TAIL = ["ShroudStrCopy(BBB, {c_var_len}, {cxx_var}[{c_temp}i].data(), {cxx_var}[{c_temp}i].size());",
                "BBB += {c_var_len};", "-}}", "-}}"]
CLAUSE_PATTERNS = [
    (VEC_IN, [".vecInLoop"]),
    ("\n".join(VEC_OUT_HEAD + ["{c_temp}n = std::min({cxx_var}.size(),{c_temp}n);", "-for(; {c_temp}i < {c_temp}n; {c_temp}i++) {{+"] + VEC_OUT_TAIL),
     [".vecOutLoop"]),
    ("\n".join(VEC_OUT_HEAD + ["-{c_temp}n = std::min({cxx_var}.size(),{c_temp}n);", "for(; {c_temp}i < {c_temp}n; {c_temp}i++) {{+"] + VEC_OUT_TAIL),
     [".vecOutLoop"]),
    ("{c_const}std::vector<{cxx_T}> {cxx_var};", [".vecDecl"]),
]


def norm(line):
    """Classification is insensitive to break hints and spacing: drop TAB (write_lines break hint), collapse
    blanks, one blank after every comma, none after an opening parenthesis."""
    line = line.replace("\t", " ")
    line = re.sub(r" +", " ", line).strip()
    line = re.sub(r" ?, ?", ", ", line).strip()
    line = line.replace("( ", "(")
    return line


class UnknownLine(Exception):
    pass


def ops_of(name, clause, lines):
    lines = [norm(l) for l in (lines or [])]
    if not lines:
        return []
    joined = "\n".join(lines)
    for text, ops in CLAUSE_PATTERNS:
        if joined == "\n".join(norm(l) for l in text.split("\n")):
            return list(ops)
    out = []
    for l in lines:
        for pat, fn in LINE_PATTERNS:
            m = re.fullmatch(pat, l)
            if m:
                out.append(fn(m))
                break
        else:
            raise UnknownLine("statement entry %s, clause %s: no pattern for the line %r" % (name, clause, l))
    return out


def resolved(language):
    from shroud import statements
    statements.update_statements_for_language(language)
    res = []
    for lname, path in ENTRIES:
        blk = statements.lookup_fc_stmts(path)
        if getattr(blk, "name", None) in (None, "c_default", "f_default") or compute_name(path) != blk.name:
            raise UnknownLine("statement entry for %s resolves to %r (entry missing or renamed)" % ("_".join(path), getattr(blk, "name", None)))
        lens = []
        for b in (getattr(blk, "buf_args", None) or []):
            if b == "len":
                lens.append(".len")
            elif b == "len_trim":
                lens.append(".trim")
            elif b == "size":
                lens.append(".size")
        pre = ops_of(blk.name, "pre_call", getattr(blk, "pre_call", None))
        post = ops_of(blk.name, "post_call", getattr(blk, "post_call", None))
        res.append((lname, blk.name, lens, pre, post))
    return res


def compute_name(path):
    from shroud import statements
    return statements.compute_name(path)


# statements of the body of CHelpers['copy_string'] (ShroudCopyStringAndFree), formatted helper text
COPY_STRING_PATTERNS = [
    (r"const char \*cxx_var = data->addr\.ccharp;", ".fetchPtr"),
    (r"size_t n = c_var_len;", ".initN"),
    (r"if \(data->elem_len < n\) n = data->elem_len;", ".clampN"),
    (r"if \(n > 0\) (?:std::)?strncpy\(c_var, cxx_var, n\);(?: *//.*)?", ".copy"),
    (r"\w+\(&data->cxx\);(?: *//.*)?", ".release"),
]


def copy_string_steps(language):
    """The statements of the ShroudCopyStringAndFree body, in text order."""
    from shroud import ast, whelpers
    lib = ast.LibraryNode(language=language)
    whelpers.set_library(lib)
    whelpers.add_all_helpers()
    text = whelpers.CHelpers["copy_string"]["source"]
    lines = [norm(l) for l in text.split("\n")]
    lines = [l for l in lines if l and not l.startswith("//")]
    if not (re.fullmatch(r"void \w*ShroudCopyStringAndFree\(\w+ \*data, char \*c_var, size_t c_var_len\) \{\+", lines[0])
            and lines[-1] == "-}"):
        raise UnknownLine("helper copy_string: unexpected signature or end: %r ... %r" % (lines[0], lines[-1]))
    steps = []
    for l in lines[1:-1]:
        for pat, step in COPY_STRING_PATTERNS:
            if re.fullmatch(pat, l):
                steps.append(step)
                break
        else:
            raise UnknownLine("helper copy_string: no pattern for the line %r" % l)
    return steps


# ---- assembly order of the C wrapper body (Wrapc.wrap_function), observed on real output
WRAP_PROBE_YAML = """library: prb
cxx_header: prb.hpp
declarations:
- decl: const std::string * getp() +len=30
  fstatements:
    c_buf:
      final:
      - delete {cxx_var};
- decl: const char * getc() +len=30
  fstatements:
    c_buf:
      final:
      - free(const_cast<char *>({cxx_var}));
- decl: int order(std::string & a +intent(inout))
  fstatements:
    c_buf:
      final:
      - // MARK final
"""
WRAP_PROBE_HPP = """#include <string>
const std::string * getp();
const char * getc();
int order(std::string & a);
"""


def wrapper_body(text, cname):
    m = re.search(r"\n[^\n]*\b%s\([^)]*\)\n\{\n(.*?)\n\}\n" % re.escape(cname), text, re.S)
    if not m:
        raise UnknownLine("wrap probe: no C wrapper %s in the generated file" % cname)
    return m.group(1)


def observed_groups(body, classes):
    """Order in which the statement groups appear in a generated body.  `classes`: (substring, group)."""
    seq = []
    for ln in body.split("\n"):
        for sub, g in classes:
            if sub in ln:
                if not seq or seq[-1] != g:
                    if g in seq:
                        raise UnknownLine("wrap probe: statement group %s appears twice in %r" % (g, body))
                    seq.append(g)
                break
    return seq


def wrap_probe(outdir):
    """Run the working tree's Shroud on the probe library in `outdir`; returns (order, path of wrapprb.cpp)."""
    from tools import shroudrun
    y = shroudrun.write_yaml(outdir, "prb.yaml", WRAP_PROBE_YAML)
    open(os.path.join(outdir, "prb.hpp"), "w").write(WRAP_PROBE_HPP)
    cfg, exc, _out = shroudrun.run_inproc([y], outdir)
    cpp = os.path.join(outdir, "wrapprb.cpp")
    if exc is not None or not os.path.exists(cpp):
        raise UnknownLine("wrap probe: Shroud raised %r" % (exc,))
    text = open(cpp).read()
    order = observed_groups(wrapper_body(text, "PRB_order_bufferify"),
                            [("std::string SHCXX_a(", ".preCall"), ("order(SHCXX_a)", ".call"), ("ShroudStrCopy(", ".postCall"),
                             ("// MARK final", ".final"), ("return ", ".ret")])
    if sorted(order) != sorted([".preCall", ".call", ".postCall", ".final", ".ret"]):
        raise UnknownLine("wrap probe: groups found in PRB_order_bufferify: %s" % order)
    # the two result wrappers must show the same relative order of call / post_call / final
    for cname, cls in (("PRB_getp_bufferify", [("getp()", ".call"), ("ShroudStrCopy(", ".postCall"), ("delete ", ".final")]),
                       ("PRB_getc_bufferify", [("getc()", ".call"), ("ShroudStrCopy(", ".postCall"), ("free(", ".final")])):
        got = observed_groups(wrapper_body(text, cname), cls)
        want = [g for g in order if g in got]
        if got != want or len(got) != 3:
            raise UnknownLine("wrap probe: %s assembles %s, PRB_order_bufferify %s" % (cname, got, order))
    return order, cpp


def wrap_order():
    d = common.scratch()
    try:
        return wrap_probe(d)[0]
    finally:
        common.rmtree(d)


def render():
    cxx = resolved("c++")
    c = resolved("c")
    steps = copy_string_steps("c++")
    if steps != copy_string_steps("c"):
        raise UnknownLine("helper copy_string differs between language c and c++")
    for a, b in zip(cxx, c):
        if a[0].startswith("c_char") and a != b:
            raise UnknownLine("entry %s differs between language c and c++: %r vs %r" % (a[1], b, a))
    out = ["import ShroudVerif.Model.StrStmts",
           "/-! GENERATED by tools/extract_strstmts.py from shroud/statements.py (resolved entries). Do not edit. -/",
           "namespace Shroud.StrStmts.Gen", "open Shroud.StrStmts", ""]

    def lst(xs):
        return "[" + ", ".join(xs) + "]"
    for i, (lname, name, lens, pre, post) in enumerate(cxx):
        out.append("/-- %d: `%s` -/" % (i, name))
        out.append("def %s : Entry := ⟨%s, %s, %s⟩" % (lname, lst(lens), lst(pre), lst(post)))
    out.append("")
    out.append("/-- body of `ShroudCopyStringAndFree` (CHelpers copy_string), statements in text order -/")
    out.append("def copyStringSteps : List Shroud.Str.CsStep := %s" % lst(steps))
    out.append("")
    out.append("/-- order of the statement groups in a C wrapper body, observed on the output of Wrapc.wrap_function -/")
    out.append("def wrapOrder : List Group := %s" % lst(wrap_order()))
    out.append("")
    out.append("def entries : List (Nat × Entry) := [")
    out.append(",\n".join("  (%d, %s)" % (i, e[0]) for i, e in enumerate(cxx)))
    out.append("]")
    out.append("")
    out.append("end Shroud.StrStmts.Gen")
    return "\n".join(out) + "\n"


def regenerate():
    """Write Gen/StrStmts.lean if its content changed.  Returns (changed, error or None)."""
    try:
        text = render()
    except UnknownLine as e:
        return False, str(e)
    os.makedirs(os.path.dirname(OUT), exist_ok=True)
    try:
        old = open(OUT).read()
    except OSError:
        old = None
    if old != text:
        open(OUT, "w").write(text)
        return True, None
    return False, None


if __name__ == "__main__":
    print(regenerate())
