"""C03: implied expressions and struct member descriptors.

implied_run   generated `+implied(expr)` parameters (constants, int arguments, size(list), len(str), len_trim(str),
              len(intent(out) char*), + - * /, unary + -, parentheses) in C++ and C libraries:
              (T) the emitted `name = <expr>;` line == Model/PyImplied.lean `IExpr.render`,
              (D) compiled extension: the value the library receives == `IExpr.evalC` + `assignTo`,
              (O) oracle, implementation only: the received value == the expression over the caller's arguments
                  (integers, truncating division), computed from the declaration in Python.
members_run   generated structs wrapped as classes with members of every descriptor kind:
              (T) statement entry chosen by Shroud == `PyDescr.lookup`, emitted getter / setter line counts == the
                  regenerated clause lengths,
              (D) compiled: sequences of assignments (convertible / not convertible) and reads == the model's interpreter,
              (O) oracle: a convertible value reads back converted; a rejected one raises TypeError / ValueError /
                  OverflowError (never SystemError, never a crash) and the member reads as before.
"""
import json
import os
import re
import subprocess
import sys
import sysconfig

from tools import common, shroudrun

OPS = {1: "+", 2: "-", 3: "*", 4: "/"}
NAME_ID = {"arr": 1, "s": 2, "k": 3, "j": 4, "out": 5}
CHARLEN = 12


# ---------------------------------------------------------------------------------------------- expressions
def gen_atom(r):
    c = r.randrange(10)
    if c < 2:
        return ("c", r.randrange(0, 10))
    if c < 4:
        return ("i", r.choice(["k", "j"]))
    if c < 6:
        return ("s", "arr")
    if c < 8:
        return ("l", "s")
    if c < 9:
        return ("t", "s")
    return ("l", "out")


def gen_operand(r, depth):
    """operand of a binary / unary operator: an atom, a parenthesised expression or a signed operand"""
    c = r.randrange(10)
    if depth <= 0 or c < 5:
        return gen_atom(r)
    if c < 8:
        return ("p", gen_expr(r, depth - 1))
    return ("u", r.choice([1, 2, 2]), gen_operand(r, depth - 1))


def gen_expr(r, depth):
    c = r.randrange(10)
    if depth <= 0 or c < 2:
        return gen_operand(r, depth)
    # left-associative chain of equal precedence is avoided: operands are atoms / parenthesised / signed
    op = r.choice([1, 1, 2, 2, 3, 4])
    right = gen_operand(r, depth - 1)
    if op == 4 and right[0] != "c":
        right = ("c", r.randrange(1, 6)) if r.random() < 0.6 else right
    if op == 4 and right == ("c", 0):
        right = ("c", 2)
    return ("b", op, gen_operand(r, depth - 1), right)


def src_text(e):
    """text written into the YAML declaration"""
    k = e[0]
    if k == "c":
        return str(e[1])
    if k == "i":
        return e[1]
    if k == "s":
        return "size(%s)" % e[1]
    if k == "l":
        return "len(%s)" % e[1]
    if k == "t":
        return "len_trim(%s)" % e[1]
    if k == "b":
        return "%s %s %s" % (src_text(e[2]), OPS[e[1]], src_text(e[3]))
    if k == "u":
        return "%s%s" % (OPS[e[1]], src_text(e[2])) if e[2][0] != "u" else "%s %s" % (OPS[e[1]], src_text(e[2]))
    return "(%s)" % src_text(e[1])


def enc_expr(e):
    k = e[0]
    if k in "cislt" and k != "c":
        return "%s%d" % (k, NAME_ID[e[1]])
    if k == "c":
        return "c%d" % e[1]
    if k == "b":
        return "b%d,%s,%s" % (e[1], enc_expr(e[2]), enc_expr(e[3]))
    if k == "u":
        return "u%d,%s" % (e[1], enc_expr(e[2]))
    return "p," + enc_expr(e[1])


class Undefined(Exception):
    pass


def math_eval(e, env, notes):
    """the expression over the integers, from the declaration alone (C's truncating division).
    notes collects facts the oracle uses to name a finding: a negative value next to a strlen operand."""
    k = e[0]
    if k == "c":
        return e[1]
    if k == "i":
        return env[e[1]]
    if k == "s":
        return len(env[e[1]])
    if k == "l":
        if e[1] == "out":
            return CHARLEN
        notes.add("strlen")
        return len(env[e[1]])
    if k == "t":
        notes.add("strlen")
        if env[e[1]] != env[e[1]].rstrip(" "):
            notes.add("trailing-blank")
        return len(env[e[1]].rstrip(" "))
    if k == "b":
        before = set(notes)
        x, y = math_eval(e[2], env, notes), math_eval(e[3], env, notes)
        op = e[1]
        if op == 4:
            if y == 0:
                raise Undefined()
            q = abs(x) // abs(y)
            v = q if (x >= 0) == (y >= 0) else -q
        else:
            v = x + y if op == 1 else x - y if op == 2 else x * y
        if "strlen" in notes and (x < 0 or y < 0 or v < 0):
            notes.add("negative-with-size_t")
        return v
    if k == "u":
        x = math_eval(e[2], env, notes)
        v = x if e[1] == 1 else -x
        if "strlen" in notes and v < 0:
            notes.add("negative-with-size_t")
        return v
    return math_eval(e[1], env, notes)


def tok_text(tokens):
    rev = {v: k for k, v in NAME_ID.items()}
    out = []
    for t in tokens.split():
        if t[0] == "n":
            out.append(t[1:])
        elif t[0] == "v":
            out.append(rev[int(t[1:])])
        elif t[0] == "z":
            out.append("SHSize_" + rev[int(t[1:])])
        elif t[0] == "L":
            out.append("strlen(%s)" % rev[int(t[1:])])
        elif t[0] == "o":
            out.append(OPS[int(t[1:])])
        else:
            out.append(t)
    return "".join(out)


IMP_YAML = """\
library: %(name)s
cxx_header: %(hdr)s
language: %(lang)s
options:
  wrap_python: true
  wrap_c: false
  wrap_fortran: false
  wrap_lua: false
  PY_array_arg: list
declarations:
%(decls)s
"""

IMP_DRIVER = r'''
import ctypes, json, sys
sys.path.insert(0, sys.argv[1])
M = __import__(sys.argv[2])
L = ctypes.CDLL(M.__file__)
got = (ctypes.c_long * 8).in_dll(L, "imp_got")
out = open(sys.argv[4], "a")
for c in json.load(open(sys.argv[3])):
    out.write(json.dumps({"i": c["i"], "start": True}) + "\n"); out.flush()
    for q in range(8): got[q] = -777777
    try:
        r = getattr(M, c["fn"])(*c["pos"], **c["kw"])
        res = {"i": c["i"], "r": "ok", "got": list(got)}
    except BaseException as e:
        res = {"i": c["i"], "r": "exc", "type": type(e).__name__, "msg": str(e)[:160]}
    out.write(json.dumps(res) + "\n"); out.flush()
'''


def compile_so(d, out, name, cxx, extra_src):
    inc = sysconfig.get_paths()["include"]
    srcs = [os.path.join(out, f) for f in sorted(os.listdir(out)) if f.endswith((".c", ".cpp"))] + extra_src
    cmd = (["g++", "-std=c++11"] if cxx else ["gcc", "-std=c99"]) + ["-shared", "-fPIC", "-O0", "-w", "-I" + inc, "-I" + d,
                                                                     "-I" + out] + srcs + ["-o", os.path.join(d, name + ".so")]
    p = subprocess.run(cmd, stdout=subprocess.PIPE, stderr=subprocess.STDOUT, text=True)
    return p.returncode == 0, p.stdout


def run_driver(d, script, name, cases):
    cf, rf = os.path.join(d, "cases.json"), os.path.join(d, "res.jsonl")
    json.dump(cases, open(cf, "w"))
    open(os.path.join(d, "drive.py"), "w").write(script)
    p = subprocess.run([sys.executable, os.path.join(d, "drive.py"), d, name, cf, rf], stdout=subprocess.PIPE,
                       stderr=subprocess.PIPE, text=True, timeout=300)
    res, started = {}, None
    if os.path.exists(rf):
        for line in open(rf):
            o = json.loads(line)
            if o.get("start"):
                started = o["i"]
            else:
                res[o["i"]] = o
    return p.returncode, p.stderr[-300:], res, started


def implied_run(ctx, drv, thorough, dis):
    r = common.rng("c03-implied")
    total, dist = 0, {}
    for lang in ("c++", "c"):
        cxx = lang != "c"
        name = "imp" + ("x" if cxx else "c")
        nfun = (14 if thorough else 6)
        funs = []
        for i in range(nfun):
            exprs = [gen_expr(r, r.choice([1, 2, 2, 3])) for _ in range(3)]
            funs.append(("g%d" % i, exprs))
        # fixed shapes that must always be present
        funs.append(("gfix", [("b", 1, ("s", "arr"), ("c", 1)), ("b", 2, ("i", "k"), ("u", 2, ("c", 3))),
                              ("b", 3, ("p", ("b", 1, ("l", "out"), ("i", "j"))), ("c", 2))]))
        decls, body = [], ["long imp_got[8];"]
        if cxx:
            body = ['extern "C" { long imp_got[8]; }']
        for fn, exprs in funs:
            decls.append("- decl: void %s(const int *arr +rank(1), int n +implied(size(arr)), const char *s, int k, int j, "
                         "int m0 +implied(%s), int m1 +implied(%s), char *out +intent(out)+charlen(%d), int m2 +implied(%s))"
                         % (fn, src_text(exprs[0]), src_text(exprs[1]), CHARLEN, src_text(exprs[2])))
            body.append("void %s(const int *arr, int n, const char *s, int k, int j, int m0, int m1, char *out, int m2)\n"
                        "{ imp_got[0] = n; imp_got[1] = m0; imp_got[2] = m1; imp_got[3] = m2; imp_got[4] = k; imp_got[5] = j; "
                        "out[0] = 'o'; out[1] = 0; (void) arr; (void) s; }" % fn)
        proto = "\n".join(b.split("\n")[0] + ";" for b in body[1:])
        hdr = name + (".hpp" if cxx else ".h")
        ytext = IMP_YAML % {"name": name, "hdr": hdr, "lang": lang, "decls": "\n".join(decls)}
        d = common.scratch()
        try:
            y = shroudrun.write_yaml(d, name + ".yaml", ytext)
            open(os.path.join(d, hdr), "w").write(proto + "\n")
            subj = os.path.join(d, "subject." + ("cpp" if cxx else "c"))
            open(subj, "w").write('#include "%s"\n%s\n' % (hdr, "\n".join(body)))
            out = os.path.join(d, "out")
            os.makedirs(out)
            cfg, exc, _ = shroudrun.run_inproc([y], out, path=[d])
            rp = {"yaml": ytext, "language": lang}
            if exc is not None:
                ctx.fail("generate:implied-" + lang, "Shroud fails on implied expressions: %r" % (exc,), rp)
                continue
            text = "".join(open(os.path.join(out, f)).read() for f in sorted(os.listdir(out)) if f.startswith("py") and f.endswith((".c", ".cpp")))
            # (T) emitted assignment lines
            reqs = []
            for fn, exprs in funs:
                for e in exprs:
                    reqs.append("irender 5=%d %s" % (CHARLEN, enc_expr(e)))
            model = drv.run(reqs) if drv.available() else []
            qi = 0
            for fn, exprs in funs:
                m = re.search(r"\nPY_%s\(.*?\n\}\n" % fn, text, re.S)
                fbody = m.group(0) if m else ""
                for mi, e in enumerate(exprs):
                    ctx.count(1)
                    total += 1
                    em = re.search(r"^\s*m%d = (.*);$" % mi, fbody, re.M)
                    emitted = em.group(1) if em else None
                    if model:
                        want = tok_text(model[qi])
                        if emitted != want:
                            dis.append({"where": "%s:%s m%d +implied(%s)" % (name, fn, mi, src_text(e)), "what": "implied assignment text",
                                        "emitted": emitted, "model": want})
                    qi += 1
                    if e[0] in "bu":
                        ctx.nontrivial("implied-expr:%s:%s:%d" % (name, fn, mi))
                    dist[e[0]] = dist.get(e[0], 0) + 1
            okc, log = compile_so(d, out, name, cxx, [subj])
            if not okc:
                ctx.fail("compile:implied-" + lang, "extension with implied expressions does not compile: " + log[-600:], rp)
                continue
            # calls
            cases, meta = [], []
            for fn, exprs in funs:
                for ci in range(8 if thorough else 5):
                    for _try in range(20):
                        env = {"arr": [r.randrange(-5, 6) for _ in range(r.randrange(0, 7))],
                               "s": "".join(r.choice("abc") for _ in range(r.randrange(0, 9))) + (" " * r.randrange(1, 3) if r.random() < 0.15 else ""),
                               "k": r.randrange(-9, 10), "j": r.randrange(-9, 10)}
                        try:
                            exp = []
                            for e in exprs:
                                notes = set()
                                exp.append((math_eval(e, env, notes), sorted(notes)))
                            break
                        except Undefined:
                            continue
                    else:
                        continue
                    order = ["arr", "s", "k", "j"]
                    npos = r.randrange(0, 5)
                    kwn = order[npos:]
                    r.shuffle(kwn)
                    cases.append({"i": len(cases), "fn": fn, "pos": [env[n] for n in order[:npos]], "kw": {n: env[n] for n in kwn}})
                    meta.append((fn, exprs, env, exp))
            rc, err, res, started = run_driver(d, IMP_DRIVER, name, cases)
            if rc != 0:
                c = cases[started] if started is not None else None
                ctx.fail("crash:implied-" + lang, "calls with implied expressions crashed (rc=%s) at %s: %s" % (rc, json.dumps(c), err),
                         dict(rp, call=c))
            ereqs = []
            for c, (fn, exprs, env, exp) in zip(cases, meta):
                envs = "1=7.%d,2=1.%d,3=%s,4=%s" % (len(env["arr"]), len(env["s"]),
                                                  ("0.%d" % env["k"]) if env["k"] >= 0 else ("20.%d" % -env["k"]),
                                                  ("0.%d" % env["j"]) if env["j"] >= 0 else ("20.%d" % -env["j"]))
                for e in exprs:
                    ereqs.append("ieval 5=%d %s int %s" % (CHARLEN, envs, enc_expr(e)))
            emodel = drv.run(ereqs) if drv.available() else []
            qi = 0
            for c, (fn, exprs, env, exp) in zip(cases, meta):
                o = res.get(c["i"])
                ctx.count(1)
                total += 1
                call = "%s.%s(%s)" % (name, fn, ", ".join([repr(x) for x in c["pos"]] + ["%s=%r" % kv for kv in c["kw"].items()]))
                if o is None:
                    qi += len(exprs)
                    continue
                if o["r"] != "ok":
                    ctx.fail("implied-call:%s:%s" % (lang, fn), "%s raised %s: %s" % (call, o["type"], o["msg"]), dict(rp, call=c))
                    qi += len(exprs)
                    continue
                got = o["got"]
                if got[0] != len(env["arr"]) or got[4] != env["k"] or got[5] != env["j"]:
                    ctx.fail("implied-call:%s:%s" % (lang, fn), "%s delivered n=%d k=%d j=%d" % (call, got[0], got[4], got[5]), dict(rp, call=c))
                if c["kw"]:
                    ctx.nontrivial("implied-kwcall:%s:%s:%d" % (name, fn, len(c["kw"])))
                for mi, e in enumerate(exprs):
                    recv = got[1 + mi]
                    if emodel:
                        ml = emodel[qi].split()
                        mval = None if ml[0] == "undef" else int(ml[2])
                        if mval is not None and mval != recv:
                            dis.append({"where": call, "what": "value of m%d +implied(%s)" % (mi, src_text(e)), "received": recv, "model": emodel[qi]})
                    qi += 1
                    want, notes = exp[mi]
                    if recv != want:
                        if "trailing-blank" in notes:
                            key = "implied-value:len_trim-trailing-blanks"
                        elif "negative-with-size_t" in notes:
                            key = "implied-value:size_t-negative"
                        else:
                            key = "implied-value:%s:%s:m%d" % (lang, fn, mi)
                        ctx.fail(key, "%s: m%d +implied(%s) received %d, the expression over the caller's arguments is %d" % (
                            call, mi, src_text(e), recv, want), dict(rp, call=c, expr=src_text(e)))
        finally:
            common.rmtree(d)
    ctx.note("implied_expression_heads (c const, i argument, s size, l len, t len_trim, b binary, u unary, p parenthesised)", dict(sorted(dist.items())))
    return total


# ---------------------------------------------------------------------------------------------- struct members
# kind -> (declaration template, lookup path parts (Gen/PyDescr.lean), class: scalar / arr / ptr)
MEMBER_KINDS = {
    "int": ("int %s", "0.13", "scalar"), "long": ("long %s", "0.13", "scalar"), "short": ("short %s", "0.13", "scalar"),
    "double": ("double %s", "0.13", "scalar"), "float": ("float %s", "0.13", "scalar"),
    "chararr": ("char %s[6]", "1.12.20", "arr"), "intarr": ("int %s[3]", "0.12.20", "arr"), "dblarr": ("double %s[2]", "0.12.20", "arr"),
    "charptr": ("char *%s", "1.10.20", "ptr"), "intptr": ("int *%s +dimension(3)", "0.10.20", "ptr"),
    "dblptr": ("double *%s +dimension(2)", "0.10.20", "ptr"),
}
NO_ENTRY = {"bool": ("bool %s", "2.13"), "char": ("char %s", "1.13")}

GOOD = {"int": [5, -3, 0], "long": [123456789012, -1], "short": [7, -8], "double": [2.5, -1.0, 3], "float": [0.5, 2],
        "chararr": ["ab", "", "abcdefgh"], "intarr": [[1, 2, 3], [-1, 0, 9]], "dblarr": [[0.5, 1.5]],
        "charptr": ["hello", ""], "intptr": [[4, 5, 6]], "dblptr": [[1.5, 2.5]]}
BAD = {"int": ["x", None, [1]], "long": ["x", 1.5], "short": ["x"], "double": ["x", None], "float": ["x"],
       "chararr": [5, 2.5, [1]], "intarr": [["x", 1, 2], None], "dblarr": [["x", 1.0]],
       "charptr": [5, [1]], "intptr": [[1, "x", 3], 7], "dblptr": [["x", 2.0]]}


def readback(kind, v):
    if kind == "chararr":
        return v[:6]
    if kind in ("double", "float", "dblarr", "dblptr"):
        return [float(x) for x in v] if isinstance(v, list) else float(v)
    return v


INITIAL = {"scalar": 0, "chararr": "", "intarr": [0, 0, 0], "dblarr": [0.0, 0.0]}

MEM_YAML = """\
library: %(name)s
cxx_header: %(hdr)s
language: %(lang)s
options:
  wrap_python: true
  wrap_c: false
  wrap_fortran: false
  wrap_lua: false
  PY_struct_arg: class
  PY_array_arg: list
declarations:
%(decls)s
"""

MEM_DRIVER = r'''
import json, sys
sys.path.insert(0, sys.argv[1])
M = __import__(sys.argv[2])
out = open(sys.argv[4], "a")
def enc(v):
    return v if isinstance(v, (int, float, str, list, type(None))) else {"type": type(v).__name__}
objs = {}
for c in json.load(open(sys.argv[3])):
    out.write(json.dumps({"i": c["i"], "start": True}) + "\n"); out.flush()
    try:
        if c["op"] == "new":
            objs[c["obj"]] = getattr(M, c["cls"])()
            res = {"r": "ok"}
        elif c["op"] == "set":
            setattr(objs[c["obj"]], c["member"], c["value"])
            res = {"r": "ok"}
        elif c["op"] == "del":
            delattr(objs[c["obj"]], c["member"])
            res = {"r": "ok"}
        else:
            res = {"r": "ok", "value": enc(getattr(objs[c["obj"]], c["member"]))}
    except BaseException as e:
        res = {"r": "exc", "type": type(e).__name__, "msg": str(e)[:160]}
    res["i"] = c["i"]
    out.write(json.dumps(res) + "\n"); out.flush()
'''


def members_run(ctx, drv, thorough, dis):
    from shroud import wrapp
    r = common.rng("c03-members")
    total, dist = 0, {}
    kinds = sorted(MEMBER_KINDS)
    for lang in ("c++", "c"):
        cxx = lang != "c"
        name = "mem" + ("x" if cxx else "c")
        structs = []
        nst = 6 if thorough else 3
        for si in range(nst):
            ks = [r.choice(kinds) for _ in range(r.randrange(2, 6))]
            if si == 0:
                ks = list(kinds)       # every kind at least once, between other members
            structs.append(("Rec%d" % si, [(k, "%s%d" % (k[0], i)) for i, k in enumerate(ks)]))
        decls, hdrtext = [], []
        for sn, members in structs:
            decls.append("- decl: struct %s { %s }" % (sn, " ".join(MEMBER_KINDS[k][0] % n + ";" for k, n in members)))
            hdrtext.append("struct %s { %s };\ntypedef struct %s %s;" % (
                sn, " ".join(re.sub(r" \+dimension\(\d+\)", "", MEMBER_KINDS[k][0] % n) + ";" for k, n in members), sn, sn))
        hdr = name + (".hpp" if cxx else ".h")
        ytext = MEM_YAML % {"name": name, "hdr": hdr, "lang": lang, "decls": "\n".join(decls)}
        rp = {"yaml": ytext, "language": lang, "header": "\n".join(hdrtext)}
        d = common.scratch()
        try:
            y = shroudrun.write_yaml(d, name + ".yaml", ytext)
            open(os.path.join(d, hdr), "w").write("\n".join(hdrtext) + "\n")
            out = os.path.join(d, "out")
            os.makedirs(out)
            chosen = []
            orig = wrapp.Wrapp.wrap_class_variable

            def patched(self_, parent, node, fileinfo):
                ast = node.ast
                stmts = ["py", "descr", ast.typemap.sgroup, ast.get_indirect_stmt()]
                if stmts[-1] != "scalar":
                    stmts.append(node.options.PY_array_arg)
                chosen.append((parent.name, ast.name, wrapp.lookup_stmts(stmts).name))
                return orig(self_, parent, node, fileinfo)

            wrapp.Wrapp.wrap_class_variable = patched
            try:
                cfg, exc, _ = shroudrun.run_inproc([y], out, path=[d])
            finally:
                wrapp.Wrapp.wrap_class_variable = orig
            if exc is not None:
                ctx.fail("generate:members-" + lang, "Shroud fails on struct members: %r" % (exc,), rp)
                continue
            texts = {f: open(os.path.join(out, f)).read() for f in sorted(os.listdir(out)) if f.endswith((".c", ".cpp"))}
            alltext = "".join(texts.values())
            # (T) selection and clause lengths
            _ch, _st, rows = PYDESCR["rows"]
            byname = {rw[0]: (i, rw) for i, rw in enumerate(rows)}
            chosen_d = {(a, b): c for a, b, c in chosen}
            for sn, members in structs:
                for k, n in members:
                    ctx.count(1)
                    total += 1
                    dist[k] = dist.get(k, 0) + 1
                    where = "%s:%s.%s (%s)" % (name, sn, n, MEMBER_KINDS[k][0] % n)
                    real = chosen_d.get((sn, n))
                    if drv.available():
                        ml = drv.run(["descr %s m0 s1" % MEMBER_KINDS[k][1]])[0]
                        mid = ml.split()[0].split("=")[1]
                        mname = rows[int(mid)][0] if mid != "none" else "py_default"
                        if real != mname:
                            dis.append({"where": where, "what": "statement entry", "shroud": real, "model": mname})
                    if real in byname and byname[real][1][2] is not None:
                        _i, rw = byname[real]
                        for which, ops, pat in (("getter", rw[3], r"static PyObject \*PY_%s_%s_getter\(.*?\n\{\n(.*?)\n\}\n"),
                                                ("setter", rw[2], r"static int PY_%s_%s_setter\(.*?\n\{\n(.*?)\n\}\n")):
                            m = re.search(pat % (sn, n), alltext, re.S)
                            if not m:
                                dis.append({"where": where, "what": "no emitted " + which})
                                continue
                            nlines = len([l for l in m.group(1).split("\n") if l.strip()])
                            # continuation lines of one template line are indented deeper than the line they continue
                            want = len(ops) + (1 if which == "setter" else 0)
                            body_lines = [l for l in m.group(1).split("\n") if l.strip()]
                            nstmt = len([l for l in body_lines if not _is_continuation(l, body_lines)])
                            if nstmt != want:
                                dis.append({"where": where, "what": which + " line count", "emitted": nstmt, "model": want,
                                            "text": m.group(1)[:400]})
                    ctx.nontrivial("member:%s:%s" % (lang, k))
            okc, log = compile_so(d, out, name, cxx, [])
            if not okc:
                ctx.fail("compile:members-" + lang, "struct members do not compile: " + log[-600:], rp)
                continue
            # sequences of assignments and reads per member
            cases, plan = [], []
            for sn, members in structs:
                cases.append({"i": len(cases), "op": "new", "obj": sn, "cls": sn})
                plan.append(("new", sn, None, None, None))
                for k, n in members:
                    seq = []
                    for _ in range(4 if thorough else 3):
                        if r.random() < 0.55:
                            seq.append(("good", r.choice(GOOD[k])))
                        else:
                            seq.append(("bad", r.choice(BAD[k])))
                    seq.insert(r.randrange(len(seq) + 1), ("good", GOOD[k][0]))
                    seq.insert(r.randrange(len(seq) + 1), ("bad", BAD[k][0]))
                    cases.append({"i": len(cases), "op": "get", "obj": sn, "member": n})
                    plan.append(("get", sn, k, n, None))
                    for how, v in seq:
                        cases.append({"i": len(cases), "op": "set", "obj": sn, "member": n, "value": v})
                        plan.append((how, sn, k, n, v))
                        cases.append({"i": len(cases), "op": "get", "obj": sn, "member": n})
                        plan.append(("get", sn, k, n, None))
            rc, err, res, started = run_driver(d, MEM_DRIVER, name, cases)
            if rc != 0:
                c = cases[started] if started is not None else None
                ctx.fail("crash:members-" + lang, "member access crashed (rc=%s) at %s: %s" % (rc, json.dumps(c), err), dict(rp, step=c))
            # judge: oracle from the declaration; model through the driver
            cur, hist = {}, {}
            for c, (how, sn, k, n, v) in zip(cases, plan):
                o = res.get(c["i"])
                if o is None:
                    continue
                ctx.count(1)
                total += 1
                key = (sn, n)
                cls = MEMBER_KINDS[k][2] if k else None
                step = "%s.%s %s %s" % (sn, n, how, json.dumps(v) if how != "get" else "")
                if how == "new":
                    if o["r"] != "ok":
                        ctx.fail("member-new:%s" % lang, "%s() raised %s: %s" % (sn, o.get("type"), o.get("msg")), dict(rp, step=c))
                    continue
                if how == "get":
                    if key not in cur:
                        # freshly constructed: zero / empty / None
                        cur[key] = ("init", None if cls == "ptr" else INITIAL.get(k, INITIAL["scalar"] if cls == "scalar" else None))
                        hist[key] = []
                    exp_state, exp_val = cur[key]
                    if o["r"] != "ok":
                        ctx.fail("member-get:%s:%s" % (lang, k), "%s raised %s: %s" % (step, o["type"], o["msg"]), dict(rp, step=c, history=hist[key]))
                    elif exp_state == "cleared-or-kept":
                        if o["value"] is not None and o["value"] != exp_val:
                            ctx.fail("member-get:%s:%s" % (lang, k), "%s after a rejected assignment reads %s (before: %s)" % (
                                step, json.dumps(o["value"]), json.dumps(exp_val)), dict(rp, step=c, history=hist[key]))
                        elif o["value"] is None and exp_val is not None:
                            ctx.fail("member-cleared-on-rejected-set:%s" % k, "%s: a rejected assignment set the pointer member to NULL (reads None, "
                                     "before: %s)" % (step, json.dumps(exp_val)), dict(rp, step=c, history=hist[key]))
                        cur[key] = ("value", o["value"])
                    elif o["value"] != exp_val and not (isinstance(exp_val, float) and abs(o["value"] - exp_val) < 1e-6):
                        ctx.fail("member-get:%s:%s" % (lang, k), "%s reads %s, expected %s" % (step, json.dumps(o["value"]), json.dumps(exp_val)),
                                 dict(rp, step=c, history=hist[key]))
                    hist[key].append(["get", o.get("value")])
                    continue
                hist[key].append([how, v])
                if how == "good":
                    if o["r"] != "ok":
                        ctx.fail("member-set:%s:%s" % (lang, k), "%s raised %s: %s" % (step, o["type"], o["msg"]), dict(rp, step=c, history=hist[key]))
                    else:
                        cur[key] = ("value", readback(k, v))
                else:
                    if o["r"] == "ok":
                        ctx.fail("member-set-accepted:%s:%s" % (lang, k), "%s was accepted" % step, dict(rp, step=c, history=hist[key]))
                        cur[key] = ("cleared-or-kept", cur[key][1])
                    elif o["type"] not in ("TypeError", "ValueError", "OverflowError"):
                        ctx.fail("member-set-exc:%s:%s" % (lang, k), "%s raised %s: %s" % (step, o["type"], o["msg"]), dict(rp, step=c, history=hist[key]))
                    if cls == "ptr":
                        cur[key] = ("cleared-or-kept", cur[key][1])
            # (D) the same sequences through the model's interpreter
            if drv.available():
                seqs = {}
                for c, (how, sn, k, n, v) in zip(cases, plan):
                    if how in ("good", "bad"):
                        seqs.setdefault((sn, k, n), []).append((how, c["i"]))
                for (sn, k, n), ops in seqs.items():
                    line = "descr %s %s %s" % (MEMBER_KINDS[k][1], "n" if MEMBER_KINDS[k][2] == "ptr" else "m0",
                                               ",".join("s%d" % (q + 1) if how == "good" else "x" for q, (how, _i) in enumerate(ops)))
                    ml = drv.run([line])[0].split()
                    if len(ml) < 2:
                        dis.append({"where": "%s.%s" % (sn, n), "what": "model has no clauses", "model": ml})
                        continue
                    last_good = None
                    for q, ((how, ci), mres) in enumerate(zip(ops, ml[1].split(","))):
                        mret, mget = mres.split(":")
                        o_set, o_get = res.get(ci), res.get(ci + 1)
                        if o_set is None or o_get is None:
                            continue
                        ctx.count(1)
                        total += 1
                        impl_ret = "0" if o_set["r"] == "ok" else "-1"
                        # what the getter shows: N none, same as the value stored by step q', or the initial value
                        if o_get.get("value") is None and o_get["r"] == "ok":
                            impl_get = "N"
                        else:
                            impl_get = "V"
                        model_get = "N" if mget == "N" else "V"
                        if how == "good":
                            last_good = q + 1
                        if impl_ret != mret or impl_get != model_get:
                            dis.append({"where": "%s:%s.%s step %d (%s)" % (name, sn, n, q, how), "what": "setter result / getter class",
                                        "compiled": [impl_ret, impl_get], "model": [mret, mget]})
                        elif mget[0] in "BC" and how == "good":
                            # the model says the getter shows the value stored by this very step
                            if int(mget[1:]) != q + 1:
                                dis.append({"where": "%s:%s.%s step %d" % (name, sn, n, q), "what": "model reads back another value", "model": mget})
        finally:
            common.rmtree(d)
    ctx.note("member_kinds (struct as class, c++ and c)", dict(sorted(dist.items())))
    return total


def _is_continuation(line, body_lines):
    """a wrapped continuation of a long template line (wformat breaks at tabs and indents by 4 more)"""
    s = line.rstrip()
    idx = body_lines.index(line)
    if idx == 0:
        return False
    prev = body_lines[idx - 1].rstrip()
    ind = len(s) - len(s.lstrip())
    pind = len(prev) - len(prev.lstrip())
    return ind > pind and not prev.endswith(("{", ";", "}", "*/")) and not prev.lstrip().startswith("//")


PYDESCR = {"rows": None}


def unsupported_members(ctx):
    """member kinds without a `py_descr` entry: Shroud must not crash on them (it writes an `#error` line)"""
    n = 0
    for k, (tmpl, _path) in sorted(NO_ENTRY.items()):
        d = common.scratch()
        try:
            ytext = MEM_YAML % {"name": "nm", "hdr": "nm.hpp", "lang": "c++", "decls": "- decl: struct R { int a; %s; }" % (tmpl % "b")}
            y = shroudrun.write_yaml(d, "nm.yaml", ytext)
            out = os.path.join(d, "out")
            os.makedirs(out)
            cfg, exc, _ = shroudrun.run_inproc([y], out, path=[d])
            ctx.count(1)
            n += 1
            if exc is not None:
                ctx.fail("generate:member-%s" % k, "Shroud crashes on a struct with a %s member: %r" % (k, exc), {"yaml": ytext})
                continue
            text = "".join(open(os.path.join(out, f)).read() for f in os.listdir(out) if f.endswith(".cpp"))
            if "#error no py_statements" in text:
                ctx.fail("member-no-descriptor:%s" % k, "a struct member `%s` has no py_descr statements: the generated file contains "
                         "`#error no py_statements getter`" % (tmpl % "b"), {"yaml": ytext})
        finally:
            common.rmtree(d)
    return n


# ---------------------------------------------------------------------------------------------- element types of list arguments
ELEM_DRIVER = r'''
import json, sys
sys.path.insert(0, sys.argv[1])
M = __import__(sys.argv[2])
out = open(sys.argv[4], "a")
def mk(v):
    if isinstance(v, dict): return complex(0, v["j"])
    return v
for c in json.load(open(sys.argv[3])):
    out.write(json.dumps({"i": c["i"], "start": True}) + "\n"); out.flush()
    try:
        r = getattr(M, c["fn"])([mk(x) for x in c["arr"]])
        res = {"i": c["i"], "r": "ok", "value": r}
    except BaseException as e:
        res = {"i": c["i"], "r": "exc", "type": type(e).__name__, "msg": str(e)[:160]}
    out.write(json.dumps(res) + "\n"); out.flush()
'''


def elems_run(ctx, thorough):
    """list-mode array arguments of every element type the list converters are generated for (oracle, implementation only):
    a list of convertible items delivers every item converted to the element type; a list with one item of a wrong type at
    any index raises TypeError / ValueError - never SystemError, never a silently wrong call"""
    from tools import c03_helpers
    r = common.rng("c03-elems")
    total = 0
    for lang in ("c++", "c"):
        cxx = lang != "c"
        name = "elm" + ("x" if cxx else "c")
        elems = c03_helpers.ELEMS + [("int", "int", 32, True), ("double", "double", -1, True)]
        decls = "\n".join("- decl: double sum_%s(const %s *arr +rank(1), int n +implied(size(arr)))" % (f, t) for f, t, _b, _s in elems)
        hdr = name + (".hpp" if cxx else ".h")
        protos = "#include <stdint.h>\n" + "".join("double sum_%s(const %s *arr, int n);\n" % (f, t) for f, t, _b, _s in elems)
        body = "".join("double sum_%s(const %s *arr, int n) { double s = 0; int i; for (i = 0; i < n; i++) s += (double) arr[i] * (i + 1); return s; }\n"
                       % (f, t) for f, t, _b, _s in elems)
        ytext = IMP_YAML % {"name": name, "hdr": hdr, "lang": lang, "decls": decls}
        rp = {"yaml": ytext, "language": lang, "header": protos}
        d = common.scratch()
        try:
            y = shroudrun.write_yaml(d, name + ".yaml", ytext)
            open(os.path.join(d, hdr), "w").write(protos)
            subj = os.path.join(d, "subject." + ("cpp" if cxx else "c"))
            open(subj, "w").write('#include "%s"\n%s' % (hdr, body))
            out = os.path.join(d, "out")
            os.makedirs(out)
            cfg, exc, _ = shroudrun.run_inproc([y], out, path=[d])
            if exc is not None:
                ctx.fail("generate:elems-" + lang, "Shroud fails on list-mode arrays of the native element types: %r" % (exc,), rp)
                continue
            okc, log = compile_so(d, out, name, cxx, [subj])
            if not okc:
                ctx.fail("compile:elems-" + lang, "list-mode arrays of the native element types do not compile: " + log[-600:], rp)
                continue
            cases, meta = [], []
            for f, t, bits, signed in elems:
                isfloat = bits <= 0
                goods = [[], [1, 2, 3], [0, -1, 5], [-1], [255, 256, 65535, 65536, -32768]] + ([[1.5, -2.0]] if isfloat else [])
                for _ in range(3 if thorough else 1):
                    goods.append([r.randrange(-300, 70000) for _ in range(r.randrange(1, 6))])
                for g in goods:
                    cases.append({"i": len(cases), "fn": "sum_" + f, "arr": g})
                    meta.append((f, bits, signed, g, None))
                bads = ["x", None, {"j": 2.5}] + ([] if isfloat else [2.5])
                for b in bads:
                    for n in (1, 3):
                        for at in range(n):
                            arr = [r.randrange(0, 9) for _ in range(n)]
                            arr[at] = b
                            cases.append({"i": len(cases), "fn": "sum_" + f, "arr": arr})
                            meta.append((f, bits, signed, arr, at))
            rc, err, res, started = run_driver(d, ELEM_DRIVER, name, cases)
            if rc != 0:
                c = cases[started] if started is not None else None
                ctx.fail("crash:elems-" + lang, "list arguments crashed (rc=%s) at %s: %s" % (rc, json.dumps(c), err), dict(rp, call=c))
            for c, (f, bits, signed, arr, bad_at) in zip(cases, meta):
                o = res.get(c["i"])
                if o is None:
                    continue
                ctx.count(1)
                total += 1
                call = "%s.sum_%s(%s)" % (name, f, json.dumps(arr))
                if bad_at is None:
                    want = 0.0
                    for i, v in enumerate(arr):
                        cv = float(v) if bits == -1 else c03_helpers.wrap_c(v, (bits, signed))
                        want += float(cv) * (i + 1)
                    if o["r"] != "ok":
                        ctx.fail("elem-list:%s:%s" % (lang, f), "%s raised %s: %s" % (call, o["type"], o["msg"]), dict(rp, call=c))
                    elif abs(o["value"] - want) > 1e-6 * max(1.0, abs(want)):
                        ctx.fail("elem-list:%s:%s" % (lang, f), "%s: the library summed %r, the items converted to %s give %r" % (
                            call, o["value"], f, want), dict(rp, call=c))
                    if len(arr) > 1:
                        ctx.nontrivial("elem-good:%s:%s:%d" % (lang, f, len(arr)))
                else:
                    ctx.nontrivial("elem-bad:%s:%s:%s:%d" % (lang, f, type(arr[bad_at]).__name__, bad_at))
                    if o["r"] == "ok":
                        ctx.fail("elem-list-accepted:%s:%s" % (lang, f), "%s was accepted (returned %r)" % (call, o["value"]), dict(rp, call=c))
                    elif o["type"] not in ("TypeError", "ValueError"):
                        ctx.fail("elem-list-exc:%s:%s" % (lang, f), "%s raised %s: %s (a wrongly typed item must give TypeError / ValueError)" % (
                            call, o["type"], o["msg"]), dict(rp, call=c))
        finally:
            common.rmtree(d)
    return total
