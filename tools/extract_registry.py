"""Translator for C07: /repo working tree -> lean/ShroudVerif/Gen/Registry.lean

 * langRows: for every (table, item, clause) of fc_statements / py_statements /
   lua_statements, whether a generic clause, a c_ variant and a cxx_ variant are present
   (fresh import, before any update_for_language).
 * registryClasses: classification of every module-/class-level mutable container of
   shroud.* obtained from tools/regprobe.py on sequences [A, B] versus [B] alone.
 * ambientUses: AST scan of shroud/*.py for calls that consult time, host, environment,
   cwd, randomness, object identity / hash, directory listings, and for iteration over
   set-typed names.
"""
import ast
import json
import os
import subprocess
import sys
from concurrent.futures import ThreadPoolExecutor

from tools import common

GEN = os.path.join(common.LEAN, "ShroudVerif", "Gen", "Registry.lean")

CLAUSES = ["impl_header", "cxx_local_var", "declare", "post_parse", "pre_call", "post_call", "cleanup", "fail"]

# pairs (A then B) used to classify registries; B is also run alone
PROBE_PAIRS = [("classes", "clibrary"), ("clibrary", "classes"), ("strings", "tutorial"),
               ("ownership", "struct-c"), ("templates", "vectors"), ("struct-class-c", "struct-list-cxx")]

AMBIENT_CALLS = {
    ("time", None), ("datetime", None), ("socket", None), ("getpass", None), ("random", None), ("uuid", None),
    ("platform", None), ("os", "getcwd"), ("os", "getpid"), ("os", "listdir"), ("os", "scandir"), ("os", "walk"),
    ("os", "getenv"), ("os", "environ"), ("os", "urandom"), ("glob", None), ("tempfile", None),
}
AMBIENT_BUILTINS = {"id", "hash"}
# debugging aid that prints object ids to stdout, never into an output file
ALLOW = {("util.py", "trace", "id"),
         # ClassNode.clone (fix 2887c10): id(parent) is only a memo key of a local dict that is never iterated;
         # no emitted text depends on the value or order of the ids
         ("ast.py", "rehome", "id")}


def lang_rows():
    code = r"""
import json
from shroud import statements, wrapp, wrapl
CL = %r
rows = []
for tab, lst in (("fc", statements.fc_statements), ("py", wrapp.py_statements), ("lua", wrapl.lua_statements)):
    for it in lst:
        for cl in CL:
            g, c, x = cl in it, ("c_" + cl) in it, ("cxx_" + cl) in it
            if g or c or x:
                rows.append([tab, it.get("name", "?"), cl, g, c, x])
print(json.dumps(rows))
""" % (CLAUSES,)
    e = dict(os.environ, PYTHONPATH=common.REPO, PYTHONDONTWRITEBYTECODE="1")
    p = subprocess.run([sys.executable, "-c", code], stdout=subprocess.PIPE, stderr=subprocess.PIPE, text=True, env=e)
    if p.returncode:
        raise RuntimeError("lang_rows failed: " + p.stderr[-1500:])
    return json.loads(p.stdout.strip().split("\n")[-1])


def _probe(items):
    dirs = [common.scratch() for _ in items]
    try:
        seq = []
        for it, d in zip(items, dirs):
            it = dict(it)
            it["outdir"] = d
            seq.append(it)
        e = dict(os.environ, PYTHONPATH=common.VERIF + ":" + common.REPO, PYTHONHASHSEED="0", PYTHONDONTWRITEBYTECODE="1")
        p = subprocess.run([sys.executable, "-m", "tools.regprobe", json.dumps({"seq": seq})], stdout=subprocess.PIPE,
                           stderr=subprocess.PIPE, text=True, env=e, cwd=common.VERIF, timeout=600)
        if p.returncode:
            raise RuntimeError("regprobe failed: " + p.stderr[-1500:])
        return json.loads(p.stdout.strip().split("\n")[-1])
    finally:
        for d in dirs:
            common.rmtree(d)


KIND_CODES = {"dict": 0, "OrderedDict": 1, "list": 2, "set": 3, "Scope": 4, "tuple": 5, "object": 6}
OPCODES = {"reset": 0, "w": 1, "ra": 3, "rk": 4}
UNDISCIPLINED = []
LEAK_PAIRS = []  # (A, B) probe pairs on which some registry was classified a leak: handed to the byte-comparison oracle
TRACES = []      # filled by classify_pair: (label, events of one run)
KINDS = {}


def compress(events):
    """first events of a run, in order; events on a registry after this run reset it are dropped (once a registry is
    reset every later stage reads determined state, `disciplined` is monotone in the reset set)"""
    out, reset = [], set()
    for kind, rid, key in events:
        if rid in reset:
            continue
        if kind == "reset":
            reset.add(rid)
        out.append((kind, rid, key))
    return out


def classify_pair(a_item, b_item):
    s = _probe([a_item, b_item])
    a = _probe([b_item])
    KINDS.update(s.get("kinds", {}))
    lab = lambda it: it.get("corpus") or os.path.basename(it.get("yaml", "?"))
    traces = [("%s (fresh process)" % lab(a_item), compress(s["runs"][0]["events"]), s["runs"][0]["exc"]),
              ("%s after %s" % (lab(b_item), lab(a_item)), compress(s["runs"][1]["events"]), s["runs"][1]["exc"])]
    res = {"<traces>": traces}
    for rid in s["registries"]:
        init = s["initial"][rid]
        sa, sb = s["runs"][0]["snap"][rid], s["runs"][1]["snap"][rid]
        al = a["runs"][0]["snap"].get(rid)
        if s["runs"][1]["exc"] and "PoisonRead" in s["runs"][1]["exc"] and rid in s["runs"][1]["exc"]:
            res[rid] = (9, "object bound by the earlier run was used: " + s["runs"][1]["exc"][:80])
        elif rid in s["runs"][1].get("unread_stale", ()):
            res[rid] = (2, "")      # left over from the earlier run, neither rebound nor used by this run
        elif init == sa == sb == al:
            res[rid] = (0, "")
        elif sb == al:
            res[rid] = (1, "")
        else:
            rs = s["runs"][1]["reads"].get(rid)
            ra = a["runs"][0]["reads"].get(rid)
            if rs is not None and ra is not None:
                stale = [k for k, v in rs.items() if ra.get(k) != v]
                res[rid] = (2, "") if not stale else (9, "stale reads: %s" % stale[:4])
            else:
                res[rid] = (9, "state after [A,B] differs from state after [B]")
    return res


def registry_classes(extra_pairs=()):
    del TRACES[:]
    KINDS.clear()
    pairs = [({"corpus": a}, {"corpus": b}) for a, b in PROBE_PAIRS] + list(extra_pairs)
    with ThreadPoolExecutor(8) as ex:
        results = list(ex.map(lambda ab: classify_pair(*ab), pairs))
    worst, why = {}, {}
    del LEAK_PAIRS[:]
    del UNDISCIPLINED[:]
    for (a, b), res in zip(pairs, results):
        if any(c == 9 for k, (c, w) in res.items() if k != "<traces>"):
            LEAK_PAIRS.append([a, b])
        TRACES.extend(res.pop("<traces>"))      # in the order of `pairs`, not of thread completion
        for rid, (c, w) in res.items():
            if c > worst.get(rid, -1):
                worst[rid] = c
                why[rid] = "%s after %s: %s" % (b, a, w) if w else ""
    # oracle guidance only (the check itself is the Lean theorem real_runs_disciplined over the regenerated traces): a pair
    # whose later run reads a registry, or a key, that it has not determined itself is handed to the byte comparison
    immut = {r for r, c in worst.items() if c == 0}
    per = []        # per traced run: (item, label, keys written, undisciplined reads)
    for i, (label, evs, exc) in enumerate(TRACES):
        s_, sk_, bad, wr = set(immut), set(), [], set()
        for kind, rid, key in evs:
            if kind == "reset":
                if worst.get(rid) != 0:
                    s_.add(rid)
            elif kind == "w":
                sk_.add((rid, key))
                wr.add((rid, key))
            elif kind == "ra" and rid not in s_:
                bad.append((rid, None))
            elif kind == "rk" and rid not in s_ and (rid, key) not in sk_:
                bad.append((rid, key))
        per.append((pairs[i // 2][i % 2], label, wr, bad))
        if bad:
            UNDISCIPLINED.append("%s: reads %s %s" % (label, bad[0][0], bad[0][1]))
    # an earlier run A that writes what a later run B reads undetermined: any two traced libraries, not only the probed pairs
    for ia, la, wa, _ in per:
        for ib, lb, _, bb in per:
            hit = [(r, k) for r, k in bb if (r, k) in wa or (k is None and any(r == r2 for r2, _ in wa))]
            if hit and [ia, ib] not in LEAK_PAIRS and len(LEAK_PAIRS) < 10:
                LEAK_PAIRS.append([ia, ib])
    return worst, why


class _Scan(ast.NodeVisitor):
    def __init__(self, fname):
        self.fname = fname
        self.func = "<module>"
        self.hits = []
        self.setnames = set()

    def visit_FunctionDef(self, node):
        old, self.func = self.func, node.name
        self.generic_visit(node)
        self.func = old

    def visit_Assert(self, node):
        # `python -O` / PYTHONOPTIMIZE removes assert statements: a call inside one is work that is silently not done
        for n in ast.walk(node.test):
            if isinstance(n, ast.Call):
                self.hits.append((self.fname, self.func, "call inside assert (removed under PYTHONOPTIMIZE): " + ast.unparse(n)[:60], node.lineno))
                break
        self.generic_visit(node)

    def visit_Name(self, node):
        if node.id == "__debug__":
            self.hits.append((self.fname, self.func, "__debug__ (depends on PYTHONOPTIMIZE)", node.lineno))
        self.generic_visit(node)

    def visit_If(self, node):
        # skip `if __name__ == "__main__":` blocks (never run by the driver)
        t = node.test
        if isinstance(t, ast.Compare) and isinstance(t.left, ast.Name) and t.left.id == "__name__":
            return
        self.generic_visit(node)

    def is_set(self, e):
        """syntactically set-typed: set displays/comprehensions, set()/frozenset() calls, set algebra on such
        values, set methods returning sets, names bound to such values, dict-view algebra (a.keys() & b.keys())"""
        if isinstance(e, (ast.Set, ast.SetComp)):
            return True
        if isinstance(e, ast.Name):
            return e.id in self.setnames
        if isinstance(e, ast.Call):
            f = e.func
            if isinstance(f, ast.Name) and f.id in ("set", "frozenset"):
                return True
            if isinstance(f, ast.Attribute) and f.attr in ("union", "intersection", "difference", "symmetric_difference", "copy") \
                    and self.is_set(f.value):
                return True
            return False
        if isinstance(e, ast.BinOp) and isinstance(e.op, (ast.BitAnd, ast.BitOr, ast.BitXor, ast.Sub)):
            def viewish(x):
                return isinstance(x, ast.Call) and isinstance(x.func, ast.Attribute) and x.func.attr in ("keys", "items")
            return self.is_set(e.left) or self.is_set(e.right) or (viewish(e.left) and viewish(e.right))
        return False

    def visit_Assign(self, node):
        if self.is_set(node.value):
            for t in node.targets:
                if isinstance(t, ast.Name):
                    self.setnames.add(t.id)
        self.generic_visit(node)

    def visit_AugAssign(self, node):
        if self.is_set(node.value) and isinstance(node.target, ast.Name):
            self.setnames.add(node.target.id)
        self.generic_visit(node)

    def visit_Call(self, node):
        f = node.func
        if isinstance(f, ast.Name) and f.id in AMBIENT_BUILTINS:
            self.hits.append((self.fname, self.func, f.id, node.lineno))
        if isinstance(f, ast.Name) and f.id in ("list", "tuple", "enumerate", "iter", "next") and node.args and self.is_set(node.args[0]):
            self.hits.append((self.fname, self.func, "order-of-set:" + f.id, node.lineno))
        if isinstance(f, ast.Attribute) and f.attr in ("join", "extend") and node.args and self.is_set(node.args[0]):
            self.hits.append((self.fname, self.func, "order-of-set:" + f.attr, node.lineno))
        if isinstance(f, ast.Attribute) and isinstance(f.value, ast.Name):
            if (f.value.id, None) in AMBIENT_CALLS or (f.value.id, f.attr) in AMBIENT_CALLS:
                self.hits.append((self.fname, self.func, "%s.%s" % (f.value.id, f.attr), node.lineno))
        self.generic_visit(node)

    def visit_Attribute(self, node):
        if isinstance(node.value, ast.Name) and (node.value.id, node.attr) in AMBIENT_CALLS and node.attr == "environ":
            self.hits.append((self.fname, self.func, "os.environ", node.lineno))
        self.generic_visit(node)

    def _iter(self, it, lineno):
        if self.is_set(it):
            what = "iterate-set:" + (it.id if isinstance(it, ast.Name) else "<expr>")
            self.hits.append((self.fname, self.func, what, lineno))

    def visit_For(self, node):
        self._iter(node.iter, node.lineno)
        self.generic_visit(node)

    def visit_comprehension(self, node):
        self._iter(node.iter, getattr(node.iter, "lineno", 0))
        self.generic_visit(node)


def ambient_uses():
    hits = []
    d = os.path.join(common.REPO, "shroud")
    for f in sorted(os.listdir(d)):
        if f.endswith(".py"):
            sc = _Scan(f)
            tree = ast.parse(open(os.path.join(d, f)).read())
            # two passes so set names assigned later in the file are known
            sc.visit(tree)
            sc.hits = []
            sc.visit(tree)
            hits += [h for h in sc.hits if (h[0], h[1], h[2]) not in ALLOW]
    return sorted(set(hits))


def render(rows, classes, why, amb):
    L = []
    L.append("/- GENERATED by tools/extract_registry.py from the /repo working tree.  Do not edit. -/")
    L.append("namespace Shroud.Gen.Registry")
    L.append("")
    L.append("/-- (generic present, c_ variant present, cxx_ variant present) per (table, item, clause) -/")
    L.append("def langRows : List (Bool × Bool × Bool) := [")
    L.append(",\n".join("  (%s, %s, %s)  -- %s %s %s" % (str(g).lower(), str(c).lower(), str(x).lower(), t, n, cl)
                        for t, n, cl, g, c, x in rows).replace(",\n", "\n").replace("  (", "  (", 1)
             if False else ",\n".join("  (%s, %s, %s)" % (str(g).lower(), str(c).lower(), str(x).lower()) for t, n, cl, g, c, x in rows))
    L.append("]")
    L.append("")
    L.append("def langRowNames : List String := [")
    L.append(",\n".join('  "%s %s %s"' % (t, n.replace('"', "'"), cl) for t, n, cl, g, c, x in rows))
    L.append("]")
    L.append("")
    L.append("/-- (registry index, class code): 0 immutable, 1 run-determined, 2 per-key fresh, 9 leak -/")
    L.append("def registryClasses : List (Nat × Nat) := [")
    rids = sorted(classes)
    L.append(",\n".join("  (%d, %d)" % (i, classes[r]) for i, r in enumerate(rids)))
    L.append("]")
    L.append("")
    L.append("def registryNames : List String := [")
    L.append(",\n".join('  "%s%s"' % (r, (" -- " + why[r].replace('"', "'")) if why.get(r) else "") for r in rids))
    L.append("]")
    L.append("")
    L.append("/-- (registry index, container kind): 0 dict, 1 OrderedDict, 2 list, 3 set, 4 Scope, 5 tuple, 6 object -/")
    L.append("def registryKinds : List (Nat × Nat) := [")
    L.append(",\n".join("  (%d, %d)" % (i, KIND_CODES[KINDS.get(r, "object")]) for i, r in enumerate(rids)))
    L.append("]")
    L.append("")
    L.append("/-- stage traces of real runs (first events, in order): (opcode, registry index, interned key);")
    L.append("    opcode 0 reset, 1 write key, 3 read whole container, 4 read key -/")
    L.append("def traceProgs : List (List (Nat × Nat × Nat)) := [")
    ridx = {r: i for i, r in enumerate(rids)}
    keys = {}
    progs = []
    for label, evs, exc in TRACES:
        ops = []
        for kind, rid, key in evs:
            if rid not in ridx:
                raise RuntimeError("trace mentions a registry that was not enumerated: %s" % rid)
            if kind == "reset" and classes[rid] == 0:
                # a reset site that ran on a registry whose contents never differ from import time (e.g. update_for_language on
                # lua_statements, which has no c_/cxx_ variants: the pass is the identity there) is not a write
                continue
            k = keys.setdefault((rid, key), len(keys)) if key is not None else 0
            ops.append("(%d, %d, %d)" % (OPCODES[kind], ridx[rid], k))
        progs.append("  -- %s%s\n  [%s]" % (label, " (raised: %s)" % exc[:60].replace("\n", " ") if exc else "", ", ".join(ops)))
    L.append(",\n".join(progs))
    L.append("]")
    L.append("")
    L.append("/-- ambient-state uses found by the AST scan: (file, function, what, line) -/")
    L.append("def ambientUses : List (String × String × String × Nat) := [")
    L.append(",\n".join('  ("%s", "%s", "%s", %d)' % h for h in amb))
    L.append("]")
    L.append("")
    L.append("end Shroud.Gen.Registry")
    return "\n".join(L) + "\n"


def write_if_changed(path, text):
    os.makedirs(os.path.dirname(path), exist_ok=True)
    try:
        if open(path).read() == text:
            return False
    except OSError:
        pass
    with open(path, "w") as f:
        f.write(text)
    return True


def regenerate(extra_pairs=()):
    rows = lang_rows()
    classes, why = registry_classes(extra_pairs)
    amb = ambient_uses()
    text = render(rows, classes, why, amb)
    changed = write_if_changed(GEN, text)
    return {"lang_rows": len(rows), "registries": len(classes), "traces": [(t[0], len(t[1]), t[2]) for t in TRACES],
            "kinds": {k: sum(1 for r in classes if KINDS.get(r) == k) for k in KIND_CODES},
            "classes": {r: c for r, c in classes.items() if c != 0},
            "leaks": {r: why[r] for r, c in classes.items() if c == 9},
            "leak_pairs": list(LEAK_PAIRS), "undisciplined": list(UNDISCIPLINED), "ambient": amb, "changed": changed}


if __name__ == "__main__":
    print(json.dumps(regenerate(), indent=1))
