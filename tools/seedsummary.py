"""Write seeded/SUMMARY.md from seeded/*/meta.json, result.json and seeded/first_run.json."""
import json
import os

VERIF = os.path.dirname(os.path.dirname(os.path.abspath(__file__)))
SD = os.path.join(VERIF, "seeded")


def outcome(res, prop):
    c = (res.get("checks") or {}).get(prop)
    if not c:
        return "not run"
    lines = " ".join(c.get("lines", []))
    if res.get("demo_with_patch_rc") == 0 and c["rc"] == 0:
        # the seeding agent's own demonstration passes with the patch on the current HEAD: a later fix: commit removed
        # the precondition, the change no longer breaks the property (recorded in meta.json as `neutralised_by`)
        return "no longer a breaking change at HEAD (demonstration passes with the patch)"
    if c["rc"] == 2:
        return "error"
    if "VIOLATION" in lines and "no-failing-input-found" in lines:
        return "nffi"
    if "VIOLATION" in lines:
        return "detected"
    return "missed" if c["rc"] == 0 else "rc=%s" % c["rc"]


def main():
    first = json.load(open(os.path.join(SD, "first_run.json")))
    rows = []
    for d in sorted(os.listdir(SD)):
        p = os.path.join(SD, d)
        if not os.path.isdir(p):
            continue
        meta = json.load(open(os.path.join(p, "meta.json")))
        res = json.load(open(os.path.join(p, "result.json"))) if os.path.exists(os.path.join(p, "result.json")) else {}
        prop = d.split("-")[0]
        what = str(meta.get("what_changed", meta.get("title", "")))[:160].replace("|", "/").replace("\n", " ")
        needs = str(meta.get("needs_to_manifest", ""))[:160].replace("|", "/").replace("\n", " ")
        now = outcome(res, prop)
        if now != "detected":
            # a change may be caught by the check of a neighbouring property (recorded when seedtest ran with --props A,B)
            others = [q for q in (res.get("checks") or {}) if q != prop and outcome(res, q) == "detected"]
            if others:
                now = "%s by %s; detected by %s" % (now, prop, ",".join(others))
        rows.append((d, prop, what, needs, first.get(d, "?"), now, res.get("pinned_tests", "?")))
    out = ["# Independently seeded changes", "",
           "Each directory holds `patch.diff`, the demonstration (`demo.py`), `meta.json` (written by the seeding sub-agent, who saw only",
           "the property text and a scratch worktree) and `result.json` (written by `tools/seedtest.py`: pinned tests with the patch,",
           "demo with/without the patch, outcome of `SHROUD_REPO=<worktree> ./check <prop>`).  `first run` is the outcome before any",
           "strengthening of the checks; `now` the outcome of the last `seedtest` run.", "",
           "| id | change | needs | first run | now | pinned tests |", "|---|---|---|---|---|---|"]
    for r in rows:
        out.append("| %s | %s | %s | %s | %s | %s |" % (r[0], r[2], r[3], r[4], r[5], r[6]))
    n = len(rows)
    det_first = sum(1 for r in rows if r[4].startswith("detected"))
    det_now = sum(1 for r in rows if "detected" in r[5])
    out += ["", "%d seeded changes; detected with a concrete failing input at first run: %d; now: %d." % (n, det_first, det_now)]
    open(os.path.join(SD, "SUMMARY.md"), "w").write("\n".join(out) + "\n")
    print(out[-1])


if __name__ == "__main__":
    main()
