"""C02 The generated C API of a C++ library is call-equivalent to the C++ API.

Proof: Props/C02.lean over Model/WrapC.lean (statement tree + lookup, value domain and wrapper
operations with semantics, assembleC) and the regenerated Gen/CStmts.lean.
Tie (T): tools/extract_cstmts.py regenerates Gen/CStmts.lean (c_* statement entries with their
template lines mapped to op codes through an explicit pattern table, typemap conversion patterns).
Tie (D): (1) lookup_fc_stmts on the real cf_tree vs the model's lookupStmts over the whole key
domain; (2) for generated C++ descriptions and the upstream corpus: matched statement names,
prototype parameter list, call list, return statement, `this` set-up and C names of the real
generate_functions + Wrapc versus the model's assembleC (driver drv_wrapc).
Oracle (implementation only): tools/c02_oracle.py generates an instrumented C++ subject library,
the wrappers (real Shroud), a C driver that calls only functions of the generated headers under
their documented names, compiles with -fsanitize=address,undefined, runs, and compares the trace
with the expectation computed from the declarations in Python.
"""
import json
import os
import re

from tools import common, shroudrun

LEVEL = "proof"
MANIFEST = dict(
    category="proof",
    text="Lean 4 theorems (72 audited, no size bound) on a model of the plain C API assembly of wrapc.py (language c++ and language c). "
         "Call equivalence for ALL parameter lists and values of the modelled kinds: native/bool/struct by value, pointer, reference; "
         "native `T **` / `T *&`; char by value, `char *`, `char **`, `void **`; enum by value and (after fix f9c4cc7) by pointer/"
         "reference; std::string by value and by pointer/reference with intent in/out/inout; class instances by value/pointer/"
         "reference; callbacks (function pointers): the C++ callee sees the documented conversion of each C argument in declaration "
         "order (arg_call_equivalence, args_call_equivalence by induction, call_equivalence_no_this / _method), output arguments "
         "arrive in the caller's memory (arg_out_equivalence, string_inout_untouched), `this` is the object held by the capsule "
         "named by the first C parameter exactly for instance methods and destructors with the method's constness (this_plan, "
         "this_object, this_wrong_parameter_differs), results are converted back (result_equivalence: native, reference as pointer, "
         "bool, enum as int, char*, c_str of a std::string, struct by value/pointer, class by pointer/reference/value, constructor; "
         "class_reference_result_identity: a class reference result hands out the very object, the by-value plan a fresh copy), "
         "the destructor wrapper deletes the held object and leaves {addr = NULL, idtor unchanged} in the handle "
         "(dtor_clears_handle). The call_list rule over the 2x3 table {pointer, non-pointer parameter} x {scalar, pointer, no local} "
         "(call_list_*). Conversion round trips for enum, bool and class handles (enum_round_trip, shadow_round_trip, "
         "ctor_round_trip; wrong direction / double application are ill-typed). Statement lookup: a found entry belongs to a "
         "longest key matching the path when only empty/unknown parts are skipped, the default only if nothing matches, exact keys "
         "win, inserting an unrelated key changes no lookup (lookup_*). Table theorems over regenerated data: every reached plain "
         "c_* entry assembles to the documented operation shape with {c_var}/{cxx_var}/{shadow_var}/{CXX_this} in the documented "
         "positions (table_arg_shapes, table_res_shapes, table_class_entries), typemap conversion patterns are mutually inverse "
         "pairs (table_typemap_pairs), every line recovering a class instance from its capsule keeps the parameter's constness "
         "in the declaration and in the cast (table_capsule_recovery_keeps_const), every predefined typemap that crosses without a "
         "conversion has the same C and C++ type, width and signedness, except the documented complex pair (c_type_is_cxx_type), "
         "the built tree holds entry i at key i (table_tree_entries). `_partial`: "
         "plain_keys_reach_plain_entries_partial - kinds listed under not_modelled only get 'unreachable from plain keys'; "
         "enum_indirect_old_code_ill_typed is a witness about the code before f9c4cc7. "
         "Props/C02Lang.lean (30): `language: c` libraries over the regenerated c table (entriesC): every entry a C declaration "
         "reaches (native/bool/char/enum/struct by value and pointer, T **, char **, void **, callbacks) is an identity plan - no "
         "C++ local, no value conversion, no capsule, no copy back; only a pointer to an enum is cast to the library's pointer type "
         "in a local (fix d89e330) (c_table_arg_shapes, c_table_res_shapes, c_table_differs_from_cxx), the callee "
         "receives the C values themselves for ALL parameter lists and all values a caller can form (c_arg_identity, "
         "c_args_identity by induction, c_result_identity), a wrapper exists only for C_force_wrapper / C_error_pattern / a splicer "
         "(c_need_wrapper; deref(scalar) and language c++ always: need_wrapper_cxx_and_deref) and with or without it the caller of "
         "the generated name reaches the library function with its own arguments and gets its return value (c_call_equivalence). "
         "C_error_pattern as a body op: for EVERY wrapper the block sits directly after the call clause, behind every argument "
         "conversion / pre_call, in front of post_call, the cxx_to_c conversion and the return, exactly once, and removing it gives "
         "the body without a pattern (error_pattern_position, _once, _after_call_before_return); it is expanded in the result's scope "
         "for functions (pattern_scope) and reads the C++ result before conversion (error_pattern_reads_cxx_result); for every result "
         "kind: silent -> the documented result, fires -> its value, post_call not run (handle of a class result untouched; a "
         "constructor's call clause has already filled it) (error_pattern_silent, error_pattern_fires). deref(scalar): the pointee is "
         "returned, in both languages; a null result is dereferenced unchecked (table_deref_scalar, deref_scalar_result, "
         "deref_scalar_null_undefined). Enum returned by pointer / reference (after fix 0e96fba): the address of the very object as "
         "int * (table_enum_indirect_result, enum_indirect_result; enum_indirect_result_old_code_ill_typed is the witness about the "
         "code before). Statement keys extended by a template argument (lookup_c_statements appends the argument's sgroup), for ANY "
         "tree and path: the lookup continues from the node reached for the shorter key; a child carrying an entry wins, otherwise "
         "the shorter key's result is kept (lookup_extra_component, lookup_template_fallback, lookup_template_specialised; "
         "lookup_longest_match already covers paths of any length). Declaration-level fstatements (lookup_local_stmts: the "
         "dictionary becomes a Scope over the looked-up entry): for ALL dictionaries and entries a named clause is replaced by the "
         "dictionary's last value of that name and every clause not named is kept (override_named, override_keeps, set_get_same, "
         "set_get_other); only mode update merges (local_stmts_modes).",
    design="3 C02",
    note="Tie: (T) tools/extract_cstmts.py regenerates Gen/CStmts.lean on every run (82 c_* entries, 37 template lines and the "
         "typemap conversion patterns mapped to op codes by an explicit pattern table; an unmapped line is written as op 99, reported as a broken tie and breaks the table theorems, then the oracle searches). (D) real "
         "lookup_fc_stmts vs lookupStmts over the whole key domain plus random paths; real generate_functions+Wrapc vs assembleC "
         "(driver drv_wrapc) for every C-wrapped function of generated C++ libraries and the C++ corpus: matched statement names, "
         "prototype, call list, the conversion that creates each argument's C++ local (std::string construction, capsule address, "
         "struct / enum pointer cast, enum value cast), `this` set-up, call/return shape; C names versus the documented naming rule computed from the "
         "description (overload position, explicit function_suffix, default_arg_suffix, template_suffix, class-template instance "
         "scope). Oracle (implementation only): instrumented C++ subject library + C driver calling only the generated headers' "
         "functions under their documented names with boundary values, g++/gcc -fsanitize=address,undefined, trace compared with "
         "expectations computed from the declarations: overload sets with explicit suffixes on any subset (free, method, ctor), "
         "default arguments with default_arg_suffix lists and with literals that are falsy in Python (0, 0.0, false; also as the "
         "only defaults of a function), enums declared globally, in a namespace and in a class passed by value / pointer / reference, function templates with 1-3 type parameters and permuted instantiations, "
         "class templates, const/static methods, ctor/dtor (handle NULL and idtor unchanged after dtor), class results by "
         "pointer/reference/value, struct arguments on methods and in namespaces, enum by pointer/reference, callbacks, char **, "
         "void **, customised C_prefix and C_name_template; overload-resolution observations (wrapped overload sets on std::string "
         "by reference or value / bool / const char * / int / double / long, overloads differing only in the constness of a class "
         "reference/pointer parameter, and unwrapped decoy overloads in the subject library: "
         "bool and const char * next to every std::string parameter, an ordinary function next to every function template) and "
         "identity observations for class results (same address on every call, not caller-owned, `*this` returned by reference is "
         "the object called on; by-value results are caller-owned copies); the tie also requires the explicit template arguments "
         "of every instantiation's call. Trusted / modelled-not-verified: Lean kernel; the translator's pattern "
         "table (meaning of each template line); the abstract semantics of C++ argument passing in Model/WrapC.lean (evalCall, "
         "resolve, convString = std::string's converting constructor); per-argument two-variable environments (distinct parameter "
         "names); capsule idtor values are parameters (C06); the naming rule lives in the Python harness, not in Lean (C08); "
         "g++/gcc code generation. Language tie: Gen/CStmts.entriesC is regenerated from a `language: c` run of the real "
         "table set-up; driver op asmx (assembleCL, needWrapperOf, bodyOf) against real wrap_function on generated C libraries "
         "(tools/gen/c02langgen.py: distribution in language_tie_distribution), generated c++ libraries with enum pointer/reference "
         "results, deref(scalar), C_error_pattern on functions / methods / constructors / class results, and the C corpus "
         "(clibrary, struct-c, enum-c, pointers-c): whether a wrapper is emitted, C name of a function without wrapper, statement "
         "names, prototype, call list, number of body statements, position and scope variable of the pattern block, result "
         "conversion line, call / return shape. Language oracle (implementation only): generated wrappers must compile against the "
         "library's own header (gcc -std=c99 / g++ -fsyntax-only -Werror), a C-library wrapper passes its own parameters in order "
         "and casts nothing, the pattern block follows the call and precedes capsule assignments / return. The semantics given to "
         "the pattern block (runResultP: a function of the scope variable that may return early) and to `return *x` are modelled. "
         "Template / fstatements tie: lookup correspondence over keys with a 7th template component (vector / string / native x "
         "pointer x intent x suffix x cdesc x 8 argument groups); driver op ovr (localStmts over the regenerated entry) against the "
         "real lookup_local_stmts as called by wrap_function on generated C and C++ libraries whose functions carry fstatements "
         "{c: {...}} dictionaries naming random clause subsets with mode update / replace / none (fstatements_tie_distribution): "
         "per clause, whether the merged statements return the dictionary's or the entry's value. The text of overriding lines is "
         "not interpreted (the body of a function with fstatements is not compared). "
         "Not modelled: bufferify/CFI entries (vectors, character buffers, contexts: their lines are op 0), MPI_Comm, deref(scalar) on a reference result (does not compile), the `final` clause (empty "
         "in every plain entry), C_error_pattern on a result-as-argument beyond its scope, patterns naming {cxx_var} on a subroutine "
         "(Shroud stops with a template error).",
    technique="Lean 4 proof (induction over parameter lists and paths, decide +kernel over regenerated tables) + differential "
              "correspondence + compile-and-run oracle with sanitizers",
)
MODULES = ["ShroudVerif.Props.C02", "ShroudVerif.Props.C02Lang"]
THEOREMS = {
    "ShroudVerif.Props.C02": [
        "Shroud.WrapC.lookup_longest_match",
        "Shroud.WrapC.lookup_default_only_if_no_match",
        "Shroud.WrapC.lookup_exact'",
        "Shroud.WrapC.lookupStmts_insert_unrelated",
        "Shroud.WrapC.lookupStmts_insert_other_head",
        "Shroud.WrapC.call_list_scalar",
        "Shroud.WrapC.call_list_pointer",
        "Shroud.WrapC.call_list_none_value",
        "Shroud.WrapC.call_list_none_indirect",
        "Shroud.WrapC.call_list_missing_deref_differs",
        "Shroud.WrapC.table_arg_shapes",
        "Shroud.WrapC.arg_call_equivalence",
        "Shroud.WrapC.string_by_value",
        "Shroud.WrapC.string_by_value_old_code",
        "Shroud.WrapC.pointer_to_pointer",
        "Shroud.WrapC.enum_indirect",
        "Shroud.WrapC.enum_indirect_old_code_ill_typed",
        "Shroud.WrapC.pass_through_kinds",
        "Shroud.WrapC.dtor_clears_handle",
        "Shroud.WrapC.args_call_equivalence",
        "Shroud.WrapC.arg_out_equivalence",
        "Shroud.WrapC.string_inout_untouched",
        "Shroud.WrapC.table_res_shapes",
        "Shroud.WrapC.table_class_entries",
        "Shroud.WrapC.result_equivalence",
        "Shroud.WrapC.class_reference_result_identity",
        "Shroud.WrapC.this_plan",
        "Shroud.WrapC.this_object",
        "Shroud.WrapC.this_wrong_parameter_differs",
        "Shroud.WrapC.call_equivalence_no_this",
        "Shroud.WrapC.call_equivalence_method",
        "Shroud.WrapC.enum_round_trip",
        "Shroud.WrapC.enum_wrong_direction",
        "Shroud.WrapC.bool_round_trip",
        "Shroud.WrapC.shadow_round_trip",
        "Shroud.WrapC.ctor_round_trip",
        "Shroud.WrapC.c_to_cxx_twice",
        "Shroud.WrapC.table_typemap_pairs",
        "Shroud.WrapC.table_capsule_recovery_keeps_const",
        "Shroud.WrapC.c_type_is_cxx_type",
        "Shroud.WrapC.table_tree_entries",
        "Shroud.WrapC.plain_keys_reach_plain_entries_partial",
    ],
    "ShroudVerif.Props.C02Lang": [
        "Shroud.WrapC.error_pattern_position",
        "Shroud.WrapC.error_pattern_once",
        "Shroud.WrapC.error_pattern_after_call_before_return",
        "Shroud.WrapC.pattern_scope",
        "Shroud.WrapC.error_pattern_reads_cxx_result",
        "Shroud.WrapC.error_pattern_silent",
        "Shroud.WrapC.error_pattern_fires",
        "Shroud.WrapC.table_deref_scalar",
        "Shroud.WrapC.deref_scalar_result",
        "Shroud.WrapC.deref_scalar_null_undefined",
        "Shroud.WrapC.table_enum_indirect_result",
        "Shroud.WrapC.enum_indirect_result",
        "Shroud.WrapC.enum_indirect_result_old_code_ill_typed",
        "Shroud.WrapC.c_table_arg_shapes",
        "Shroud.WrapC.c_arg_identity",
        "Shroud.WrapC.c_args_identity",
        "Shroud.WrapC.c_table_res_shapes",
        "Shroud.WrapC.c_result_identity",
        "Shroud.WrapC.c_need_wrapper",
        "Shroud.WrapC.c_call_equivalence",
        "Shroud.WrapC.c_table_differs_from_cxx",
        "Shroud.WrapC.need_wrapper_cxx_and_deref",
        "Shroud.WrapC.lookup_extra_component",
        "Shroud.WrapC.lookup_template_fallback",
        "Shroud.WrapC.lookup_template_specialised",
        "Shroud.WrapC.set_get_same",
        "Shroud.WrapC.set_get_other",
        "Shroud.WrapC.override_keeps",
        "Shroud.WrapC.override_named",
        "Shroud.WrapC.local_stmts_modes",
    ],
}

UNMODELLED = ["entries with a buf/cfi/cdesc part (bufferify / CFI API: std::vector, character buffers, array contexts)",
              "MPI_Comm", "deref(scalar) on a reference result",
              "the text of lines supplied by fstatements overrides (which clauses win is modelled)", "C_error_pattern whose text names {cxx_var} on a subroutine (template error in Shroud)",
              "the C naming rule (overload numbers, suffix lists, template suffixes) is checked by the harness, not proved in Lean"]


# ---------------------------------------------------------------- model requests
class Interner:
    def __init__(self, ids):
        self.ids = ids

    def __call__(self, part):
        if not part:
            return 0
        return self.ids.get(part, 999)


def conv_code(text, table, xc):
    try:
        return xc.map_conv(text, table, "typemap")[0]
    except RuntimeError:
        return 9


def enum_names(lib):
    """typemap names of the library's enums (what wrapc.find_enum_typemaps records)"""
    out = set()

    def walk(node):
        for e in node.enums:
            out.add(e.typemap.name)
        for c in node.classes:
            walk(c)
        for n in getattr(node, "namespaces", []):
            walk(n)
    walk(lib)
    return out


def arg_desc(arg, it, xc, suffix=None, is_result_ast=False, cxx_ast=None, enums=frozenset()):
    from shroud import statements
    tm, specialize = statements.lookup_c_statements(arg)
    attrs, meta = arg.attrs, arg.metaattrs
    extra = []
    if not is_result_ast:
        extra.append(it("cdesc") if attrs["cdesc"] is not None else 0)
        extra += [it(s) for s in specialize]
    spointer = arg.get_indirect_stmt()
    suffix_override = None
    if not is_result_ast and meta["is_result"]:
        # wrap_function: spointer of the C++ function's result, deref attribute instead of cdesc
        spointer = cxx_ast.get_indirect_stmt()
        extra = [it(meta["deref"])]
        suffix_override = suffix
    ex = ",".join(str(x) for x in extra) if extra else "-"
    if is_result_ast:
        cv = {0: 0, 1: 1, 2: 2, 3: 3, 5: 9, 9: 9}[conv_code(arg.typemap.cxx_to_c, xc.CXX_TO_C, xc)]
        intent = it("result")
        sfx = suffix
        isres = False
    else:
        cv = {0: 0, 1: 1, 2: 2, 5: 9, 9: 9}[conv_code(tm.c_to_cxx, xc.C_TO_CXX, xc)]
        intent = it(meta["intent"])
        sfx = arg.stmts_suffix if suffix_override is None else suffix_override
        isres = bool(meta["is_result"])
    return ":".join(str(x) for x in [
        it(arg.typemap.sgroup), it(spointer), intent, it(sfx), ex,
        int(bool(arg.is_pointer())), int(bool(arg.is_reference())), int(bool(attrs["value"])), cv, int(isres),
        int((tm.name if not is_result_ast else arg.typemap.name) in enums)])


def cxx_node_of(lib, node):
    cxx = node
    while cxx._PTR_C_CXX_index is not None:
        cxx = lib.function_index[cxx._PTR_C_CXX_index]
    return cxx


def func_request(lib, cls, node, it, xc, language="cxx"):
    ast = node.ast
    cxx_ast = cxx_node_of(lib, node).ast
    flags = [cls is not None, bool(cxx_ast.is_ctor()), bool(cxx_ast.is_dtor()), "static" in ast.storage,
             bool(ast.func_const), cxx_ast.get_subprogram() == "function", ast.metaattrs["deref"] == "scalar"]
    enums = enum_names(lib)
    res = arg_desc(ast, it, xc, suffix=node.generated_suffix, is_result_ast=True, enums=enums)
    args = [arg_desc(a, it, xc, suffix=node.generated_suffix, cxx_ast=cxx_ast, enums=enums) for a in ast.params]
    from shroud import statements
    opts = [bool(node.options.C_force_wrapper), bool(node.options.get("C_extern_C", False)),
            node.C_error_pattern is not None and
            statements.compute_name([node.C_error_pattern, node.generated_suffix]) in (lib.patterns or {}),
            statements.compute_name(["c", node.generated_suffix]) in node.splicer]
    return "asmx %s %s %s %s %s" % ("c" if language == "c" else "x", "".join("1" if f else "0" for f in opts),
                                    "".join("1" if f else "0" for f in flags), res, " ".join(args))


def parse_reply(line):
    parts = line.split(" | ")
    head = dict(kv.split("=", 1) for kv in parts[0].replace("res: ", "").split(" "))
    args = [dict(kv.split("=", 1) for kv in p.split(" ")) for p in parts[1:]]
    return head, args


def lst(s):
    return [] if s == "-" else s.split(",")


# ---------------------------------------------------------------- real side
def walk_functions(lib):
    """(cls, node) for every function node of the library in emission order"""
    out = []

    def ns(node):
        for cls in node.classes:
            for f in cls.functions:
                out.append((cls, f))
        for f in node.functions:
            out.append((None, f))
        for n in node.namespaces:
            ns(n)
    ns(lib)
    return out


def render_proto(tokens, arg, fmt, intent_blk, name=None):
    """text of the prototype entries the model predicts for one argument / result"""
    from shroud import util
    out = []
    for t in tokens:
        if t == "arg":
            out.append(arg.gen_arg_as_c(continuation=True))
        elif t in ("shadowP", "shadowV"):
            out.append("{} {}{}".format(arg.typemap.c_type, "" if t == "shadowV" else "* ", name or arg.name))
        elif t.startswith("decl"):
            for ln in intent_blk.c_arg_decl:
                out.append(util.wformat(ln, fmt))
        elif t.startswith("aux"):
            key = {4: "long {c_var_size}", 5: "{C_capsule_data_type} *{c_var_capsule}", 6: "{C_array_type} *{c_var_context}",
                   7: "int {c_var_trim}", 8: "int {c_var_len}"}[int(t[3:])]
            out.append(util.wformat(key, fmt))
    return out


def expected_call(tok, fmt_arg):
    if tok == "-":
        return None
    pre = ""
    if tok[0] in "&*":
        pre, tok = tok[0], tok[1:]
    return pre + (fmt_arg.c_var if tok == "c" else fmt_arg.cxx_var)


def classify_return(code, fmt):
    """return statement shape of the generated body"""
    rets = [l.strip() for l in code if l.strip().startswith("return")]
    if not rets:
        return "none"
    r = rets[-1]
    m = re.match(r"return\s+([&*]?)\s*(\w+);", r)
    if not m:
        return "other"
    pre, var = m.groups()
    if var.startswith(fmt.SH_shadow):
        return "shadow"
    if var.startswith(fmt.C_local):
        return "cvar%d" % {"": 0, "&": 1, "*": 2}[pre]
    if var.startswith(fmt.CXX_local) and pre == "*":
        return "derefCxx"
    return "other"


def classify_call(code, fmt):
    lines = [l.strip() for l in code]
    body = " ".join(lines)
    cxx, cl, rv = re.escape(fmt.CXX_local), re.escape(fmt.C_local), re.escape(fmt.C_result)
    if re.search(r"\bdelete\s+%s\b" % re.escape(fmt.CXX_this), body):
        return "dtorDelete"
    if any(re.match(r"[\w:<>, ]+\*\s*%s\w+\s*=\s*new\s+[\w:<>, ]+\(" % cxx, l) for l in lines):
        return "ctorNew"
    if any(re.match(r"\*%s\w+\s*=" % cxx, l) for l in lines):
        return "assignNew"
    if re.search(r"\b(%s%s|%s%s)\s*=" % (cl, rv, cxx, rv), body):
        return "assign"
    return "plain"


def classify_conversion(lines, cxx_var, c_var):
    """shape of the line that declares the C++ local of one argument, in the model's vocabulary"""
    cv, xv = re.escape(c_var), re.escape(cxx_var)
    for l in lines:
        l = " ".join(l.split())
        if not re.search(r"(^|[\s*&])%s(\s*=|\(|;)" % xv, l):
            continue
        if re.search(r"std::string\s+%s\(%s\)" % (xv, cv), l):
            return "strFromC"
        if re.search(r"std::string\s+%s;" % xv, l):
            return "strEmpty"
        if re.search(r"%s->addr" % cv, l):
            return "capsP"
        if re.search(r"%s\.addr" % cv, l):
            return "capsV"
        if re.search(r"static_cast<(const )?void \*>\(\s*&%s\)" % cv, l):
            return "structA"
        if re.search(r"static_cast<(const )?void \*>\(\s*%s\)" % cv, l):
            return "structP"
        if re.search(r"=\s*\((const )?[\w:]+ \*\)\s*%s;" % cv, l):
            return "structP"        # language c: the pointer cast to the library's pointer type
        if re.search(r"=\s*static_cast<[^<>]*[^*\s]>\(%s\)" % cv, l):
            return "castEnum"
        return "other"
    return None


def check_library(ctx, lib, bodies, snaps, it, xc, names, tag, reqs, meta, language):
    """Collect driver requests + the real observations for every wrapped function."""
    for cls, node in walk_functions(lib):
        if not node.wrap.c:
            continue
        fmt = node.fmtdict
        if "C_prototype" not in fmt.__dict__ and not hasattr(fmt, "C_prototype"):
            continue
        if fmt.inlocal("C_prototype") is False:
            continue
        try:
            req = func_request(lib, cls, node, it, xc, language)
        except Exception as e:  # unexpected AST shape: report as tie problem, not a crash
            meta.append(("error", tag, node.declgen, repr(e)))
            continue
        reqs.append(req)
        meta.append(("func", tag, cls, node, (bodies.get(id(node)), snaps.get(id(node)), language, id(node) in bodies)))


def classify_result_conv(code, fmt_res):
    """shape of the line `{c_rv_decl} = {c_val};` that creates the C form of the result, None if there is none"""
    if not ("c_var" in fmt_res and "cxx_var" in fmt_res) or fmt_res.c_var == fmt_res.cxx_var:
        return None
    cv, xv = re.escape(fmt_res.c_var), re.escape(fmt_res.cxx_var)
    for l in code:
        l = " ".join(l.split())
        if not re.search(r"(^|[\s*&])%s\s*=" % cv, l):
            continue
        if re.search(r"=\s*static_cast<int>\(\s*%s\)" % xv, l):
            return "castInt"
        if re.search(r"=\s*%s(\.|->)c_str\(\)" % xv, l):
            return "cStr"
        if re.search(r"=\s*static_cast<(const )?int \*>\s*\(static_cast<(const )?void \*>\(\s*&?%s\)\)" % xv, l):
            return "other7"
        if "static_cast<" in l and "XXXstruct" not in l:
            return "structBack-or-other"
    return None


def check_body_order(head, code, names, rows, node, fmt_res, note, stats):
    """the model's statement groups (pre_call / call clause / C_error_pattern block / post_call / conversion / return) against
    the generated body: number of statements in front of and behind the `// C_error_pattern` marker, and the conversion line"""
    ops = lst(head.get("body", "-"))
    if not ops:
        return
    row = rows.get(head["e"])
    call_lines = len(row["call"] or []) if row is not None and row["call"] else 1
    kinds = [o.split(":")[0].rstrip("0123456789") for o in ops]
    n_before = 0
    for k in kinds:
        if k in ("pre", "rpre"):
            n_before += 1
        elif k == "call":
            n_before += call_lines
            break
    has_pat = "pattern" in kinds
    n_after = sum(1 for k in kinds if k in ("post", "rpost", "conv", "ret"))
    marker = [i for i, l in enumerate(code) if l.strip() == "// C_error_pattern"]
    stats["pattern:%s" % ("none" if not marker else head["call"] + "/" + head["ret"])] = \
        stats.get("pattern:%s" % ("none" if not marker else head["call"] + "/" + head["ret"]), 0) + 1
    if has_pat != bool(marker):
        note("C_error_pattern block present", bool(marker), has_pat)
        return
    want_len = n_before + (2 if has_pat else 0) + n_after
    if len(code) != want_len:
        note("number of body statements", len(code), "%d = %s" % (want_len, ",".join(ops)))
        return
    if marker:
        scope = [o for o in ops if o.startswith("pattern:")][0].split(":")[1]
        if marker[0] != n_before:
            note("position of the C_error_pattern block", marker[0], n_before)
        # the block is expanded in the scope the model names: {cxx_var} is the variable that received the call's result
        if scope == "result" and "cxx_var" in fmt_res:
            blk = code[marker[0] + 1]
            if not re.search(r"\b%s\b" % re.escape(fmt_res.cxx_var), blk):
                note("variable read by the C_error_pattern block", blk, fmt_res.cxx_var)
    conv = [o.split(":")[1] for o in ops if o.startswith("conv:")]
    real_conv = classify_result_conv(code, fmt_res)
    if conv and conv[0] in ("castInt", "cStr", "other7") and real_conv != conv[0]:
        note("conversion of the result", real_conv, conv[0])
    if not conv and real_conv in ("castInt", "cStr", "other7"):
        note("conversion of the result", real_conv, None)


def compare(ctx, reply, cls, node, body, names, bad, tag, stats, rows={}):
    from shroud import statements
    head, margs = parse_reply(reply)
    body, res_stmt1, language, real_need = body
    fmt = node.fmtdict
    ast = node.ast
    where = "%s:%s" % (tag, node.declgen)
    plain = node.generated_suffix == "" if hasattr(node, "generated_suffix") else True

    def note(kind, real, model):
        bad.append({"where": where, "what": kind, "real": real, "model": model})

    # is a wrapper generated at all (a C library function that needs no inserted code is called under its own name)
    stats["lang:%s need:%s" % (language, real_need)] = stats.get("lang:%s need:%s" % (language, real_need), 0) + 1
    if head.get("need") is not None and (head["need"] == "true") != real_need and not node.fstatements:
        note("wrapper needed", real_need, head["need"])
    if not real_need and fmt.C_name != node.ast.name:
        note("C name of a function without wrapper", fmt.C_name, node.ast.name)
    # result statement
    rname = names.get(head["e"], "c_default") if head["e"] != "-" else "c_default"
    has_local = bool(node.fstatements.get(statements.compute_name(["c", node.generated_suffix]), None))
    fmt_res = (node._fmtresult or {}).get("fmtc", None)
    if fmt_res is None or not fmt_res.inlocal("stmt1"):
        fmt_res = fmt
    if not has_local and res_stmt1 != rname:
        note("result statement", res_stmt1, rname)
    stats["stmt:%s" % res_stmt1] = stats.get("stmt:%s" % res_stmt1, 0) + 1
    # prototype
    proto = []
    if head["this"] != "-":
        proto.append("{}{} * {}".format("const " if head["this"] == "const" else "", cls.typemap.c_type, fmt.C_this))
    calls = []
    if len(margs) != len(ast.params):
        note("argument count", len(ast.params), len(margs))
        return
    res_blk = statements.lookup_fc_stmts(["c"])  # only c_arg_decl is read; plain result entries have none
    proto += render_proto(lst(head["rproto"]), ast, fmt_res, res_blk)
    for arg, m in zip(ast.params, margs):
        fa = node._fmtargs[arg.name]["fmtc"]
        aname = names.get(m["e"], "c_default") if m["e"] != "-" else "c_default"
        if fa.stmt1 != aname:
            note("argument statement %s" % arg.name, fa.stmt1, aname)
        stats["stmt:" + fa.stmt1] = stats.get("stmt:" + fa.stmt1, 0) + 1
        blk = statements.lookup_fc_stmts(fa.stmt0.split("_"))
        proto += render_proto(lst(m["proto"]), arg, fa, blk)
        c = expected_call(m["call"], fa)
        if c is not None:
            calls.append(c)
    proto += render_proto(lst(head["tail"]), ast, fmt_res, res_blk, name=getattr(fmt_res, "shadow_var", None))
    real_proto = fmt.C_prototype
    if node.options.get("C_prototype", None):
        pass
    elif real_proto != (",\t ".join(proto) if proto else "void"):
        note("prototype", real_proto.split(",\t "), proto)
    real_calls = fmt.C_call_list.split(",\t ") if fmt.inlocal("C_call_list") and fmt.C_call_list else []
    if real_calls != calls:
        note("call list", real_calls, calls)
    # body shape (plain API only; a forced splicer replaces the body)
    if body is not None and plain:
        setup, code = body
        if code is not None and not has_local:
            # the conversion that creates each argument's C++ local, as the model predicts it
            for arg, m in zip(ast.params, margs):
                toks = [t for t in lst(m["pre"]) if not t.startswith("other")]
                if len(toks) != 1 or len(lst(m["pre"])) != 1:
                    continue
                fa = node._fmtargs[arg.name]["fmtc"]
                real_conv = classify_conversion(code, fa.cxx_var, fa.c_var)
                stats["conv:%s" % real_conv] = stats.get("conv:%s" % real_conv, 0) + 1
                if real_conv != toks[0]:
                    note("conversion of argument %s" % arg.name, real_conv, toks[0])
        this_real = "-"
        for l in setup:
            if fmt.CXX_this in l:
                this_real = "const" if l.strip().startswith("const ") else "mut"
        if this_real != head["this"]:
            note("this set-up", this_real, head["this"])
        if code is not None and not has_local:
            check_body_order(head, code, names, rows.get(language, {}), node, fmt_res, note, stats)
            rr = classify_return(code, fmt)
            if rr != head["ret"] and not (head["ret"] == "derefCxx" and rr == "cvar2"):  # cxx_var may be SHC_rv itself
                note("return statement", rr, head["ret"])
            cc = classify_call(code, fmt)
            if head["call"] != "other" and cc != head["call"]:
                note("call statement", cc, head["call"])
            stats["ret:" + rr] = stats.get("ret:" + rr, 0) + 1


def expected_c_name(cls, node):
    """C name from the documented template, evaluated by the harness"""
    fmt = node.fmtdict
    tmpl = node.options.C_name_template
    vals = {k: getattr(fmt, k) for k in ("C_prefix", "C_name_scope", "underscore_name", "function_suffix", "template_suffix",
                                         "function_name", "library", "class_scope", "namespace_scope", "cxx_class", "F_name_scope")
            if hasattr(fmt, k)}
    try:
        return tmpl.format(**vals)
    except (KeyError, IndexError):
        return None


TM_NAME = {"bool": "bool", "char": "char", "cstr": "char", "string": "std::string", "enum": "Color", "struct": "Pt",
           "fnptr": "int", "cstrarr": "char", "voidarr": "void"}
MODE = {"val": "scalar", "ptr": "*", "ref": "&", "pp": "**", "pr": "*&"}


def sig_of(p, tm):
    if p.fam in ("cstrarr", "voidarr"):
        return (TM_NAME[p.fam], "**", False)
    return ((tm.get(p.t, p.t).replace(" ", "_")) if p.fam in ("native", "class", "enum") else TM_NAME[p.fam], MODE[p.mode], bool(p.const))


def documented_names(spec):
    """(class, C++ name or ctor/dtor, parameter types) -> C name by the documented rule, computed from the description"""
    out = {}
    for f in spec.funcs:
        for cname, nd, tt in spec.c_names(f):
            ps = list(f.params) + [p for p, _ in f.defaults[:nd]]
            tm = spec.tmap(f, tt)
            sig = tuple(sig_of(p, tm) for p in ps)
            if f.template:   # instantiations may differ in the result type only
                sig += (("result", tm.get(f.ret[1], f.ret[1]) if len(f.ret) > 1 else "void"),)
            out[(f.cls or "", f.kind if f.kind != "func" else f.name, sig)] = cname
    for cname_cls, t, fs in spec.tclass_instances():
        for f in fs:
            sig = tuple(sig_of(p, {"T": t}) for p in f.params)
            if any(p.t == "T" for p in f.params) or f.ret[0] == "tparam":
                # members that mention T are instantiated per class instance; keyed with their result type
                res = cname_cls if f.kind == "ctor" else ({"T": t}.get(f.ret[1], f.ret[1]) if len(f.ret) > 1 else "void")
                sig += (("result", res),)
            out[(cname_cls, f.kind if f.kind != "func" else f.name, sig)] = spec.c_names(f)[0][0]
    return out


def node_key(cls, node):
    ast = node.ast
    kind = "ctor" if ast.is_ctor() else ("dtor" if ast.is_dtor() else ast.name)
    sig = tuple((a.typemap.name, a.get_indirect_stmt(), bool(a.const)) for a in ast.params)
    if node._generated == "cxx_template":
        sig += (("result", ast.typemap.name),)
    return (cls.fmtdict.cxx_class if cls is not None else "", kind, sig)


def check_documented_names(ctx, spec, lib, shapes):
    want = documented_names(spec)
    got = {}
    nodes = {}
    for cls, node in walk_functions(lib):
        if node.wrap.c and node.fmtdict.inlocal("C_name"):
            got[node_key(cls, node)] = node.fmtdict.C_name
            nodes[node.fmtdict.C_name] = node
    # an instantiation `name<types>` of a function template is called with its explicit template arguments (a call
    # without them goes through overload resolution and may reach an ordinary function of the same name)
    for f in spec.funcs:
        if not f.template:
            continue
        for cname, _nd, inst in spec.c_names(f):
            node = nodes.get(cname)
            if node is None:
                continue
            ctx.count(1)
            real = (node.fmtdict.CXX_template if "CXX_template" in node.fmtdict else "").replace(" ", "")
            if real != "<%s>" % ",".join(inst):
                ctx.fail("c02:template-call-not-explicit:%dx%d" % (len(f.tparams), len(f.template)),
                         "%s is documented to call %s<%s> but the call expression carries the template arguments %r" % (
                             cname, f.name, ", ".join(inst), real),
                         {"yaml": spec.yaml(), "function": spec.fdecl(f)["decl"], "expected": "<%s>" % ",".join(inst), "actual": real})
                return
    sh = ",".join(sorted(spec.overload_shapes())) or "-"
    for s in spec.overload_shapes() + spec.variant_shapes():
        shapes[s] = shapes.get(s, 0) + 1
    for k, cname in sorted(want.items()):
        ctx.count(1)
        if got.get(k) != cname:
            ctx.fail("c02:documented-c-name:%s" % sh,
                     "%s%s(%s) must be reachable as %s (position among all overloads of the name, explicit suffix for that member "
                     "only) but the generated C name is %s" % (k[0] + "::" if k[0] else "", k[1], ", ".join(" ".join(str(y) for y in x) for x in k[2]),
                                                               cname, got.get(k)),
                     {"yaml": spec.yaml(), "function": "%s %s %s" % k, "expected": cname, "actual": got.get(k),
                      "generated_names": sorted(got.values())})
            return


def run_tie(ctx, ok, thorough, xinfo):
    from shroud import statements, wrapc
    from tools import extract_cstmts as xc
    from tools.gen import cxxgen
    _info, data, ids, partnames, entries = xinfo
    it = Interner(ids)
    names = {str(i): "_".join(r["key"]) for i, r in enumerate(data["rows"])}
    rows = {"cxx": {str(i): r for i, r in enumerate(data["rows"])},
            "c": {str(i): r for i, r in enumerate(data.get("rows_c", data["rows"]))}}
    drv = common.Driver("drv_wrapc")
    r = common.rng("c02-tie")
    bad = []
    stats = {}
    shapes = {}

    captured = {}
    bodies = {}
    snaps = {}
    orig_wrap_library = wrapc.Wrapc.wrap_library
    orig_wrap_function = wrapc.Wrapc.wrap_function
    orig_splicer = wrapc.Wrapc._create_splicer
    cur = {}

    def spy_lib(self, *a, **k):
        captured["lib"] = self.newlibrary
        captured["language"] = self.language
        return orig_wrap_library(self, *a, **k)

    def spy_fn(self, cls, node):
        cur["node"] = node
        res = orig_wrap_function(self, cls, node)
        fr = (node._fmtresult or {}).get("fmtc", None)
        if fr is None or not fr.inlocal("stmt1"):
            fr = node.fmtdict
        snaps[id(node)] = fr.stmt1 if "stmt1" in fr else None
        return res

    def spy_spl(self, name, out, default=None, force=None):
        node = cur.get("node")
        if node is not None and out is self.impl:
            # lines between the opening `{+` and the splicer are the `this` set-up
            setup = []
            for l in reversed(out):
                if l == "{+":
                    break
                setup.append(l)
            bodies[id(node)] = (list(reversed(setup)), list(default) if default is not None else None)
        return orig_splicer(self, name, out, default, force)

    work = common.scratch()
    reqs, meta = [], []
    ovr_reqs, ovr_real = [], []
    # ---- (1) lookup correspondence over the whole key domain (tree of the c++ run)
    lk_reqs, lk_real = [], []
    try:
        wrapc.Wrapc.wrap_library = spy_lib
        wrapc.Wrapc.wrap_function = spy_fn
        wrapc.Wrapc._create_splicer = spy_spl
        # generated descriptions
        nlib = 40 if thorough else 12
        for i in range(nlib + 1):
            spec = cxxgen.fixed_spec("tgf") if i == nlib else cxxgen.gen_spec(r, "tg%d" % i, rich=True)
            d = os.path.join(work, "g%d" % i)
            os.makedirs(d)
            y = shroudrun.write_yaml(d, spec.name + ".yaml", spec.yaml())
            captured.clear(); bodies.clear(); snaps.clear(); cur.clear()
            cfg, exc, out = shroudrun.run_inproc([y], d)
            if exc is not None or "lib" not in captured:
                ctx.fail("c02:shroud-exception:%s" % type(exc).__name__, "Shroud failed on a generated description: %r" % (exc,),
                         {"yaml": spec.yaml()})
                continue
            check_library(ctx, captured["lib"], dict(bodies), dict(snaps), it, xc, names, "gen%d" % i, reqs, meta, captured["language"])
            check_documented_names(ctx, spec, captured["lib"], shapes)
            # C names: documented template, distinct
            seen = {}
            for cls, node in walk_functions(captured["lib"]):
                if not node.wrap.c or not node.fmtdict.inlocal("C_name"):
                    continue
                want = expected_c_name(cls, node)
                ctx.count(1)
                if want is not None and node.fmtdict.C_name != want:
                    bad.append({"where": "gen%d:%s" % (i, node.declgen), "what": "C name", "real": node.fmtdict.C_name, "model": want})
                if node.fmtdict.C_name in seen:
                    ctx.fail("c02:duplicate-c-name", "two wrapped signatures share the C name %s" % node.fmtdict.C_name,
                             {"yaml": spec.yaml(), "function": node.declgen, "other": seen[node.fmtdict.C_name]})
                seen[node.fmtdict.C_name] = node.declgen
            if i == 0:
                # lookup domain on the tree as configured for c++
                sg = ["native", "bool", "char", "string", "shadow", "struct", "vector", "void", "unknown", "zzz"]
                sp = ["scalar", "*", "&", "**", "*&", "[]"]
                intents = ["in", "out", "inout", "result", "ctor", "dtor", None]
                sfx = ["", "buf", "cfi"]
                ext = [None, "allocatable", "pointer", "raw", "scalar", "cdesc", "caller", "native", "string", "result-as-arg"]
                for a in sg:
                    for b in sp:
                        for c in intents:
                            for s in sfx:
                                for e in ext:
                                    for e2 in (None, "caller") if thorough else (None,):
                                        path = ["c", a, b, c, s, e, e2]
                                        lk_reqs.append("lookup " + ",".join(str(it(p)) for p in path))
                                        lk_real.append(statements.lookup_fc_stmts(path).name)
                # keys extended by a template argument's sgroup (lookup_c_statements: vector<native>, vector<string>, ...)
                for b in ("scalar", "*", "&"):
                    for c in ("in", "out", "inout", "result"):
                        for sx in ("", "buf", "cfi"):
                            for cd in (None, "cdesc"):
                                for targ in ("native", "string", "bool", "char", "shadow", "struct", "vector", "zzz"):
                                    for sgx in ("vector", "string", "native"):
                                        path = ["c", sgx, b, c, sx, cd, targ]
                                        lk_reqs.append("lookup " + ",".join(str(it(p)) for p in path))
                                        lk_real.append(statements.lookup_fc_stmts(path).name)
                for _ in range(3000 if thorough else 800):
                    path = ["c"] + [r.choice(partnames + ["zz", ""]) for _ in range(r.randrange(0, 7))]
                    lk_reqs.append("lookup " + ",".join(str(it(p)) for p in path))
                    lk_real.append(statements.lookup_fc_stmts(path).name)
            common.rmtree(d)
        # generated `language: c` libraries and c++ libraries with the result kinds cxxgen does not produce
        from tools.gen import c02langgen
        r2 = common.rng("c02-lang")
        lang_kinds = {}
        for lang, n in (("c", 30 if thorough else 10), ("c++", 30 if thorough else 10)):
            for i in range(n):
                spec = c02langgen.gen_spec(r2, "lg%s%d" % ("c" if lang == "c" else "x", i), lang)
                d = os.path.join(work, "l%s%d" % (lang[:1] + str(len(lang)), i))
                os.makedirs(d)
                y = shroudrun.write_yaml(d, spec.name + ".yaml", spec.yaml())
                captured.clear(); bodies.clear(); snaps.clear(); cur.clear()
                cfg, exc, out = shroudrun.run_inproc([y], d)
                if exc is not None or "lib" not in captured:
                    ctx.fail("c02:shroud-exception:%s:%s" % (lang, type(exc).__name__),
                             "Shroud failed on a generated %s description: %r" % (lang, exc), {"yaml": spec.yaml()})
                    continue
                for k, v in spec.kinds.items():
                    lang_kinds["%s %s" % (lang, k)] = lang_kinds.get("%s %s" % (lang, k), 0) + v
                check_library(ctx, captured["lib"], dict(bodies), dict(snaps), it, xc, names, "%s-gen%d" % (lang, i), reqs, meta,
                              captured["language"])
                common.rmtree(d)
        ctx.note("language_tie_distribution", dict(sorted(lang_kinds.items())))
        # declaration-level `fstatements: {c: {...}}` overrides: which clauses of the merged statements come from the
        # dictionary (real lookup_local_stmts as called by wrap_function) versus the model's localStmts / applyOverride
        CLAUSES = ["cxx_local_var", "c_local_var", "buf_args", "buf_extra", "c_arg_decl", "arg_call", "pre_call", "call",
                   "post_call", "ret", "return_type", "owner"]
        name_idx = {"cxx": {"_".join(rw["key"]): k for k, rw in rows["cxx"].items()},
                    "c": {"_".join(rw["key"]): k for k, rw in rows["c"].items()}}
        orig_lls = statements.lookup_local_stmts
        lls = {}

        def spy_lls(path, parent, node):
            res = orig_lls(path, parent, node)
            lls[node.ast.name] = (path, parent, res)
            return res
        statements.lookup_local_stmts = spy_lls
        ovr_kinds = {}
        try:
            for lang, n in (("c", 16 if thorough else 6), ("c++", 16 if thorough else 6)):
                for i in range(n):
                    spec = c02langgen.gen_spec(r2, "lf%s%d" % ("c" if lang == "c" else "x", i), lang, fstatements=True)
                    d = os.path.join(work, "f%s%d" % (lang[:1] + str(len(lang)), i))
                    os.makedirs(d)
                    y = shroudrun.write_yaml(d, spec.name + ".yaml", spec.yaml())
                    captured.clear(); bodies.clear(); snaps.clear(); cur.clear(); lls.clear()
                    cfg, exc, out = shroudrun.run_inproc([y], d)
                    common.rmtree(d)
                    if exc is not None or "lib" not in captured:
                        ctx.fail("c02:shroud-exception:fstatements:%s:%s" % (lang, type(exc).__name__),
                                 "Shroud failed on a generated %s description with fstatements: %r" % (lang, exc), {"yaml": spec.yaml()})
                        continue
                    for k, v in spec.kinds.items():
                        if k.startswith("fstatements:"):
                            ovr_kinds["%s %s" % (lang, k)] = ovr_kinds.get("%s %s" % (lang, k), 0) + v
                    L = "c" if lang == "c" else "cxx"
                    for fname, (named, mode) in sorted(spec.overrides.items()):
                        if fname not in lls:
                            continue
                        path, parent, res = lls[fname]
                        real = ""
                        for cl in CLAUSES:
                            v = res.get(cl, None)
                            if cl in named and v == c02langgen.OVR_VALUES[cl]:
                                real += "o"
                            elif v == parent.get(cl, None):
                                real += "b"
                            else:
                                real += "?"
                        # implementation only: the dictionary replaces exactly the clauses it names (mode update), nothing else
                        want = "".join("o" if (cl in named and (mode or "update") == "update") else "b" for cl in CLAUSES)
                        if real != want:
                            wrong = [cl for cl, a, b in zip(CLAUSES, real, want) if a != b]
                            ctx.fail("c02:fstatements-override:%s" % ",".join(wrong),
                                     "fstatements {c: ...} of %s names %s (mode %s): the statements used for the function must take "
                                     "exactly these clauses from the dictionary and every other clause from the looked-up entry %s; "
                                     "differs for %s" % (fname, named, mode, parent.name, wrong),
                                     {"yaml": spec.yaml(), "function": fname, "expected": want, "actual": real,
                                      "values": {cl: repr(res.get(cl, None)) for cl in wrong}})
                        idx = name_idx[L].get(parent.name, "-")
                        ovr_reqs.append("ovr %s %s 1%d %s" % ("c" if lang == "c" else "x", idx, int((mode or "update") == "update"),
                                                              ",".join(str(CLAUSES.index(c)) for c in named) or "-"))
                        ovr_real.append((real, "%s:%s named=%s mode=%s base=%s" % (spec.name, fname, named, mode, parent.name), spec.yaml()))
        finally:
            statements.lookup_local_stmts = orig_lls
        ctx.note("fstatements_tie_distribution", dict(sorted(ovr_kinds.items())))
        # corpus
        corpus = [c for c in shroudrun.CORPUS if "wrap_c=false" not in c[2]]
        if not thorough:
            corpus = [c for c in corpus if c[0] in ("tutorial", "classes", "strings", "struct-cxx", "enum-cxx", "pointers-cxx",
                                                    "namespace", "templates", "ownership", "cxxlibrary", "scope", "forward",
                                                    "clibrary", "struct-c", "enum-c", "pointers-c")]
        for cname, _y, _e in corpus:
            d = os.path.join(work, "c-" + cname)
            os.makedirs(d)
            captured.clear(); bodies.clear(); snaps.clear(); cur.clear()
            cfg, exc, out = shroudrun.run_corpus_inproc(cname, d)
            if exc is None and "lib" in captured:
                check_library(ctx, captured["lib"], dict(bodies), dict(snaps), it, xc, names, cname, reqs, meta, captured["language"])
            common.rmtree(d)
    finally:
        wrapc.Wrapc.wrap_library = orig_wrap_library
        wrapc.Wrapc.wrap_function = orig_wrap_function
        wrapc.Wrapc._create_splicer = orig_splicer
        common.rmtree(work)

    ctx.count(len(lk_reqs) + len(reqs))
    ctx.note("overload_shapes_tie", dict(sorted(shapes.items())))
    ctx.note("lookup_requests", len(lk_reqs))
    ctx.note("function_requests", len(reqs))
    if not (ok and drv.available()):
        ctx.tie_broken("wrapc-correspondence", "driver not built")
        return
    rep = drv.run(lk_reqs)
    lbad = []
    for q, real, m in zip(lk_reqs, lk_real, rep):
        mname = names.get(m, "c_default") if m != "-" else "c_default"
        if mname != real:
            lbad.append({"request": q, "real": real, "model": mname})
        else:
            ctx.nontrivial(("lookup", real))
    if lbad:
        ctx.tie_broken("lookup-correspondence", lbad[:6])
    ctx.note("lookup_disagreements", len(lbad))
    ctx.note("lookup_distinct_entries_reached", len({x for x in lk_real}))
    orep = drv.run(ovr_reqs) if ovr_reqs else []
    obad = []
    for q, (real, where, y), m in zip(ovr_reqs, ovr_real, orep):
        ctx.count(1)
        if real != m:
            obad.append({"request": q, "where": where, "real": real, "model": m})
        else:
            ctx.nontrivial(("ovr", q.split(" ", 3)[2:] and q.split(" ")[3] + q.split(" ")[4]))
    ctx.note("fstatements_requests", len(ovr_reqs))
    if obad:
        ctx.tie_broken("fstatements-override-correspondence", obad[:6])
    rep = drv.run(reqs) if reqs else []
    fmeta = [m for m in meta if m[0] == "func"]
    errs = [m for m in meta if m[0] == "error"]
    for (kind, tag, cls, node, body), reply in zip(fmeta, rep):
        if reply == "bad-op":
            bad.append({"where": tag, "what": "driver rejected request", "real": node.declgen, "model": reply})
            continue
        compare(ctx, reply, cls, node, body, names, bad, tag, stats, rows)
        ctx.nontrivial(("func", reply))
    if errs:
        bad += [{"where": e[1], "what": "request construction failed", "real": e[2], "model": e[3]} for e in errs[:3]]
    if bad:
        ctx.tie_broken("assembly-correspondence", bad[:8])
    ctx.note("assembly_disagreements", len(bad))
    ctx.note("assembly_distribution", dict(sorted(stats.items())))
    for q, a in list(zip(reqs, rep))[:2]:
        ctx.sample({"request": q[:300], "model": a[:400]})


def lang_oracle(ctx, thorough):
    """Implementation only (no model): generated `language: c` libraries and c++ libraries with enum pointer / reference
    results, deref(scalar) and C_error_pattern.  (1) every generated wrapper file must compile against the library's own header
    (gcc / g++ -fsyntax-only -Werror: a by-value cast applied to a pointer, a missing dereference, a conversion in a C library
    are type errors); (2) in a C library the wrapper passes exactly its own parameters, in declaration order, and applies no
    cast; (3) the C_error_pattern block follows the statement that makes the C++ call (for a constructor: the call clause) and
    precedes the capsule assignments of a class result, the conversion of the result and the return statement."""
    import subprocess
    from tools.gen import c02langgen
    r = common.rng("c02-lang-oracle")
    work = common.scratch()
    seen = {}
    try:
        for lang, n in (("c", 40 if thorough else 14), ("c++", 20 if thorough else 6)):
            for i in range(n):
                spec = c02langgen.gen_spec(r, "lo%s%d" % ("c" if lang == "c" else "x", i), lang)
                d = os.path.join(work, "o%d%d" % (len(lang), i))
                os.makedirs(d)
                y = shroudrun.write_yaml(d, spec.name + ".yaml", spec.yaml())
                with open(os.path.join(d, spec.name + (".h" if lang == "c" else ".hpp")), "w") as f:
                    f.write(c02langgen.header(spec))
                cfg, exc, out = shroudrun.run_inproc([y], d)
                if exc is not None:
                    ctx.fail("c02:lang:shroud-exception:%s:%s" % (lang, type(exc).__name__),
                             "Shroud failed on a generated %s description: %r" % (lang, exc), {"yaml": spec.yaml()})
                    continue
                srcs = sorted(f for f in os.listdir(d) if f.startswith("wrap") and f.endswith(".c" if lang == "c" else ".cpp"))
                for src in srcs:
                    ctx.count(1)
                    cmd = (["gcc", "-std=c99"] if lang == "c" else ["g++", "-std=c++11"]) + ["-fsyntax-only", "-Werror", "-I", d, os.path.join(d, src)]
                    p = subprocess.run(cmd, stdout=subprocess.PIPE, stderr=subprocess.STDOUT, text=True)
                    if p.returncode and lang == "c":
                        errs = [l for l in p.stdout.split("\n") if "error:" in l]
                        notes = [l for l in p.stdout.split("\n") if "note: expected" in l]
                        if errs and all("incompatible-pointer-types" in l for l in errs) and notes and \
                                all(re.search(r"expected .(const )?Color \*. but argument is of type .(const )?int \*.", l) for l in notes):
                            # known finding: an enum behind a pointer is declared `int *` in the wrapper of a C library and handed
                            # to the `enum Color *` parameter without a cast (same address at run time; a constraint violation in C)
                            fn = re.findall(r"In function .([^'’]+).", p.stdout)[:1]
                            ctx.fail("c02:lang:c-enum-pointer-incompatible-type",
                                     "wrapper of a C library passes `int *` to an `enum Color *` parameter without a cast",
                                     {"yaml": spec.yaml(), "function": fn[0] if fn else None, "expected": "compiles without diagnostics",
                                      "actual": p.stdout[:1200]})
                            p = subprocess.run(cmd + ["-Wno-incompatible-pointer-types"], stdout=subprocess.PIPE,
                                               stderr=subprocess.STDOUT, text=True)
                    if p.returncode:
                        err = [l for l in p.stdout.split("\n") if "error" in l][:3]
                        fn = re.findall(r"In function .([^'’]+).:", p.stdout)[:1]
                        code = open(os.path.join(d, src)).read()
                        ctx.fail("c02:lang:does-not-compile:%s" % lang,
                                 "the generated %s of a %s library does not compile against the library's header: %s" % (src, lang, " / ".join(err)),
                                 {"yaml": spec.yaml(), "function": fn[0] if fn else None, "expected": "compiles", "actual": p.stdout[:1500],
                                  "header": c02langgen.header(spec), "generated": code[:6000]})
                        return
                    text = open(os.path.join(d, src)).read()
                    for m in re.finditer(r"\n(\w[^\n;{}]*?)\b(\w+)\(([^)]*)\)\n\{\n(.*?)\n\}\n", text, re.S):
                        rtype, cname, proto, body = m.groups()
                        if "splicer begin" not in body:
                            continue
                        lines = [l.strip() for l in body.split("\n") if l.strip() and not l.strip().startswith("// splicer")]
                        ctx.count(1)
                        seen["%s wrappers" % lang] = seen.get("%s wrappers" % lang, 0) + 1
                        rp = {"yaml": spec.yaml(), "function": cname, "generated": body}
                        if lang == "c":
                            params = [re.sub(r"\(\*(\w+)\)\(.*", r"\1", a).split()[-1].lstrip("*") for a in proto.split(",")
                                      if a.strip() != "void"] if proto.strip() else []
                            calls = [l for l in lines if re.search(r"\bf\d+\(", l)]
                            # the one conversion of a C library: a pointer to an enum (declared `int *`) cast to the library's type
                            enum_cast = dict((m2.group(2), m2.group(3)) for m2 in re.finditer(
                                r"(const )?Color \* (SHCXX_\w+) = \((?:const )?Color \*\) (\w+);", body))
                            rest = re.sub(r"(const )?Color \* SHCXX_\w+ = \((const )?Color \*\) \w+;", "", body)
                            if "static_cast" in rest or re.search(r"=\s*\([\w ]+\*?\)\s*\w", rest):
                                ctx.fail("c02:lang:c-wrapper-casts", "the wrapper %s of a C library converts a value (C and C have the same "
                                         "types: nothing is to be converted)" % cname, dict(rp, expected="no cast", actual=body[:400]))
                                return
                            if len(calls) == 1:
                                got = [a.strip() for a in re.search(r"\bf\d+\((.*)\);", calls[0]).group(1).split(",") if a.strip()]
                                got = [enum_cast.get(a, a) for a in got]
                                if got != params:
                                    ctx.fail("c02:lang:c-wrapper-arguments", "the wrapper %s of a C library must hand its own parameters to the "
                                             "library function unchanged and in declaration order" % cname,
                                             dict(rp, expected=params, actual=got))
                                    return
                                ctx.nontrivial(("lang-c-args", len(params)))
                        mk = [j for j, l in enumerate(lines) if l == "// C_error_pattern"]
                        if mk:
                            j = mk[0]
                            seen["%s pattern blocks" % lang] = seen.get("%s pattern blocks" % lang, 0) + 1
                            is_ctor = any(re.search(r"=\s*new\s+\w+\(", l) for l in lines)
                            before, after = lines[:j], lines[j + 1:]
                            call_at = [k for k, l in enumerate(before) if re.search(r"(\b[fm]\d+|\b(self|ref|byval)\d+|new\s+\w+)\(", l)]
                            ok = bool(call_at) and (is_ctor or call_at[-1] == len(before) - 1)
                            ok = ok and not any(l.startswith("return") for l in before)
                            ok = ok and (is_ctor or not any("->addr =" in l or "->idtor =" in l for l in before))
                            ok = ok and any(l.startswith("return") for l in after[-1:])
                            ctx.nontrivial(("lang-pattern", lang, is_ctor, rtype.strip()))
                            if not ok:
                                ctx.fail("c02:lang:error-pattern-position:%s" % lang,
                                         "the C_error_pattern block of %s must directly follow the call of the library function and precede "
                                         "post_call / conversion / return" % cname, dict(rp, expected="call; block; post_call; return", actual=lines))
                                return
                common.rmtree(d)
    finally:
        common.rmtree(work)
    ctx.note("language_oracle", dict(sorted(seen.items())))


def run(ctx):
    thorough = ctx.tier == "thorough"
    from tools import extract_cstmts
    xinfo = extract_cstmts.regenerate()
    ctx.note("translator", xinfo[0])
    if xinfo[0].get("unmapped"):
        # a template line / conversion pattern the pattern table does not know: written as op 99 (the table theorems fail),
        # reported as a broken tie; the oracle below searches for the failing input
        ctx.tie_broken("translator-unmapped-line", xinfo[0]["unmapped"][:6])
    ok = ctx.lean(MODULES, THEOREMS, extra_targets=("drv_wrapc",))
    ctx.cov["trusted_base"] = [
        "Lean 4.33.0 kernel; axioms within {propext, Classical.choice, Quot.sound}",
        "tools/extract_cstmts.py: pattern table giving each template line / conversion pattern its op code and variable slots",
        "Model/WrapC.lean: abstract semantics of C++ argument passing (evalCall/resolve), per-argument environments, hand-written "
        "assembleC validated by correspondence on generated libraries and the corpus",
        "g++/gcc 12 with -fsanitize=address,undefined for the oracle",
    ]
    ctx.cov["rule"] = ("lookup correspondence: every key of sgroup x spointer x intent x suffix x deref/owner plus random paths; assembly "
                       "correspondence: every C-wrapped function of generated C++ libraries and the C++ corpus (statement names, prototype, "
                       "call list, this, return/call shape, C name); oracle: every wrapped function of the compiled libraries x value rounds; "
                       "non-trivial = distinct entry reached / distinct model reply / distinct (declaration kind) executed")
    ctx.cov["not_modelled"] = UNMODELLED
    ctx.assumptions += [
        "parameter names of one function are distinct, so each argument's wrapper operations touch only its own c_var/cxx_var",
        "the C caller passes values of the prototype's types (wellTyped); capsules passed for class arguments hold live objects",
        "argument kinds listed under not_modelled are outside the proved statement (`_partial`)",
        "an enum's underlying type has the size of int (the C API declares enums as int; pointers to enums are converted as pointers)",
    ]
    try:
        run_tie(ctx, ok, thorough, xinfo)
    except Exception as e:   # a changed tree must not take the harness down: broken tie, then the oracle searches
        import traceback
        ctx.tie_broken("correspondence-harness-exception", traceback.format_exc()[-1500:])
    try:
        lang_oracle(ctx, thorough)
    except Exception:
        import traceback
        ctx.tie_broken("language-oracle-exception", traceback.format_exc()[-1500:])
    from tools import c02_oracle
    c02_oracle.run(ctx, thorough)


def replay(path):
    d = json.load(open(path))
    for f in d.get("failing", []):
        print(f["key"], "|", f["what"])
        rp = f.get("replay", {})
        print(rp.get("yaml", "")[:3000])
        for k in ("function", "values", "expected", "actual"):
            if k in rp:
                print(k, ":", rp[k])
    for b in d.get("no_longer_checks", []):
        print(b["kind"], b["name"], str(b["detail"])[:1500])
    return 0
