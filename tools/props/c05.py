"""C05 Every accepted input yields wrapper sources that compile and link.

PARTIAL by construction: compiler acceptance has no Lean model.
 * proved (Props/C05.lean over Model/Helpers.lean): the helper dependency closure (gather_helper_code, four
   copies), closedness/acyclicity of the regenerated helper tables, placeholder closure of the regenerated
   statement templates, #if/#endif and extern "C" balance of util.Header.write_headers and of the four wrapc
   file skeletons;
 * tie (T): tools/extract_helpers.py regenerates Gen/Helpers.lean from the working tree on every run;
 * proved (Props/C05Dox.lean over Model/Doxygen.lean): write_doxygen keeps every line of brief/description/return inside the
   comment (tie: the real util.WrapperMixin.write_doxygen on random texts vs the model driver op `dox`);
 * tie (D): the real gather_helper_code of Wrapc/Wrapf/Wrapp/Wrapl (instances taken from a real run, fresh
   process) vs the model driver on the real graphs and on random graphs; the real util.Header.write_headers
   on random header states and the real Wrapc.write_header/write_impl/write_header_utility/
   write_impl_utility vs the model;
 * oracle (exploration, implementation only): real Shroud into scratch directories for the upstream corpus
   and generated libraries x option variants, every written file through gcc/g++/gfortran front ends.
"""
import concurrent.futures
import json
import multiprocessing
import os
import re
import types

from tools import common, shroudrun

LEVEL = "proof"
MANIFEST = dict(
    category="proof",
    text="PARTIAL. Proved in Lean 4 (36 theorems, for all inputs unless a table is named): (1) helper dependency closure used by all four "
         "emitters (gather_helper_code, DFS with a done set): terminates on every table, emits exactly the requested helpers and their "
         "transitive dependencies, each once, and on acyclic tables every helper after its dependencies (order fails on a cycle: witness); "
         "the helper set shared between modules is the union of the modules' sets, so every helper any module (library, namespace, "
         "class file) asks for reaches the utility file with its dependencies (utility_covers_every_module; that every module's set IS "
         "merged before write_impl_utility is checked by a tie on real runs); "
         "(2) table theorems over data regenerated from the working tree on every run: CHelpers/FHelpers/LuaHelpers closed (no KeyError) and "
         "acyclic (kernel-checked rank certificate); every {field} placeholder of every fc/py/lua statement template is a format field that "
         "exists for its entry kind; every iso_c_binding symbol named by a declaration template of a statement entry is supplied by the "
         "entry's f_module / f_module_line (f_ entries: or by the emitter's literal additions), and every symbol named by a literal "
         "declaration wrapf.py writes itself (struct members, size/len/capsule arguments) by a set_f_module call of the same block; (3) Header.write_headers and the bracket "
         "lines of the four C wrapper file skeletons are #if/#endif- and extern-C-balanced for every option combination; 'each header at "
         "most once' only as write_headers_includes_once_partial (hypothesis needed, unconditional statement refuted); (4) the Fortran "
         "USE/IMPORT bookkeeping is a merge: exact, monotone, complete, order-independent as a set, and the USE lines list every required "
         "symbol (an empty ONLY dict followed by a symbol request narrows 'use m': witness only_clause_can_narrow); (5) the doxygen block of a "
         "declaration (util.WrapperMixin.write_doxygen, user text brief/description/return) stays inside the comment for ALL texts: every "
         "appended element is the begin line, the end line or starts with the continuation prefix, holds no newline (one physical line) "
         "and no tab / form feed of the text; Fortran instance: every element starts with '!'; a text without those characters is written "
         "verbatim. NOT proved: that "
         "gcc/g++/gfortran accept the emitted text and that the objects link. That part is an exploration oracle: real Shroud on the 50 "
         "upstream configurations x 14 option variants, on generated libraries (libgen, pygen, luagen, c05gen options x features matrix, "
         "incl. classes whose cxx_header lists several not self-contained headers in a non-alphabetical required order, with and without "
         "destructor, and multi-line doxygen texts) x "
         "{c,c++} x wrapper subsets x F_CFI x {debug,doxygen,literalinclude,show_splicer_comments} x line lengths; every written file "
         "through -fsyntax-only (headers alone from C and C++, Fortran in module order, cpp_if macros undefined and defined, Python against "
         "CPython headers, Lua against an emulator header), and a LINK step: all generated C/C++/Fortran objects plus the library "
         "implementation (upstream sources, or a synthesized stub for generated libraries) into one shared object with --no-undefined.",
    design="3 C05",
    note="Category 'proof' covers only the logic part (1)-(4). Compilation and linking are observed on sampled inputs, never proved. Generated "
         "files are compiled without -w (it silences -Werror=... diagnostics): implicit function declarations in C and Fortran lines "
         "beyond 132 columns are errors. The link step links C/C++/Fortran wrapper objects only (no Python/Lua extension objects); thorough tier: every upstream configuration that "
         "ships sources and every generated library, quick tier: 8 configurations and a quarter of the generated libraries. NumPy-using Python "
         "files are skipped (headers absent); Lua files compile against tools/ccheck/luaemu, not Lua. A committed baseline "
         "(corpus/c05_baseline.json, rewritten only by `python -m tools.props.c05 --write-baseline`) makes every file/link that used to "
         "succeed a failing input when it fails; a file of the baseline's list of written files that is no longer written is a failing input too; the 'library header does not declare it' exclusion applies only to upstream configurations "
         "without a shipped header and never to generated libraries. Trusted: Lean kernel; tools/extract_helpers.py (helper tables, "
         "placeholder/provided-field sets = union over real corpus runs + AST scan, an over-approximation; declaration-symbol rows use "
         "literal C_* tokens, {f_type} of explicit interface declarations counted as {f_kind}; the emitter's own additions are one global "
         "set); hand-written models of gather_helper_code, write_headers, the wrapc skeletons and the USE/IMPORT merge, validated "
         "differentially on every run.",
    technique="Lean 4 proof (induction on DFS depth with a done-set measure, list-merge lemmas, decide +kernel over regenerated tables) + "
              "differential correspondence (six ties) + compile-and-link exploration oracle with committed baseline",
)
MODULES = ["ShroudVerif.Props.C05", "ShroudVerif.Props.C05Dox"]
THEOREMS = {
    "ShroudVerif.Props.C05": [
        "Shroud.Helpers.gather_emits_closure_exactly_once",
        "Shroud.Helpers.gather_dependency_closed",
        "Shroud.Helpers.gather_emits_after_dependencies",
        "Shroud.Helpers.gather_order_fails_on_cycle",
        "Shroud.Helpers.gather_terminates",
        "Shroud.Helpers.gather_ok_of_closed",
        "Shroud.Helpers.gather_keyError_on_dangling",
        "Shroud.Helpers.chelpers_closed",
        "Shroud.Helpers.fhelpers_closed",
        "Shroud.Helpers.luahelpers_closed",
        "Shroud.Helpers.chelpers_acyclic",
        "Shroud.Helpers.fhelpers_acyclic",
        "Shroud.Helpers.luahelpers_acyclic",
        "Shroud.Helpers.helper_tables_keys_nodup",
        "Shroud.Helpers.chelpers_gather_correct",
        "Shroud.Helpers.fhelpers_gather_correct",
        "Shroud.Helpers.luahelpers_gather_correct",
        "Shroud.Helpers.utility_covers_every_module",
        "Shroud.Helpers.utility_ok_on_chelpers",
        "Shroud.Helpers.placeholders_provided",
        "Shroud.Helpers.write_headers_if_balanced",
        "Shroud.Helpers.write_headers_extern_neutral",
        "Shroud.Helpers.write_headers_includes_once_partial",
        "Shroud.Helpers.write_headers_may_repeat",
        "Shroud.Helpers.skeletons_if_balanced",
        "Shroud.Helpers.skeletons_extern_balanced",
        "Shroud.FModule.fmodule_exact",
        "Shroud.FModule.fmodule_update_monotone",
        "Shroud.FModule.fmodule_update_complete",
        "Shroud.FModule.fmodule_update_order_independent",
        "Shroud.FModule.use_lines_cover",
        "Shroud.FModule.only_clause_can_narrow",
        "Shroud.FModule.fmodule_decl_covered",
    ],
    "ShroudVerif.Props.C05Dox": [
        "Shroud.Doxygen.write_doxygen_inside_comment",
        "Shroud.Doxygen.write_doxygen_fortran_all_comment",
        "Shroud.Doxygen.addText_verbatim",
    ],
}

# ---------------------------------------------------------------------------------------------- exclusions
# Corpus configurations that are not compile-checked, with the reason (Shroud must still exit successfully).
EXCLUDE_COMPILE = {
    "example": "splicer files carry placeholder prose ('top of module library splicer 1'); upstream does not compile it "
               "(no regression/run/example); needs ExClass1.hpp / sidre headers",
    "wrap": "wrap_fortran: true with wrap_c: false on single functions; the input file itself says 'This test is not compiled'",
}
# Symbols that belong to ANOTHER wrapped library of the upstream test (forward.yaml imports tutorial's generated types)
EXTERNAL_SYMBOLS = {"forward": ["tutorial_mod", "PY_Class1_Type"]}


def pool():
    ctx = multiprocessing.get_context("spawn")
    return concurrent.futures.ProcessPoolExecutor(max_workers=min(16, os.cpu_count() or 4), mp_context=ctx,
                                                  max_tasks_per_child=1)


# ---------------------------------------------------------------------------------------------- gather tie
def reach(graph, req):
    seen, todo = set(), list(req)
    while todo:
        n = todo.pop()
        if n in seen:
            continue
        seen.add(n)
        if n in graph:
            todo.extend(graph[n] or [])
    return seen


def is_acyclic(graph):
    state = {}

    def go(n):
        if state.get(n) == 2:
            return True
        if state.get(n) == 1:
            return False
        state[n] = 1
        for d in graph.get(n) or []:
            if d in graph and not go(d):
                return False
        state[n] = 2
        return True
    return all(go(n) for n in list(graph))


def gather_oracle(ctx, case, emitter, result):
    """implementation-only statement of theorems 1a/1b on one real result"""
    graph, req = case["graph"], case["req"]
    rp = {"table": case["table"], "graph": graph if len(graph) < 30 else "real table", "request": req, "emitter": emitter,
          "result": result}
    if result[0] == "recursion":
        ctx.fail("gather:%s:no-termination" % emitter,
                 "gather_helper_code (%s) recursed without bound (RecursionError) on a helper table with a dependency cycle" % emitter, rp)
        return
    if result[0] != "ok":
        if case.get("real"):
            ctx.fail("gather:%s:keyerror:%s" % (case["table"], result[1]),
                     "gather_helper_code raised KeyError(%r) for the request %s on the real %sHelpers table" % (
                         result[1], req, case["table"]), rp)
        return
    out = result[1]
    dups = sorted(set(x for x in out if out.count(x) > 1))
    if dups:
        ctx.fail("gather:%s:emitted-twice:%s" % (emitter, dups[0] if case.get("real") else "synthetic"),
                 "gather_helper_code (%s) emitted helper %r more than once for request %s" % (emitter, dups[0], req), rp)
    want = reach(graph, req)
    if set(out) != want:
        diff = sorted(want ^ set(out))
        ctx.fail("gather:%s:closure:%s" % (emitter, diff[0] if case.get("real") else "synthetic"),
                 "gather_helper_code (%s) emitted %s, the dependency closure of %s is %s" % (emitter, out, req, sorted(want)), rp)
    if is_acyclic(graph):
        pos = {x: i for i, x in enumerate(out)}
        for x in out:
            for d in graph.get(x) or []:
                if d in pos and pos[d] > pos[x]:
                    ctx.fail("gather:%s:order:%s" % (emitter, x if case.get("real") else "synthetic"),
                             "helper %r is emitted before its dependency %r (%s)" % (x, d, emitter), rp)
                    return


def model_gather_line(case):
    names = sorted(set(case["graph"]) | set(d for v in case["graph"].values() for d in (v or [])) | set(case["req"]))
    nid = {n: i for i, n in enumerate(names)}
    g = ";".join("%d:%s" % (nid[k], ",".join(str(nid[d]) for d in (v or []))) for k, v in case["graph"].items()) or "~"
    r = ",".join(str(nid[x]) for x in case["req"]) or "~"
    return "gather %s %s" % (g, r), names


def synth_graph(r):
    n = r.randrange(1, 9)
    pool_names = ["a", "B", "b1", "A_2", "z", "Zz", "m_m", "h10", "h9", "_x", "copy", "Copy", "k0", "k00"]
    names = r.sample(pool_names, n)
    style = r.random()
    g = {}
    for i, k in enumerate(names):
        if style < 0.4:        # acyclic: only later names
            cand = names[i + 1:]
        else:                  # anything, self loops and cycles included
            cand = names
        deps = [x for x in cand if r.random() < 0.35]
        r.shuffle(deps)
        if r.random() < 0.06:
            deps.append("missing_" + r.choice("xyz"))
        if r.random() < 0.1 and deps:
            deps.append(deps[0])      # a dependency listed twice
        g[k] = None if (not deps and r.random() < 0.5) else deps
    req = [x for x in names if r.random() < 0.4] or [names[0]]
    if r.random() < 0.05:
        req.append("missing_req")
    r.shuffle(req)
    return g, req


def gather_tie(ctx, r, data, ok, thorough):
    from tools import helpers_tie
    cases = list(read_corpus()[1])
    for t in ("C", "F", "L"):
        g = {k: list(v) for k, v in data["graphs"][t].items()}
        keys = sorted(g)
        singles = keys if (thorough or len(keys) < 60) else [k for k in keys if g[k]] + r.sample(keys, 40)
        for k in singles:
            cases.append({"table": t, "graph": g, "req": [k], "real": True})
        for _ in range(120 if thorough else 40):
            req = r.sample(keys, min(len(keys), r.randrange(1, 8)))
            cases.append({"table": t, "graph": g, "req": req, "real": True})
    for _ in range(1500 if thorough else 400):
        g, req = synth_graph(r)
        cases.append({"table": r.choice("CCFL"), "graph": g, "req": req})
    chunks = [cases[i::8] for i in range(8)]
    with pool() as ex:
        results = list(ex.map(helpers_tie.gather_worker, chunks))
    flat = []
    for ch, rs in zip(chunks, results):
        flat.extend(zip(ch, rs))
    lines, meta = [], []
    for case, res in flat:
        ln, names = model_gather_line(case)
        lines.append(ln)
        meta.append(names)
    drv = common.Driver("drv_helpers")
    mouts = drv.run(lines) if (ok and drv.available()) else [None] * len(lines)
    bad = []
    per_emitter = {}
    for (case, res), names, mo in zip(flat, meta, mouts):
        for em, real in res.items():
            ctx.count(1)
            per_emitter[em] = per_emitter.get(em, 0) + 1
            gather_oracle(ctx, case, em, real)
            if real[0] == "ok" and len(real[1]) > 1 and real[1] != sorted(real[1]):
                ctx.nontrivial(("gather", em, tuple(real[1])))
            if real[0] != "ok":
                ctx.nontrivial(("gather", em, "keyerror", real[1]))
            if mo is None:
                continue
            if mo.startswith("ok"):
                ids = [] if mo == "ok ~" else [int(x) for x in mo[3:].split(",")]
                m = ("ok", [names[i] for i in ids])
            elif mo.startswith("keyerror"):
                m = ("keyerror", names[int(mo.split()[1])])
            else:
                m = ("model", mo)
            if m != (real[0], real[1]):
                bad.append({"emitter": em, "table": case["table"], "graph": case["graph"] if not case.get("real") else "real",
                            "request": case["req"], "model": m, "real": real})
    if flat:
        ctx.sample({"gather": {"table": flat[-1][0]["table"], "graph": flat[-1][0]["graph"], "request": flat[-1][0]["req"],
                               "real": flat[-1][1]}})
    ctx.note("gather_tie", {"cases": len(flat), "per_emitter": per_emitter, "disagreements": len(bad)})
    if bad:
        ctx.tie_broken("gather_helper_code vs Model.Helpers.gatherHelperCode", bad[:5])


# ---------------------------------------------------------------------------------------------- header tie
def enc_list(ids):
    return ",".join(str(i) for i in ids) if ids else "~"


def hdr_args(h, hid):
    def ids(l):
        return enc_list([hid(x) for x in l])
    tms = ";".join("%s|%s|%s|%s|%d" % (ids(t["c"]), ids(t["x"]), ids(t["w"]), ids(t["i"]), 1 if t["b"] else 0)
                   for t in h["typemaps"]) or "~"
    return "%s %s %s %s %d %d %d %d" % (ids(h["cxx"]), ids(h["typemap"]), ids(h["shroud"]), tms,
                                        1 if h["field"] else 0, 1 if h["langC"] else 0, 1 if h["debug"] else 0, hid(h["util"]))


def strip_tokens(toks):
    """drop blank lines, comments and opaque content: the tie is about bracket and include lines"""
    return [t for t in toks if not (t == "B" or t.startswith("C") or t.startswith("b"))]


def py_if_balance(toks):
    d = 0
    for t in toks:
        if t.startswith("O"):
            d += 1
        elif t == "N":
            d -= 1
            if d < 0:
                return "endif-without-if"
        elif t == "E" and d == 0:
            return "else-without-if"
    return None if d == 0 else "unclosed-%d" % d


def py_ext_balance(toks):
    d = 0
    for t in toks:
        if t == "X":
            d += 1
        elif t == "Y":
            d -= 1
            if d < 0:
                return "close-without-open"
    return None if d == 0 else "unclosed-%d" % d


def header_tie(ctx, r, ok, thorough):
    from shroud import util
    from tools import helpers_tie
    names = ["<a.h>", "b.h", "<c>", "d.hpp", "<e.h>", "f.h", "util.h", "g.h"]
    drv = common.Driver("drv_helpers")
    lines, reals, states = [], [], []
    n = 4000 if thorough else 1200
    for _ in range(n):
        def pick(p=0.3, k=None):
            l = [x for x in names if r.random() < p]
            r.shuffle(l)
            if l and r.random() < 0.1:
                l.append(l[0])
            return l
        tms = []
        for _t in range(r.randrange(0, 4)):
            tms.append(dict(c=pick(0.25), x=pick(0.25), w=pick(0.15), i=pick(0.25), b=r.random() < 0.3))
        st = dict(cxx=pick(0.3), typemap=pick(0.25), shroud=pick(0.35), typemaps=tms, field="impl_header" if r.random() < 0.5 else None,
                  langC=r.random() < 0.5, debug=r.random() < 0.5, util="util.h")
        lib = types.SimpleNamespace(options=types.SimpleNamespace(debug=st["debug"]), language="c" if st["langC"] else "cxx",
                                    fmtdict=types.SimpleNamespace(C_header_utility="util.h"))
        h = util.Header(lib)
        for x in st["cxx"]:
            h.header_impl_include_order["cxx_header"][x] = True
        h.add_typemap_list(st["typemap"])
        for x in st["shroud"]:
            h.add_shroud_file(x)
        tmobjs = util.OrderedDict()
        for i, t in enumerate(tms):
            tmobjs["t%d" % i] = types.SimpleNamespace(c_header=t["c"], cxx_header=t["x"], wrap_header=t["w"], impl_header=t["i"],
                                                      cpp_if="ifdef HAVE_%d" % i if t["b"] else None)
        h.add_typemaps_xxx(tmobjs, st["field"])
        out = []
        h.write_headers(out)
        # the ordered dicts deduplicate on insertion: the model takes the dict state
        st2 = dict(st, cxx=list(h.header_impl_include_order["cxx_header"]), typemap=list(h.header_impl_include_order["typemap"]),
                   shroud=list(h.header_impl_include_order["shroud"]))
        hmap = {x: i for i, x in enumerate(names)}
        toks = []
        for ln in out:
            s = ln.strip()
            if s == "":
                toks.append("B")
            elif s.startswith("// "):
                toks.append("C%d" % {"cxx_header": 0, "typemap": 1, "shroud": 2}[s[3:]])
            elif s.startswith("#include"):
                m = re.match(r'#include (.*)$', s)
                nm = m.group(1)
                nm = nm[1:-1] if nm.startswith('"') else nm
                toks.append("I%d" % hmap[nm])
            elif s == "#ifdef __cplusplus":
                toks.append("O0")
            elif s == "#ifndef __cplusplus":
                toks.append("O1")
            elif s.startswith("#ifdef HAVE"):
                toks.append("O2")
            elif s == "#else":
                toks.append("E")
            elif s == "#endif":
                toks.append("N")
            else:
                toks.append("?" + s)
        reals.append(toks)
        states.append(st2)
        lines.append("headers " + hdr_args(st2, lambda x: hmap[x]))
        ctx.count(1)
        b = py_if_balance(toks)
        if b:
            ctx.fail("write_headers:unbalanced:%s" % b, "util.Header.write_headers wrote unbalanced conditionals (%s)" % b,
                     {"state": st2, "output": out})
        if any(t.startswith("O") for t in toks):
            ctx.nontrivial(("hdr", tuple(toks)))
    mouts = drv.run(lines) if (ok and drv.available()) else None
    bad = []
    if mouts is not None:
        for st, toks, mo in zip(states, reals, mouts):
            mt = [] if mo == "~" else mo.split(" ")
            if mt != toks:
                bad.append({"state": st, "real": toks, "model": mt})
    ctx.note("header_tie", {"cases": len(lines), "disagreements": len(bad)})
    if bad:
        ctx.tie_broken("util.Header.write_headers vs Model.Helpers.writeHeaders", bad[:4])

    # ---- skeletons of wrapc (real instance, fresh process)
    cases = []
    for which in ("h", "i", "hu", "iu"):
        for cxx in (0, 1):
            for cpp, use_cls in ((0, 0), (0, 1), (1, 1)):
                for dox in (0, 1):
                    for hname in ((0, 1) if which == "i" else (1,)):
                        for debug in (0, 1):
                            sh = [x for x in ["typesX.h", "<string.h>", "<stdlib.h>"] if r.random() < 0.6]
                            cases.append(dict(which=which, cxx=cxx, cppIf=cpp, use_cls=use_cls, dox=dox, hname=hname, debug=debug,
                                              shroud=sh, cxx_header=["extra.hpp"] if r.random() < 0.3 else [],
                                              typemap=["<tm.h>"] if r.random() < 0.3 else []))
    chunks = [cases[i::4] for i in range(4)]
    with pool() as ex:
        results = list(ex.map(helpers_tie.skeleton_worker, chunks))
    lines, reals, keep = [], [], []
    for ch, rs in zip(chunks, results):
        for case, res in zip(ch, rs):
            ctx.count(1)
            if "error" in res:
                ctx.tie_broken("skeleton worker", [dict(case=case, error=res["error"])])
                continue
            hdrs = {"wrapX.h": 0}
            st = res["hdr"]
            if st is None:
                continue

            def hid(x, hdrs=hdrs):
                return hdrs.setdefault(x.strip('<>"'), len(hdrs) + 100)   # same numbering as helpers_tie.classify_line
            args = hdr_args(st, hid)
            toks = []
            for ln in res["raw"]:
                t = helpers_tie.classify_line(ln, hdrs)
                if t:
                    toks.extend(t)
            # the include of the header itself in write_impl is `incl 0`
            toks = strip_tokens(toks)
            b1, b2 = py_if_balance(toks), py_ext_balance(toks)
            key = "%s:%s:%s" % (case["which"], "cxx" if case["cxx"] else "c", "cpp_if" if case["cppIf"] else "plain")
            if b1:
                ctx.fail("skeleton:%s:if:%s" % (key, b1), "Wrapc.%s writes unbalanced #if/#endif lines (%s)" % (
                    {"h": "write_header", "i": "write_impl", "hu": "write_header_utility", "iu": "write_impl_utility"}[case["which"]], b1),
                    {"case": case, "lines": res["raw"]})
            if b2:
                ctx.fail("skeleton:%s:extern:%s" % (key, b2), "Wrapc.%s writes unbalanced extern \"C\" braces (%s)" % (
                    {"h": "write_header", "i": "write_impl", "hu": "write_header_utility", "iu": "write_impl_utility"}[case["which"]], b2),
                    {"case": case, "lines": res["raw"]})
            ctx.nontrivial(("skel", key, case["dox"], case["debug"]))
            lines.append("skel %s %d %d %d %d 0 %s" % (case["which"], case["cxx"], case["cppIf"], case["dox"], case["hname"], args))
            reals.append(toks)
            keep.append(case)
    mouts = drv.run(lines) if (ok and drv.available() and lines) else None
    bad = []
    if mouts is not None:
        for case, toks, mo in zip(keep, reals, mouts):
            mt = strip_tokens([] if mo == "~" else mo.split(" "))
            if mt != toks:
                bad.append({"case": case, "real": toks, "model": mt})
    ctx.note("skeleton_tie", {"cases": len(lines), "disagreements": len(bad)})
    if keep:
        ctx.sample({"skeleton": {"case": keep[-1], "tokens": reals[-1]}})
    if bad:
        ctx.tie_broken("Wrapc file skeletons vs Model.Helpers.write*Sk", bad[:4])


# ---------------------------------------------------------------------------------------------- USE/IMPORT tie
def fmodule_tie(ctx, r, ok, thorough):
    """real Wrapf.update_f_module / update_f_module_line / set_f_module / sort_module_info on random call sequences vs the model;
    implementation-only oracle: every symbol a call asked for is in the final USE line of its module."""
    from shroud import wrapf, util
    w = wrapf.Wrapf.__new__(wrapf.Wrapf)     # the four methods read no instance state
    mods = ["iso_c_binding", "mymod", "zmod", "--import--", "selfmod", "Amod"]
    syms = ["C_INT", "C_DOUBLE", "C_PTR", "c_f_pointer", "x", "Y_", "C_LONG"]
    names = sorted(set(mods + syms))
    nid = {n: i for i, n in enumerate(names)}
    lines, reals, seqs = [], [], []
    dropped = []       # report the first dropped symbol only
    for _ in range(3000 if thorough else 800):
        modules, imports = {}, {}
        seq, enc, asked = [], [], []
        for _u in range(r.randrange(1, 6)):
            kind = r.choice("ddls")
            if kind == "d":
                fm = {}
                for m in r.sample(mods, r.randrange(1, 3)):
                    fm[m] = r.sample(syms, r.randrange(0, 3))
                if r.random() < 0.2:
                    fm["__line__"] = 7
                w.update_f_module(modules, imports, fm)
                seq.append(("update_f_module", fm))
                items = [(m, v) for m, v in fm.items() if m != "__line__"]
                enc.append("d=" + ";".join("%d:%s" % (nid[m], ",".join(str(nid[x]) for x in v)) for m, v in items))
                asked += [(m, x) for m, v in items if m != "--import--" for x in v]
            elif kind == "l":
                parts = []
                for m in r.sample(mods, r.randrange(1, 3)):
                    parts.append((m, r.sample(syms, r.randrange(1, 3))))
                kindsym = r.choice(syms)
                line = " ; ".join("%s: %s" % (m, ", ".join("{f_kind}" if (x == kindsym) else x for x in v)) for m, v in parts)
                w.update_f_module_line(modules, imports, line, util.Scope(None, f_kind=kindsym))
                seq.append(("update_f_module_line", line, kindsym))
                enc.append("l=" + ";".join("%d:%s" % (nid[m], ",".join(str(nid[x]) for x in v)) for m, v in parts))
                asked += [(m, x) for m, v in parts for x in v]
            else:
                m = r.choice(mods)
                v = r.sample(syms, r.randrange(0, 3))
                w.set_f_module(modules, m, *v)
                seq.append(("set_f_module", m, v))
                enc.append("d=%d:%s" % (nid[m], ",".join(str(nid[x]) for x in v)) if m != "--import--" else
                           "l=%d:%s" % (nid[m], ",".join(str(nid[x]) for x in v)))
                asked += [(m, x) for x in v]
        imp2 = dict(imports)
        use = w.sort_module_info(modules, "selfmod", imp2)
        got = []
        final = {}
        for ln in use:
            # the only-list may carry break hints for write_continue (", \t") since 25ed63a: split on the comma, drop white space
            mm = re.match(r"use (\S+?)(?:,\s*only\s*:\s*(.*))?$", ln, re.S)
            only = None if mm.group(2) is None else [x for x in re.split(r"\s*,\s*", mm.group(2).strip()) if x]
            final[mm.group(1)] = only
            got.append("%d=%s" % (nid[mm.group(1)], "*" if only is None else ",".join(str(nid[x]) for x in only)))
        real = ("|".join(got) or "~") + " # " + (",".join(str(i) for i in sorted(nid[x] for x in imp2)) or "~")
        ctx.count(1)
        if len(modules) > 1:
            ctx.nontrivial(("fmod", real))
        for m, x in asked:
            if dropped:
                break
            if m != "selfmod" and (m not in final or (final[m] is not None and x not in final[m])):
                dropped.append((m, x))
                ctx.fail("fmodule:symbol-dropped", "a symbol requested through update_f_module/update_f_module_line/set_f_module is "
                         "missing from the USE line written by sort_module_info (%s from %s)" % (x, m),
                         {"calls": seq, "use_lines": use, "missing": [m, x]})
                break
        lines.append("fmod %d %d %s" % (nid["--import--"], nid["selfmod"], " ".join(enc)))
        reals.append(real)
        seqs.append(seq)
    drv = common.Driver("drv_helpers")
    bad = []
    if ok and drv.available():
        for seq, real, mo in zip(seqs, reals, drv.run(lines)):
            if mo != real:
                bad.append({"calls": seq, "real": real, "model": mo, "names": names})
    ctx.note("fmodule_tie", {"cases": len(lines), "disagreements": len(bad)})
    if seqs:
        ctx.sample({"fmodule": {"calls": seqs[-1], "use": reals[-1]}})
    if bad:
        ctx.tie_broken("Wrapf.update_f_module/update_f_module_line/sort_module_info vs Model.FModule", bad[:4])


# ---------------------------------------------------------------------------------------------- doxygen tie
DOX_PIECES = ["the number of open channels", "or zero", "", " ", "\t", "a\tb", "\f", "! x", "*/ x", "end", "x &", "\\return y", "%d {z}", "ä€"]


def dox_text(r):
    n = r.choice([0, 1, 1, 2, 3, 4])
    t = "\n".join(r.choice(DOX_PIECES) for _ in range(n))
    if r.random() < 0.4:
        t += "\n"
    if r.random() < 0.1:
        t += "\n"
    return t


def doxygen_tie(ctx, r, ok, thorough):
    """real util.WrapperMixin.write_doxygen on random brief/description/return texts (C and Fortran comment strings) vs the model;
    implementation-only oracle: every PHYSICAL line of what it appends (elements split at newline, as write_lines does) is the
    begin line, the end line or starts with the continuation prefix, and has no tab / form feed (write_continue breaks there)."""
    from shroud import util
    styles = [("/**", " *", " */"), ("!>", "!!", "!<")]
    lines, reals, keep = [], [], []

    def enc(t):
        return ",".join(str(ord(ch)) for ch in t) or "~"
    for i in range(1500 if thorough else 500):
        b, c, e = styles[i % 2]
        docs = {}
        for k in ("brief", "description", "return"):
            if r.random() < 0.6:
                docs[k] = dox_text(r)
        if i < 6:        # every key alone with a multi-line text, both styles
            docs = {("brief", "description", "return")[i // 2]: "first line\nsecond line\nthird"}
        me = types.SimpleNamespace(doxygen_begin=b, doxygen_cont=c, doxygen_end=e)
        out = []
        util.WrapperMixin.write_doxygen(me, out, docs)
        ctx.count(1)
        rp = {"call": "util.WrapperMixin.write_doxygen(self, output, docs)", "doxygen_begin": b, "doxygen_cont": c, "doxygen_end": e,
              "docs": docs, "output": out}
        for o in out:
            phys = o.split("\n")
            badl = [ln for ln in phys if not (ln == b or ln == e or ln.startswith(c))]
            if badl:
                key = sorted(k for k, v in docs.items() if badl[0] in str(v))
                ctx.fail("doxygen:line-outside-comment:%s:%s" % (c.strip(), ",".join(key) or "?"),
                         "write_doxygen appends text whose line %r does not start with the comment continuation %r: it is written to "
                         "the wrapper as code" % (badl[0], c), rp)
                break
            if "\t" in o or "\f" in o:
                ctx.fail("doxygen:break-character:%s" % c.strip(),
                         "write_doxygen appends a line with a tab / form feed from the user text: write_continue breaks the line there "
                         "and the rest leaves the comment", rp)
                break
        if any("\n" in str(v).rstrip("\n") for v in docs.values()):
            ctx.nontrivial(("dox", c, tuple(sorted(docs)), tuple(len(o) for o in out)))
        lines.append("dox %s %s %s %s" % (enc(b), enc(c), enc(e), " ".join(enc(docs[k]) if k in docs else "-"
                                                                         for k in ("brief", "description", "return"))))
        reals.append("|".join(enc(o) for o in out))
        keep.append(rp)
    drv = common.Driver("drv_helpers")
    bad = []
    if ok and drv.available():
        for rp, real, mo in zip(keep, reals, drv.run(lines)):
            if mo != real:
                bad.append(dict(rp, model=mo, real=real))
    ctx.note("doxygen_tie", {"cases": len(lines), "disagreements": len(bad)})
    if keep:
        ctx.sample({"doxygen": keep[-1]})
    if bad:
        ctx.tie_broken("util.WrapperMixin.write_doxygen vs Model.Doxygen.writeDoxygen", bad[:3])


# ---------------------------------------------------------------------------------------------- shared helper tie
def shared_tie(ctx, r, ok, thorough):
    """every module's C helper set reaches the set Wrapc.write_impl_utility gathers (model: sharedHelpers = union)"""
    from tools import helpers_tie
    from tools.gen import c05gen
    cases = []
    for name in ("tutorial", "namespace", "example", "strings", "vectors", "classes", "scope", "templates"):
        for n, y, extra in shroudrun.CORPUS:
            if n == name:
                o, lang, wv = shroudrun.parse_cmdline(extra)
                cases.append(dict(tag=name, yaml=shroudrun.corpus_yaml(y), options=["debug_testsuite=true"] + o))
    for i in range(16 if thorough else 6):
        lib = c05gen.gen(r, "namespace_helpers")
        cases.append(dict(tag="nsgen%d" % i, yaml_text=lib["yaml_text"], options=["wrap_python=false", "wrap_lua=false"]))
    chunks = [cases[i::4] for i in range(4)]
    with pool() as ex:
        results = [x for rs in ex.map(helpers_tie.shared_worker, chunks) for x in rs]
    by_tag = {c["tag"]: c for c in cases}
    lines, reals, keep = [], [], []
    for res in results:
        ctx.count(1)
        c = by_tag[res["tag"]]
        rp = {"config": res["tag"], "yaml": c.get("yaml_text") or c.get("yaml"), "options": c["options"], "modules": res["modules"],
              "shared_at_write_impl_utility": res["shared"]}
        if res["exc"] or res["shared"] is None:
            continue
        allh = sorted(set(h for _m, hs in res["modules"] for h in hs))
        missing = [h for h in allh if h not in res["shared"]]
        if missing:
            ctx.fail("helpers:module-helper-not-shared:%s" % missing[0],
                     "C helper %s is requested by a module of %s but is not in the shared set when the utility file is written: its "
                     "cwrap_impl source never reaches util<lib> (link: undefined symbol)" % (missing[0], res["tag"]), rp)
        names = sorted(set(allh) | set(res["shared"]))
        nid = {n: i for i, n in enumerate(names)}
        lines.append("shared " + "|".join(",".join(str(nid[h]) for h in hs) or "~" for _m, hs in res["modules"]) if res["modules"] else "shared ~")
        reals.append(",".join(str(nid[h]) for h in res["shared"]) or "~")
        keep.append(rp)
        if len([1 for _m, hs in res["modules"] if hs]) >= 2:
            ctx.nontrivial(("shared", res["tag"], tuple(res["shared"])))
    drv = common.Driver("drv_helpers")
    bad = []
    if ok and drv.available() and lines:
        for rp, real, mo in zip(keep, reals, drv.run(lines)):
            if mo != real:
                bad.append(dict(rp, model=mo, real=real))
    ctx.note("shared_helper_tie", {"cases": len(lines), "disagreements": len(bad)})
    if bad:
        ctx.tie_broken("shared_helper (union of the modules' c_helper) vs Model.Helpers.sharedHelpers", bad[:3])


# ---------------------------------------------------------------------------------------------- table oracles
def table_oracle(ctx, info, data):
    """implementation-level statements of 2a and 2b on the tables just read"""
    for t in ("C", "F", "L"):
        g = data["graphs"][t]
        for k in sorted(g):
            for d in g[k]:
                if d not in g:
                    ctx.fail("helpers:dangling:%s:%s->%s" % (t, k, d),
                             "%sHelpers[%r] lists the dependency %r which is not a helper: gather_helper_code raises KeyError" % (t, k, d),
                             {"table": t, "helper": k, "dependency": d, "replay": "gather_helper_code({%r: True})" % k})
        if not is_acyclic(g):
            ctx.fail("helpers:cycle:%s" % t, "%sHelpers has a dependency cycle: some helper is emitted before a helper it needs" % t,
                     {"table": t, "cycles": info.get({"C": "cHelpers", "F": "fHelpers", "L": "luaHelpers"}[t], {}).get("cycles")})
    from tools import extract_helpers
    for t, hn, kn, nm in extract_helpers.undeclared_uses(data["graphs"], data.get("htext", {})):
        ctx.fail("helpers:missing-dependency:%s:%s->%s" % (t, hn, kn),
                 "%sHelpers[%r] calls %s, the function of helper %r, which is not among its (transitive) dependent_helpers: a file that "
                 "requests only %r gets text using an undefined name" % (t, hn, nm, kn, hn),
                 {"table": t, "helper": hn, "uses": nm, "of_helper": kn, "dependent_helpers": data["graphs"][t].get(hn),
                  "replay": "gather_helper_code({%r: True}) and compile the collected sources" % hn})
    for ename, sym in extract_helpers.uncovered_decl_symbols(data.get("fmodule_rows", []), data.get("emitter_adds", [])):
        ctx.fail("fmodule:uncovered:%s:%s" % (ename, sym),
                 "statement entry %s names %s in a declaration template but neither its f_module nor its f_module_line supplies it: "
                 "the interface/wrapper has implicit none and no USE for it" % (ename, sym),
                 {"entry": ename, "symbol": sym, "replay": "generate a function whose argument selects %s; gfortran -fsyntax-only" % ename})
    provided = {int(k): set(v) for k, v in data["provided"].items()}
    miss = extract_helpers.missing_placeholders(provided, data["entries"])
    if miss:
        from shroud import util
        for kind, ename, field in miss[:20]:
            # concrete replay on the real formatter: the entry's template with EVERY field known for the kind
            tab = None
            from shroud import statements, wrapp, wrapl
            for e in (statements.fc_statements + wrapp.py_statements + wrapl.lua_statements):
                if e.get("name") == ename:
                    tab = e
            tmpl = None
            if tab:
                for k, v in tab.items():
                    for s in extract_helpers._strings(v):
                        if field in (extract_helpers.placeholders(s) or []):
                            tmpl = (k, s)
            err = None
            if tmpl:
                try:
                    util.wformat(tmpl[1], util.Scope(None, **{f: "x" for f in provided[kind]}))
                except BaseException as e:
                    err = "%s: %s" % (type(e).__name__, e)
            ctx.fail("placeholder:%s:%s" % (ename, field),
                     "statement entry %s uses {%s}, which no emitter of its kind ever provides (generation stops with %s)" % (
                         ename, field, err or "an 'Error with template' exit"),
                     {"entry": ename, "clause": tmpl[0] if tmpl else None, "template": tmpl[1] if tmpl else None, "field": field,
                      "replay": "util.wformat(template, Scope(None, <all %d fields provided for kind %d>))" % (len(provided[kind]), kind),
                      "result": err})
    ctx.count(len(data["entries"]) + sum(len(data["graphs"][t]) for t in "CFL"))


# ---------------------------------------------------------------------------------------------- compile oracle
QUICK_VARIANT_CONFIGS = ["tutorial", "strings", "clibrary", "classes"]
QUICK_LINK_CONFIGS = ["tutorial", "strings", "clibrary", "classes", "vectors", "struct-c", "pointers-c", "enum-c"]
VARIANTS = [
    ("debug", ["debug=true"]),
    ("nodoxygen", ["doxygen=false"]),
    ("literalinclude", ["literalinclude=true"]),
    ("literalinclude2", ["literalinclude2=true"]),
    ("nosplicercomments", ["show_splicer_comments=false"]),
    ("cline40", ["C_line_length=40"]),
    ("fline60", ["F_line_length=60"]),
    ("lines", ["C_line_length=50", "F_line_length=72"]),
    ("cwide", ["C_line_length=1000"]),
    ("cwide-fnarrow", ["C_line_length=1000", "F_line_length=60"]),
    ("fwide-cnarrow", ["F_line_length=120", "C_line_length=40"]),
    ("cfi", ["F_CFI=true"]),
    ("cfi-debug", ["F_CFI=true", "debug=true", "literalinclude=true"]),
    ("c-only", ["wrap_fortran=false", "wrap_python=false", "wrap_lua=false"]),
    ("cf-only", ["wrap_python=false", "wrap_lua=false"]),
    # subsets only switch wrappers OFF: a wrapper the upstream description does not ask for is never forced on
    # (the Lua and Python emitters document a smaller set of supported argument kinds than C/Fortran)
    ("py-only", ["wrap_c=false", "wrap_fortran=false", "wrap_lua=false"]),
    ("lua-only", ["wrap_c=false", "wrap_fortran=false", "wrap_python=false"]),
]
GEN_VARIANTS = [v for v in VARIANTS if not v[0].endswith("-only")]


def corpus_specs(thorough):
    from tools import compile_oracle as co
    allinc = co.corpus_incdirs()
    specs = []
    for n, y, extra in shroudrun.CORPUS:
        opts, lang, wv = shroudrun.parse_cmdline(extra)
        own = [d for d in allinc if os.path.basename(d) in (n, y)]
        inc = own + [d for d in allinc if d not in own]
        try:
            ytxt = open(shroudrun.corpus_yaml(y)).read()
        except OSError:
            ytxt = ""
        hdrs = re.findall(r"^cxx_header\s*:\s*(.+)$", ytxt, re.M)
        hnames = [h for h in (hdrs[0].split() if hdrs else [])]
        own_header = bool(hnames) and all(any(os.path.exists(os.path.join(d, h)) for d in own) for h in hnames)
        base = dict(own_header=own_header, tag=n, config=n, yaml=shroudrun.corpus_yaml(y), options=["debug_testsuite=true"] + opts, language=lang, incdirs=inc,
                    write_version=wv)
        if own and n not in EXCLUDE_COMPILE and (thorough or n in QUICK_LINK_CONFIGS):
            base = dict(base, link=True, impl_dirs=own)
        specs.append(base)
        if n in QUICK_VARIANT_CONFIGS or (thorough and n not in EXCLUDE_COMPILE and not opts):
            for vn, vopts in VARIANTS:
                specs.append(dict(base, tag="%s+%s" % (n, vn), options=base["options"] + vopts, link=False))
    return specs


def gen_specs(r, thorough):
    """generated libraries: libgen (C + Fortran wrappers; header synthesized by tools/gen/hdrgen.py), pygen (Python wrapper,
    NumPy-free grammar, own header), luagen (Lua wrapper grammar, own header); every row of those grammars is traceable to
    docs/*.rst (see the generators' docstrings)."""
    from tools.gen import libgen, hdrgen, pygen, luagen
    specs = []
    gen_specs.skipped = []
    n = 60 if thorough else 12
    for i in range(n):
        lang = ["c", "c++"][i % 2]
        lib = libgen.gen_lib(r, name="glib", language=lang)
        vn, vopts = GEN_VARIANTS[i % len(GEN_VARIANTS)] if i % 3 else ("base", [])
        lib.options = {}
        if any(o.startswith("F_CFI") for o in vopts) and "std::vector" in lib.yaml():
            # the statement table has no *_cfi entries for std::vector (upstream exercises F_CFI on strings and generic only):
            # known finding vectors:shroud:SystemExit...; generated libraries do not repeat it
            vn, vopts = "base", []
        specs.append(dict(tag="gen%d+%s" % (i, vn), config="gen", yaml_text=lib.yaml(), yaml_name="glib.yaml",
                          options=["wrap_python=false", "wrap_lua=false"] + vopts,
                          language=None, incdirs=[], header=hdrgen.header(lib), gen=True,
                          link=(thorough or i % 4 == 0), stub=hdrgen.stub_from_dict(lib.todict())))
    npy = 16 if thorough else 4
    for i in range(npy):
        try:
            # tools/gen/pygen.py and luagen.py belong to C03 / C18 and keep growing: an API change there must not turn this
            # check into a machinery error
            lib = [pygen.random_cxx, pygen.random_c][i % 2](r, "pylib")
            lib.yaml(), lib.header(), lib.header_name()
        except Exception as e:
            gen_specs.skipped.append("pygen: %s: %s" % (type(e).__name__, e))
            continue
        vn, vopts = GEN_VARIANTS[(i * 3) % len(GEN_VARIANTS)] if i else ("base", [])
        specs.append(dict(tag="pygen%d+%s" % (i, vn), config="pygen", yaml_text=lib.yaml(), yaml_name="pylib.yaml", options=list(vopts),
                          language=None, incdirs=[], header=(lib.header_name(), lib.header()), gen=True))
    nlua = 12 if thorough else 3
    for i in range(nlua):
        try:
            lib = luagen.gen_lualib(r, "lualib") if i else luagen.fixed_lualib("lualib")
            lib.yaml(), lib.header()
        except Exception as e:
            gen_specs.skipped.append("luagen: %s: %s" % (type(e).__name__, e))
            continue
        vn, vopts = GEN_VARIANTS[(i * 5) % len(GEN_VARIANTS)] if i else ("base", [])
        specs.append(dict(tag="luagen%d+%s" % (i, vn), config="luagen", yaml_text=lib.yaml(), yaml_name="lualib.yaml", options=list(vopts),
                          language=None, incdirs=[], header=("lualib.hpp", lib.header()), gen=True))
    return specs


def feature_specs(r, thorough):
    """options x features matrix (tools/gen/c05gen.py): thorough = every option variant x every feature; quick = every feature
    x {base, debug, lines} plus a rotating variant.  Returns (specs, matrix)."""
    from tools.gen import c05gen, hdrgen
    variants = [("base", [])] + GEN_VARIANTS
    specs, matrix = [], {}
    n = 0
    for fi, feat in enumerate(c05gen.FEATURES):
        if thorough:
            vs = variants
        else:
            names = {"base", "debug", "lines", variants[1 + (fi + common.seed()) % (len(variants) - 1)][0]}
            if feat == "callback":
                names |= {"cfi-debug", "cline40"}
            if feat in ("long_args", "long_types", "callback"):
                names |= {"cwide", "cwide-fnarrow", "fwide-cnarrow"}
            if feat == "doxygen_text":
                names |= {"fline60", "cline40", "literalinclude"}
            if feat in ("assumed_rank", "fmodule_mix"):
                names |= {"cfi", "cfi-debug"}
            vs = [v for v in variants if v[0] in names]
        for vn, vopts in vs:
            cfi = any(o.startswith("F_CFI") for o in vopts)
            lib = c05gen.gen(r, feat, allow_vector=not cfi)
            n += 1
            for f in lib["features"]:
                matrix.setdefault(f, {}).setdefault(vn, 0)
                matrix[f][vn] += 1
            specs.append(dict(tag="fgen%d:%s+%s" % (n, feat, vn), config="fgen", yaml_text=lib["yaml_text"], yaml_name="flib.yaml",
                              options=["wrap_python=false", "wrap_lua=false"] + list(vopts), language=None, incdirs=[],
                              headers=hdrgen.headers_from_dict(lib["dict"]), defines=lib["defines"], gen=True,
                              features=lib["features"], link=(thorough or n % 4 == 1 or feat in ("namespace_helpers", "class_result", "class_multi_header")), stub=hdrgen.stub_from_dict(lib["dict"])))
    return specs, matrix


BASELINE = os.path.join(common.CORPUS, "c05_baseline.json")


def load_baseline():
    try:
        return json.load(open(BASELINE))
    except (OSError, ValueError):
        return {}


def write_baseline():
    """explicit command (`python -m tools.props.c05 --write-baseline`): per upstream configuration and variant, the verdict of
    every compiler run on the CURRENT /repo tree.  Never written at check time."""
    from tools import compile_oracle as co
    specs = corpus_specs(True)
    with pool() as ex:
        results = list(ex.map(co.job, specs))
    base = {}
    for spec, res in zip(specs, results):
        if res["exc"]:
            base[spec["tag"]] = {"__shroud__": "exc:" + res["exc"][:120]}
            continue
        base[spec["tag"]] = {"%s|%s" % (x["file"], x["tool"]): (x["status"] if x["status"] != "fail" else "fail:" + x["err"])
                             for x in res["results"]}
        base[spec["tag"]]["__shroud__"] = "ok"
        base[spec["tag"]]["__files__"] = [f for f in res.get("files", []) if not f.endswith((".log", ".json"))]
        if res.get("link"):
            base[spec["tag"]]["__link__"] = res["link"]["status"] if res["link"]["status"] != "fail" else "fail:" + "; ".join(res["link"]["messages"][:3])
    json.dump({"repo_commit": os.popen("git -C %s rev-parse --short HEAD" % common.REPO).read().strip(), "verdicts": base},
              open(BASELINE, "w"), indent=0, sort_keys=True)
    return len(base)


IDENT_ERR = re.compile(r"[‘'`]([A-Za-z_][\w:]*)[’']")


def excluded(spec, res, yaml_text, baseline):
    """documented exclusion rules for a compile failure; returns reason or None.
    * never for generated libraries (their headers are synthesized from the description: every failure is ours);
    * never when the committed baseline (corpus/c05_baseline.json) says this file compiled with this tool for this
      configuration: what used to compile and now fails is a failing input;
    * rule A (library header does not declare what the description describes) only for configurations whose library header
      upstream does not ship (spec['own_header'] is False), and only when the first error names an identifier written in the
      YAML description itself;
    * rule C: symbols of another wrapped library (forward.yaml imports tutorial's generated types)."""
    if spec.get("gen"):
        return None
    b = baseline.get(spec["tag"], {}).get("%s|%s" % (res["file"], res["tool"]))
    if b == "ok":
        return None
    cfg = spec["config"]
    err = res.get("err", "")
    if not spec.get("own_header") and \
            re.search(r"not a member of|has not been declared|was not declared in this scope|does not name a type|not declared", err):
        for ident in IDENT_ERR.findall(err):
            last = ident.split("::")[-1]
            if re.search(r"\b%s\b" % re.escape(last), yaml_text) and not last.startswith(("SH_", "SHT_", "SHC_", "Shroud")):
                return "upstream ships no library header for this configuration; %s is a symbol of the description" % last
    for sym in EXTERNAL_SYMBOLS.get(cfg, []):
        if sym in err:
            return "needs the generated wrapper of another library (%s)" % sym
    return None


def compile_oracle(ctx, r, thorough, data=None):
    from tools import compile_oracle as co
    fspecs, matrix = feature_specs(r, thorough)
    baseline = load_baseline().get("verdicts", {})
    specs = read_corpus()[0] + corpus_specs(thorough) + gen_specs(r, thorough) + fspecs
    with pool() as ex:
        results = list(ex.map(co.job, specs))
    # /repo is a shared working tree: a worker that imports shroud while another agent is writing a module sees a half
    # written file.  That is not a verdict about the property: such jobs are repeated (twice at most).
    racy = re.compile(r"^(AttributeError: module 'shroud|ImportError|ModuleNotFoundError|SyntaxError|IndentationError)")
    for _attempt in range(2):
        again = [i for i, res in enumerate(results) if res["exc"] and racy.match(res["exc"])]
        if not again:
            break
        import time
        time.sleep(2)
        with pool() as ex:
            for i, res in zip(again, ex.map(co.job, [specs[i] for i in again])):
                results[i] = res
        ctx.note("jobs_repeated_after_import_race", len(again))
    stats, skipped, excl, rejected = {}, {}, {}, {}
    linkstats, linkskips = {}, {}
    ndup = []
    for spec, res in zip(specs, results):
        ctx.count(1)
        tag = spec["tag"]
        ytext = spec.get("yaml_text") or open(spec["yaml"]).read()
        rp = {"config": tag, "options": spec["options"], "language": spec.get("language"),
              "yaml": ytext if spec.get("gen") else spec["yaml"]}
        if res["exc"]:
            etype, _, emsg = res["exc"].partition(": ")
            if etype == "SystemExit" and emsg and not emsg.startswith("Error with template"):
                # Shroud's own diagnostic exit: the description is rejected, it is not an accepted input
                rejected[tag] = emsg[:120]
                continue
            ctx.fail("%s:shroud:%s:%s" % (spec["config"], etype, re.sub(r"\s+", " ", emsg)[:80]),
                     "Shroud failed on an admitted description (%s): %s" % (tag, res["exc"]), dict(rp, stdout=res["stdout"]))
            continue
        for fmiss in [f for f in baseline.get(tag, {}).get("__files__", []) if f not in res.get("files", [])]:
            ctx.fail("%s:file-no-longer-written:%s" % (spec["config"], fmiss),
                     "%s: %s is in the committed baseline of written files but was not written" % (tag, fmiss), rp)
        if spec["config"] in EXCLUDE_COMPILE:
            excl[tag] = EXCLUDE_COMPILE[spec["config"]]
            continue
        kinds = set()
        for x in res["results"]:
            k = (x["tool"], x["status"])
            stats[k] = stats.get(k, 0) + 1
            kinds.add(x["tool"])
            if x["status"] == "skip":
                skipped[x["why"]] = skipped.get(x["why"], 0) + 1
            elif x["status"] == "fail":
                why = excluded(spec, x, ytext, baseline)
                if why:
                    excl["%s:%s" % (tag, x["file"])] = why
                    continue
                kfile, kerr = x["file"], x["err"]
                if spec.get("gen"):
                    # generated libraries: names carry random numbers; the key is construct + normalised error
                    kfile, kerr = re.sub(r"\d+", "#", kfile), re.sub(r"\d+", "#", kerr)
                ctx.fail("%s:%s:%s" % (spec["config"], kfile, kerr),
                         "%s rejects %s generated for %s: %s" % (x["tool"], x["file"], tag, x["err"]),
                         dict(rp, file=x["file"], tool=x["tool"], log=x["log"]))
        lk = res.get("link")
        if lk:
            linkstats[lk["status"]] = linkstats.get(lk["status"], 0) + 1
            if lk["status"] == "skip":
                linkskips[lk["why"][:90]] = linkskips.get(lk["why"][:90], 0) + 1
            if lk["status"] == "fail":
                bl = baseline.get(tag, {}).get("__link__")
                for msg in lk["messages"]:
                    sym = re.sub(r"\(.*", "", msg.split("'")[1]).split("::")[-1] if "'" in msg else ""
                    if not spec.get("gen") and bl != "ok" and msg.startswith("undefined reference") and sym and \
                            re.search(r"\b%s\b" % re.escape(sym), lk.get("library_text", "")):
                        excl["%s:link:%s" % (tag, sym)] = "the upstream library sources declare %s but do not define it" % sym
                        continue
                    kmsg = re.sub(r"\d+", "#", msg) if spec.get("gen") else msg
                    ctx.fail("%s:link:%s" % (spec["config"], kmsg),
                             "linking the generated objects of %s with the library: %s" % (tag, msg), dict(rp, log=lk.get("log", "")))
        for b in res["brackets"]:
            ctx.fail("%s:%s" % (spec["config"], b), "unbalanced brackets in generated file (%s, %s)" % (tag, b), rp)
        if res["dups"]:
            ndup.append((tag, res["dups"][:3]))
        if len(kinds) >= 2:
            ctx.nontrivial(("compile", tag))
    reached = set()
    for res in results:
        reached.update(res.get("stmts") or [])
    fm_entries = [x["name"] for x in (data or {}).get("fmodule_rows", [])]

    def hit(name):
        # statement names in the table are patterns (c_native_*_in_cfi, f_native_*_in/out/inout_cdesc); the dump has them verbatim
        return name in reached
    ctx.note("f_module_entries", {"total": len(fm_entries), "reached": sorted(n for n in fm_entries if hit(n)),
                                  "not_reached": sorted(n for n in fm_entries if not hit(n))})
    ctx.note("compile_oracle", {
        "configurations": len(specs), "corpus": sum(1 for s in specs if not s.get("gen")), "generated": sum(1 for s in specs if s.get("gen")),
        "files_by_tool_status": {"%s/%s" % k: v for k, v in sorted(stats.items())},
        "skipped": skipped, "excluded_by_rule": dict(list(excl.items())[:40]), "excluded_count": len(excl),
        "duplicate_include_lines_seen": ndup[:10], "rejected_with_diagnostic": rejected,
        "link": {"by_status": linkstats, "skipped": linkskips},
        "options_x_features_matrix": matrix, "generator_skips": getattr(gen_specs, "skipped", []), "baseline_entries": len(baseline),
    })
    ctx.sample({"compile": {"configurations": len(specs), "ok_files": sum(v for k, v in stats.items() if k[1] == "ok")}})


def read_corpus():
    """corpus/c05.txt -> (extra compile specs, extra gather cases)"""
    from tools import compile_oracle as co
    from tools.gen import hdrgen, libgen
    import yaml as _yaml
    specs, cases = [], []
    try:
        lines = open(os.path.join(common.CORPUS, "c05.txt")).read().split("\n")
    except OSError:
        return specs, cases
    allinc = co.corpus_incdirs()
    for i, ln in enumerate(lines):
        if not ln.strip() or ln.startswith("#"):
            continue
        kind, rest = ln.split(" ", 1)
        if kind == "corpus":
            name, opts = rest.split(" ")
            for n, y, extra in shroudrun.CORPUS:
                if n == name:
                    o, lang, wv = shroudrun.parse_cmdline(extra)
                    own = [d for d in allinc if os.path.basename(d) in (n, y)]
                    specs.append(dict(own_header=bool(own), tag="corpus-file:%s+%s" % (n, opts), config=n, yaml=shroudrun.corpus_yaml(y),
                                      options=["debug_testsuite=true"] + o + ([] if opts == "-" else opts.split(",")), language=lang,
                                      incdirs=own + [d for d in allinc if d not in own], write_version=wv))
        elif kind == "gather":
            t, rest2 = rest.split(" ", 1)
            dec = json.JSONDecoder()
            g, n1 = dec.raw_decode(rest2)
            req, _ = dec.raw_decode(rest2[n1:].lstrip())
            cases.append({"table": t, "graph": g, "req": req})
        elif kind == "yaml":
            lang, rest2 = rest.split(" ", 1)
            text, n1 = json.JSONDecoder().raw_decode(rest2)
            opts = rest2[n1:].strip()
            d = _yaml.safe_load(text)
            d.setdefault("language", lang)
            specs.append(dict(tag="corpus-file:yaml%d" % i, config="gen", yaml_text=text, yaml_name=d["library"] + ".yaml",
                              options=[] if opts in ("", "-") else opts.split(","), language=None, incdirs=[],
                              headers=hdrgen.headers_from_dict(d), gen=True))
    return specs, cases


def run(ctx):
    thorough = ctx.tier == "thorough"
    r = common.rng("c05")
    from tools import extract_helpers
    info, data = extract_helpers.regenerate()
    ctx.note("translator", info)
    ok = ctx.lean(MODULES, THEOREMS, extra_targets=("drv_helpers",))
    ctx.cov["trusted_base"] = [
        "Lean 4.33.0 kernel; axioms within {propext, Classical.choice, Quot.sound}",
        "tools/extract_helpers.py: helper tables after real corpus runs; placeholders by string.Formatter.parse; provided fields = "
        "fields visible to wformat during real generation of the 50 corpus configurations + AST scan of fmt assignments (over-approximation)",
        "hand-written models Model/Helpers.lean (gather_helper_code, Header.write_headers, four wrapc skeletons) and Model/FModule.lean "
        "(USE/IMPORT merge), Model/Doxygen.lean (write_doxygen), tied differentially; Gen/FModule.lean: literal C_* tokens of f_arg_decl/f_result_decl/arg_decl templates, "
        "{f_type} of an explicit interface declaration counted as {f_kind}; kinds reached through {f_type} on the Fortran-wrapper side "
        "come from typemaps and are outside the table theorem",
        "gcc/g++/gfortran 12 front ends, CPython 3.12 headers, tools/ccheck/luaemu (stand-in for Lua headers)",
    ]
    ctx.cov["rule"] = ("evaluations = tie comparisons (one per emitter and request; per header state; per skeleton case) + table rows + "
                       "compile-oracle configurations + write_doxygen calls; non-trivial = doxygen calls with a multi-line text; gather results whose emission order differs from sorted order or "
                       "that raise KeyError, header states with conditional includes, skeleton option combinations, configurations "
                       "compiled by >= 2 different tools; USE/IMPORT call sequences touching >= 2 modules")
    ctx.assumptions += [
        "compiler acceptance and linking are observed on sampled inputs, not proved; the link step covers C/C++/Fortran wrapper objects "
        "with the library implementation (upstream sources or a synthesized trivial stub), not the Python/Lua extension objects",
        "content between the bracket lines (declarations, helper sources, splicer text, cpp_if text) is neutral for the #if and "
        "extern \"C\" counters",
        "provided-field sets are unions over the corpus: a field provided only on some paths of an emitter counts as provided",
        "NumPy-using Python files are not compiled (headers absent); Lua files are compiled against an emulator header",
    ]
    if data["failed"]:
        for name, exc in data["failed"]:
            ctx.fail("%s:shroud:%s" % (name, exc.split("(")[0]), "Shroud failed on upstream corpus configuration %s: %s" % (name, exc),
                     {"config": name})
    table_oracle(ctx, info, data)
    gather_tie(ctx, r, data, ok, thorough)
    header_tie(ctx, r, ok, thorough)
    fmodule_tie(ctx, r, ok, thorough)
    shared_tie(ctx, r, ok, thorough)
    doxygen_tie(ctx, r, ok, thorough)
    compile_oracle(ctx, r, thorough, data)


def replay(path):
    d = json.load(open(path))
    for f in d.get("failing", []):
        print(f["key"], "|", f["what"])
        rp = f.get("replay", {})
        for k in ("config", "options", "file", "tool", "yaml", "request", "emitter", "result", "template", "case"):
            if k in rp:
                print("  %s: %s" % (k, str(rp[k])[:1500]))
        if "log" in rp:
            print(rp["log"][-1200:])
    for b in d.get("no_longer_checks", []):
        print(b["kind"], b["name"])
        print(str(b["detail"])[:2000])
    return 0


if __name__ == "__main__":
    import sys
    if "--write-baseline" in sys.argv:
        print("baseline configurations:", write_baseline())
