"""C10 Character data crosses the language boundary by the documented rules.

Proof: lean/ShroudVerif/Props/C10.lean over the byte-buffer model Model/StrHelpers.lean.
Tie (D): the helper C text is taken from whelpers.CHelpers of the *current working tree*
  (c_source / cxx_source / source, rendered with util.WrapperMixin.write_lines as Shroud does),
  compiled with gcc and g++ -fsanitize=address,undefined into the guard-byte driver
  tools/c10_harness.c and compared with the compiled Lean driver drv_strhelpers, exhaustively over
  a small scope.
Tie (T): statements.fc_statements entries for char / std::string arguments are checked in Python
  against the len / len_trim rule (tables are not regenerated into Lean for this property), and their
  pre_call/post_call lines are compiled into flow functions that the oracle runs.
Oracle: the documented rule written directly in Python, evaluated on the compiled C code only.
"""
import io
import itertools
import json
import os
import re
import subprocess

from tools import common

LEVEL = "proof"
MANIFEST = dict(
    category="proof",
    text="Lean 4 theorems over a bounds-checked byte-buffer model of the C string helpers embedded in whelpers.py "
         "(ShroudLenTrim, ShroudStrCopy, ShroudStrBlankFill, ShroudStrAlloc/Free, ShroudStrArrayAlloc/Free, ShroudStrToArray, "
         "ShroudCopyStringAndFree) and of two statement bodies: trimmed NUL-terminated input, truncate-or-blank-pad output with no NUL, "
         "NULL/empty to blanks, exact allocatable length, char** element trimming, and no access outside the given lengths, for all "
         "lengths and contents. The model is tied on every run to the helper text of the working tree compiled with gcc and g++ under "
         "ASan/UBSan in a guard-byte driver (exhaustive small scope); an implementation-only oracle states the documented rule in Python "
         "on the compiled helpers and on flow functions compiled from the statement-table lines.",
    design="3 C10",
    note="Trusted: Lean kernel (axioms propext, Classical.choice, Quot.sound only); the hand-written model, validated exhaustively only "
         "for lengths 0..6 (quick) / 0..8 (thorough) over the alphabet {'a',' ',NUL}; gcc/g++ 12, ASan/UBSan; the C harness. The len vs "
         "len_trim table rule and the ftrim_char_in selection rule are checked in Python (not Lean theorems); CFI entries are checked by "
         "template shape only (not compiled). Fortran trim()//C_NULL_CHAR is a reference definition validated against gfortran.",
    technique="Lean 4 proof by induction over byte loops + exhaustive small-scope differential correspondence with sanitizer-instrumented C",
)
MODULES = ["ShroudVerif.Props.C10"]
THEOREMS = {
    "ShroudVerif.Props.C10": [
        "Shroud.Str.lenTrim_spec",
        "Shroud.Str.lenTrim_eq_rtrim",
        "Shroud.Str.lenTrim_oob_iff",
        "Shroud.Str.strAlloc_gen",
        "Shroud.Str.strAlloc_in_buf",
        "Shroud.Str.strAlloc_inout",
        "Shroud.Str.strAlloc_overrun",
        "Shroud.Str.in_cstr_no_nul",
        "Shroud.Str.strCopy_cstring",
        "Shroud.Str.strCopy_counted",
        "Shroud.Str.strCopy_null",
        "Shroud.Str.strCopy_empty",
        "Shroud.Str.strCopy_no_nul",
        "Shroud.Str.strCopy_unterminated_oob",
        "Shroud.Str.strBlankFill_spec",
        "Shroud.Str.strBlankFill_no_nul_oob",
        "Shroud.Str.strBlankFill_unconditional_false",
        "Shroud.Str.charScalarResult_spec",
        "Shroud.Str.charScalarResult_len0_oob",
        "Shroud.Str.strArrayAlloc_spec",
        "Shroud.Str.strArrayFree_after_alloc",
        "Shroud.Str.allocatable_char_result",
        "Shroud.Str.allocatable_char_null",
        "Shroud.Str.allocatable_string_result_partial",
        "Shroud.Str.allocatable_string_length",
        "Shroud.Str.allocatable_string_embedded_nul_false",
        "Shroud.Str.copyString_confined",
        "Shroud.Str.copyString_no_blank_fill",
    ]
}

HARNESS = os.path.join(common.VERIF, "tools", "c10_harness.c")
A, B, Z = 97, 32, 0
ALPHA = (A, B, Z)
ASAN_ENV = {
    "ASAN_OPTIONS": "halt_on_error=0:suppress_equal_pcs=0:detect_leaks=0:malloc_fill_byte=190:max_malloc_fill_size=4096:"
                    "allocator_may_return_null=1:print_legend=0",
    "UBSAN_OPTIONS": "halt_on_error=0:print_stacktrace=0",
}

C_HELPERS = ["ShroudLenTrim", "ShroudStrCopy", "ShroudStrBlankFill", "ShroudStrAlloc", "ShroudStrFree",
             "ShroudStrArrayAlloc", "ShroudStrArrayFree", "ShroudTypeDefines", "capsule_data_helper",
             "array_context", "copy_string"]
CXX_ONLY = ["ShroudStrToArray"]


# ------------------------------------------------------------------ codec
def encb(b):
    if b is None:
        return "N"
    return ",".join(str(x) for x in b) if len(b) else "-"


def decb(t):
    if t == "N":
        return None
    return [] if t == "-" else [int(x) for x in t.split(",")]


def bufs(n, alpha=ALPHA):
    return itertools.product(alpha, repeat=n)


# ------------------------------------------------------------------ extraction from the working tree
def _render(lines):
    """Helper and statement text carries Shroud's formatting directives; render it the way
    whelpers.write_c_helpers / the wrappers do."""
    from shroud import util
    w = util.WrapperMixin()
    w.linelen = 1000
    w.indent = 0
    w.cont = ""
    fp = io.StringIO()
    w.write_lines(fp, lines)
    return fp.getvalue()


FLOWS = [
    # (flow name, lookup path in the resolved statement tree, language need, kind)
    ("char_in_buf", ["c", "char", "*", "in", "buf"], "any", "in"),
    ("char_out_buf", ["c", "char", "*", "out", "buf"], "any", "out"),
    ("char_inout_buf", ["c", "char", "*", "inout", "buf"], "any", "inout"),
    ("char_result_buf", ["c", "char", "*", "result", "buf"], "any", "result"),
    ("char_scalar_result_buf", ["c", "char", "scalar", "result", "buf"], "any", "cscalar"),
    ("string_in_buf", ["c", "string", "&", "in", "buf"], "c++", "sin"),
    ("string_ptr_in_buf", ["c", "string", "*", "in", "buf"], "c++", "sin"),
    ("string_scalar_in_buf", ["c", "string", "scalar", "in", "buf"], "c++", "sin"),
    ("string_out_buf", ["c", "string", "&", "out", "buf"], "c++", "sout"),
    ("string_inout_buf", ["c", "string", "&", "inout", "buf"], "c++", "sinout"),
    ("string_ptr_inout_buf", ["c", "string", "*", "inout", "buf"], "c++", "sinout"),
    ("string_result_buf", ["c", "string", "scalar", "result", "buf"], "c++", "sresult"),
    # TS 29113 (F_CFI) variants: the argument is a CFI_cdesc_t built by the harness
    ("char_in_cfi", ["c", "char", "*", "in", "cfi"], "any", "in"),
    ("char_out_cfi", ["c", "char", "*", "out", "cfi"], "any", "out"),
    ("char_inout_cfi", ["c", "char", "*", "inout", "cfi"], "any", "inout"),
    ("char_result_cfi", ["c", "char", "*", "result", "cfi"], "any", "result"),
    ("char_scalar_result_cfi", ["c", "char", "scalar", "result", "cfi"], "any", "cscalar"),
    ("string_in_cfi", ["c", "string", "&", "in", "cfi"], "c++", "sin"),
    ("string_scalar_in_cfi", ["c", "string", "scalar", "in", "cfi"], "c++", "sin"),
    ("string_out_cfi", ["c", "string", "&", "out", "cfi"], "c++", "sout"),
    ("string_inout_cfi", ["c", "string", "&", "inout", "cfi"], "c++", "sinout"),
    ("string_result_cfi", ["c", "string", "scalar", "result", "cfi"], "c++", "sresult"),
]
# allocatable results through CFI_allocate: (name, path, language need, kind)
AFLOWS = [
    ("char_result_cfi_allocatable", ["c", "char", "*", "result", "cfi", "allocatable"], "any", "aresult"),
    ("string_result_cfi_allocatable", ["c", "string", "*", "result", "cfi", "allocatable"], "c++", "asresult"),
    ("string_scalar_result_cfi_allocatable", ["c", "string", "scalar", "result", "cfi", "allocatable"], "c++", "asresult"),
]
# std::vector<std::string> arguments: CHARACTER(len) a(size)
VFLOWS = [
    ("vector_string_in_buf", ["c", "vector", "in", "buf", "string"], "vin"),
    ("vector_string_out_buf", ["c", "vector", "out", "buf", "string"], "vout"),
    ("vector_string_inout_buf", ["c", "vector", "inout", "buf", "string"], "vinout"),
    ("char_pp_in_buf", ["c", "char", "**", "in", "buf"], "arrin"),
]
FLOW_KIND = {n: k for (n, _p, _l, k) in FLOWS}


def stmt_table():
    from shroud import statements
    return {d["name"]: d for d in statements.fc_statements}


def extract(language):
    """Helper text + statement-line functions for `language` ('c' or 'c++') from the working tree."""
    from shroud import ast, whelpers, util
    lib = ast.LibraryNode(language=language)
    whelpers.set_library(lib)
    whelpers.add_all_helpers()
    fd = lib.fmtdict
    keys = ["source", "c_source"] if language == "c" else ["source", "cxx_source"]
    parts = []
    used = {}
    for name in C_HELPERS + (CXX_ONLY if language == "c++" else []):
        h = whelpers.CHelpers[name]
        for k in keys:
            if k in h:
                parts.append(h[k])
                used[name] = k
                break
        else:
            raise RuntimeError("helper %s has no %s text" % (name, "/".join(keys)))
    # order: type defines and structs first, then the prototype of the destructor, then the code
    order = ["ShroudTypeDefines", "capsule_data_helper", "array_context"]
    texts = dict(zip(C_HELPERS + (CXX_ONLY if language == "c++" else []), parts))
    helpers = ""
    helpers += "#define ARRAY_T %s\n#define CAPSULE_T %s\n#define DTOR_NAME %s\n#define COPY_STRING %sShroudCopyStringAndFree\n" % (
        fd.C_array_type, fd.C_capsule_data_type, fd.C_memory_dtor_function, fd.C_prefix)
    helpers += _render([texts[n] for n in order])
    helpers += "void %s(%s *cap);\n" % (fd.C_memory_dtor_function, fd.C_capsule_data_type)
    helpers += _render([texts[n] for n in texts if n not in order])

    from shroud import statements
    statements.update_statements_for_language(language)
    raw = stmt_table()
    fmt = util.Scope(fd)
    fmt.c_var = "c_var"
    fmt.c_var_len = "c_var_len"
    fmt.c_var_trim = "c_var_trim"
    fmt.c_var_size = "c_var_size"
    fmt.cxx_var = "cxx_var"
    fmt.c_var_context = "ctx"
    fmt.cxx_nonconst_ptr = "(char *) cxx_var"
    fmt.idtor = "0"
    fmt.sh_type = "SH_TYPE_CHAR"
    fmt.c_const = ""
    fmt.cxx_member = "."
    fmt.cxx_T = "std::string"

    def body(entry, clause):
        return _render([util.wformat(l, fmt) for l in raw[entry].get(clause, [])])

    def rbody(path, clause):
        blk = statements.lookup_fc_stmts(path)
        return _render([util.wformat(l, fmt) for l in (getattr(blk, clause, None) or [])])

    s = []
    s.append("static void stmt_charscalar(char *c_var, int c_var_len, char cxx_var)\n{\n%s}\n" %
             body("c_char_scalar_result_buf", "post_call"))
    s.append("static void stmt_allocchar(ARRAY_T *ctx, const char *cxx_var)\n{\n%s}\n" %
             body("c_char_*_result_buf_allocatable", "post_call"))
    # flows: the library function is played by lib_in / lib_out
    s.append("""
static char g_seen[256]; static int g_seen_n;
static void lib_in(const char *p) { size_t n = strlen(p); g_seen_n = (int) n; memcpy(g_seen, p, n < 256 ? n : 255); }
static void lib_out(char *p, const char *s, int ns) { memcpy(p, s, ns); p[ns] = 0; }
#ifdef __cplusplus
static void lib_in_str(const std::string &x) { g_seen_n = (int) x.size(); memcpy(g_seen, x.data(), x.size() < 256 ? x.size() : 255); }
#endif
#define CFI_SCALAR_DESC(name, base, n, attr) \\
    CFI_CDESC_T(0) name##_storage; CFI_cdesc_t *name = (CFI_cdesc_t *) &name##_storage; \\
    memset(&name##_storage, 0, sizeof name##_storage); \\
    name->base_addr = (base); name->elem_len = (size_t) (n); name->version = CFI_VERSION; \\
    name->rank = 0; name->attribute = (attr); name->type = CFI_type_char;
""")
    names = []
    for fname, path, need, kind in FLOWS:
        if need == "c++" and language != "c++":
            continue
        cfi = path[-1] == "cfi"
        pre, post = rbody(path, "pre_call"), rbody(path, "post_call")
        blk = statements.lookup_fc_stmts(path)
        if kind == "in":
            mid = "lib_in(cxx_var);\n"
        elif kind == "out":
            if not cfi:
                pre = "char *cxx_var = c_var;\n" + pre     # no local: the library writes into the Fortran variable
            mid = "lib_out(cxx_var, s, ns);\n"
        elif kind == "inout":
            mid = "lib_in(cxx_var);\nlib_out(cxx_var, s, ns);\n"
        elif kind == "result":
            mid = "const char *cxx_var = s;\n"
        elif kind == "cscalar":
            mid = "char cxx_var = s[0];\n"
        elif kind == "sin":
            mid = "lib_in_str(cxx_var);\n"
        elif kind == "sout":
            mid = "cxx_var.assign(s, ns);\n"
        elif kind == "sinout":
            mid = "lib_in_str(cxx_var);\ncxx_var.assign(s, ns);\n"
        elif kind == "sresult":
            mid = "std::string cxx_var(s, ns);\n"
        if cfi:
            head = ("static void flow_%s(char *SHbase, int SHtrim, int SHlen, const char *s, int ns)\n{\n"
                    "(void) SHtrim; (void) s; (void) ns;\n"
                    "CFI_SCALAR_DESC(%sc_var, SHbase, SHlen, CFI_attribute_other)\n" % (fname, fd.cfi_prefix))
        else:
            head = ("static void flow_%s(char *c_var, int c_var_trim, int c_var_len, const char *s, int ns)\n{\n"
                    "(void) c_var; (void) c_var_trim; (void) c_var_len; (void) s; (void) ns;\n" % fname)
        s.append(head + pre + mid + post + "}\n")
        names.append(fname)
    s.append("typedef void (*flow_fn)(char *, int, int, const char *, int);\n"
             "static struct { const char *name; flow_fn fn; } g_flows[] = {\n%s {NULL, NULL}};\n" %
             "".join(' {"%s", flow_%s},\n' % (n, n) for n in names))
    # allocatable results through the descriptor
    anames = []
    for fname, path, need, kind in AFLOWS:
        if need == "c++" and language != "c++":
            continue
        post = rbody(path, "post_call")
        mid = "const char *cxx_var = s;\n" if kind == "aresult" else "std::string cxx_var(s, ns);\n"
        s.append("static void aflow_%s(CFI_cdesc_t *%sc_var, const char *s, int ns)\n{\n(void) ns;\n%s%s}\n" %
                 (fname, fd.cfi_prefix, mid, post))
        anames.append(fname)
    s.append("typedef void (*aflow_fn)(CFI_cdesc_t *, const char *, int);\n"
             "static struct { const char *name; aflow_fn fn; } g_aflows[] = {\n%s {NULL, NULL}};\n" %
             "".join(' {"%s", aflow_%s},\n' % (n, n) for n in anames))
    # std::vector<std::string>
    if language == "c++":
        s.append("""
#include <vector>
#include <algorithm>
static std::vector<std::string> g_vseen; static int g_vseen_set;
static void lib_in_vec(const std::vector<std::string> &x) { g_vseen = x; g_vseen_set = 1; }
static void lib_in_arr(char **a, long n) { g_vseen.clear(); for (long i = 0; i < n; i++) g_vseen.push_back(std::string(a[i])); g_vseen_set = 1; }
""")
        vnames = []
        for fname, path, kind in VFLOWS:
            pre, post = rbody(path, "pre_call"), rbody(path, "post_call")
            if kind == "vin":
                mid = "lib_in_vec(cxx_var);\n"
            elif kind == "arrin":
                mid = "lib_in_arr(cxx_var, c_var_size);\n"
            elif kind == "vout":
                mid = "cxx_var = out;\n"
            else:
                mid = "lib_in_vec(cxx_var);\ncxx_var = out;\n"
            s.append("static void vflow_%s(char *c_var, long c_var_size, int c_var_len, const std::vector<std::string> &out)\n{\n"
                     "(void) out;\n%s%s%s}\n" % (fname, pre, mid, post))
            vnames.append(fname)
        s.append("typedef void (*vflow_fn)(char *, long, int, const std::vector<std::string> &);\n"
                 "static struct { const char *name; vflow_fn fn; } g_vflows[] = {\n%s {NULL, NULL}};\n" %
                 "".join(' {"%s", vflow_%s},\n' % (n, n) for n in vnames))
    return helpers, "".join(s), used


def build(d, language):
    """Compile harness + extracted text; returns (exe or None, compiler log, used-keys)."""
    sub = os.path.join(d, "cxx" if language == "c++" else "c")
    os.makedirs(sub, exist_ok=True)
    helpers, stmts, used = extract(language)
    open(os.path.join(sub, "helpers.inc"), "w").write(helpers)
    open(os.path.join(sub, "stmts.inc"), "w").write(stmts)
    exe = os.path.join(sub, "drv")
    if language == "c++":
        cmd = ["g++", "-x", "c++", "-std=c++11"]
    else:
        cmd = ["gcc", "-x", "c", "-std=gnu99"]
    cmd += ["-O1", "-g0", "-w", "-fsanitize=address,undefined", "-fsanitize-recover=address,undefined",
            "-fno-omit-frame-pointer", "-I", sub, HARNESS, "-o", exe, "-lgfortran"]
    p = subprocess.run(cmd, stdout=subprocess.PIPE, stderr=subprocess.STDOUT, text=True, timeout=600)
    if p.returncode != 0:
        return None, p.stdout, used
    return exe, p.stdout, used


# ------------------------------------------------------------------ running the C driver
def run_c(exe, lines, max_restarts=40):
    """Answers of the compiled helpers.  A sanitizer report answers "oob" and the process goes on;
    if the process dies, the request it died on is answered "crash" and a fresh process continues."""
    env = dict(os.environ)
    env.update(ASAN_ENV)
    out = []
    pos = 0
    restarts = 0
    while pos < len(lines):
        data = "\n".join(lines[pos:]) + "\n"
        p = subprocess.run([exe], input=data, stdout=subprocess.PIPE, stderr=subprocess.DEVNULL, text=True,
                           env=env, timeout=3000)
        got = p.stdout.split("\n")
        if got and got[-1] == "":
            got.pop()
        out.extend(got)
        pos += len(got)
        if pos < len(lines):
            out.append("crash rc=%s" % p.returncode)
            pos += 1
            restarts += 1
            if restarts > max_restarts:
                out.extend(["crash not-run"] * (len(lines) - pos))
                break
    return out[:len(lines)]


# ------------------------------------------------------------------ requests
def tie_requests(N, language):
    """Exhaustive small-scope requests (contents over {'a',' ',NUL}), same lines for model and code."""
    R = []
    X = 120
    # ShroudLenTrim: exact capacity; one short (must be oob); one long
    for n in range(N + 1):
        for s in bufs(n):
            R.append("lentrim %s %d" % (encb(s), n))
            if n <= 4:
                R.append("lentrim %s %d" % (encb(s), n + 1))
                if n:
                    R.append("lentrim %s %d" % (encb(s), n - 1))
    # ShroudStrCopy
    for nd in range(N + 1):
        dest = encb([X] * nd)
        R.append("strcopy %s %d N 0" % (dest, nd))
        R.append("strcopy %s %d N -1" % (dest, nd))
        for m in range(N + 1):
            for s in bufs(m):
                e = encb(s)
                R.append("strcopy %s %d %s -1" % (dest, nd, e))
                R.append("strcopy %s %d %s %d" % (dest, nd, e, m))
                if m <= 3:
                    for ns in range(N + 1):
                        if ns != m:
                            R.append("strcopy %s %d %s %d" % (dest, nd, e, ns))
        # destination larger / smaller than ndest (frame and overrun)
        for s in bufs(2):
            R.append("strcopy %s %d %s 2" % (encb([X] * (nd + 2)), nd, encb(s)))
            if nd:
                R.append("strcopy %s %d %s 2" % (encb([X] * (nd - 1)), nd, encb(s)))
    # ShroudStrBlankFill
    for cap in range(N + 1):
        for s in bufs(cap):
            for nd in range(N + 1):
                R.append("blankfill %s %d" % (encb(s), nd))
    # ShroudStrAlloc + ShroudStrFree
    for m in range(N + 1):
        for s in bufs(m):
            e = encb(s)
            for nt in range(-1, m + 1):
                R.append("stralloc %s %d %d" % (e, m, nt))
            for k in range(m):
                R.append("stralloc %s %d %d" % (e, k, k))
    # ShroudStrArrayAlloc + ShroudStrArrayFree
    lim = N if N <= 6 else N + 1
    for ln in range(0, 4):
        for ns in range(0, 4):
            if ln * ns <= lim:
                for s in bufs(ln * ns):
                    R.append("strarray %s %d %d" % (encb(s), ns, ln))
    for s in bufs(3):
        R.append("strarray %s 2 2" % encb(s))      # source one byte short
        R.append("strarray %s 1 2" % encb(s))      # source longer than needed
    # copy_string
    M = N - 1 if N <= 6 else N - 2
    for m in range(M + 1):
        for s in bufs(m):
            e = encb(s)
            for el in range(m + 2):
                for c in range(M + 1):
                    R.append("copystr %s %d %s %d" % (e, el, encb([X] * c), c))
    for c in range(3):
        R.append("copystr N 0 %s %d" % (encb([X] * c), c))
    R.append("copystr 97,0 2 120,120 3")            # c_var_len beyond the capacity, clipped by elem_len
    R.append("copystr 97,97,97,0 3 120,120 3")      # both beyond the capacity
    # c_char_*_result_buf_allocatable + copy_string
    R.append("allocchar N")
    for m in range(N + 1):
        for s in bufs(m):
            R.append("allocchar %s" % encb(s))
    # c_char_scalar_result_buf
    for cap in range(N + 1):
        for ln in (cap - 1, cap, cap + 1):
            if ln >= 0:
                for c in ALPHA:
                    R.append("charscalar %s %d %d" % (encb([X] * cap), ln, c))
    if language == "c++":
        for m in range(N + 1):
            for s in bufs(m):
                R.append("strtoarray %s" % encb(s))
                R.append("allocstring %s" % encb(s))
    return R


# ------------------------------------------------------------------ oracle: the documented rule, in Python
def rtrim(t):
    t = list(t)
    while t and t[-1] == B:
        t.pop()
    return t


def upto_nul(s):
    s = list(s)
    return s[:s.index(Z)] if Z in s else None


def fassign(L, s):
    return (list(s) + [B] * L)[:L]


def oracle(req, ans):
    """None if the documented rule holds for this request/answer (or the request is outside the
    documented preconditions), else a description.  Uses nothing from the model."""
    f = req.split(" ")
    op = f[0]
    if ans.startswith("crash"):
        return "helper crashed the process (%s)" % ans
    if op == "lentrim":
        s, n = decb(f[1]), int(f[2])
        if n != len(s):
            return None
        if ans != "ok %d" % len(rtrim(s)):
            return "ShroudLenTrim(len=%d) gives %r, trailing-blank-free length is %d" % (n, ans, len(rtrim(s)))
    elif op == "strcopy":
        d, nd, s, ns = decb(f[1]), int(f[2]), decb(f[3]), int(f[4])
        if len(d) < nd:
            return None
        if s is None:
            text = []
        elif ns < 0:
            text = upto_nul(s)
            if text is None:
                return None                      # not a C string
        elif ns <= len(s):
            text = s[:ns]
        elif nd <= len(s):
            text = s                             # only min(nsrc, ndest) bytes may be read
        else:
            return None
        want = fassign(nd, text) + d[nd:]
        if ans != "ok " + encb(want):
            return "ShroudStrCopy: destination is %r, rule (truncate or blank-pad to %d, nothing outside) gives %s" % (ans, nd, encb(want))
    elif op == "blankfill":
        d, nd = decb(f[1]), int(f[2])
        text = upto_nul(d[:nd])
        if text is None or nd > len(d):
            return None                          # documented precondition: callee NUL-terminated inside the variable
        want = fassign(nd, text) + d[nd:]
        if ans != "ok " + encb(want):
            return "ShroudStrBlankFill: destination is %r, rule gives %s" % (ans, encb(want))
    elif op == "stralloc":
        s, ns, nt = decb(f[1]), int(f[2]), int(f[3])
        if ns > len(s):
            return None
        k = len(rtrim(s[:ns]))
        if nt == -1:
            nt = k
        if nt > ns:
            return None
        if not ans.startswith("ok "):
            return "ShroudStrAlloc(nsrc=%d, ntrim=%s) accessed memory outside its arguments" % (ns, f[3])
        body, live = ans[3:].split(" ")
        rv = decb(body)
        if len(rv) != ns + 1 or rv[:nt + 1] != s[:nt] + [Z] or live != "live=0":
            return "ShroudStrAlloc: block %s %s, rule: capacity %d holding %s" % (body, live, ns + 1, encb(s[:nt] + [Z]))
    elif op == "strarray":
        s, ns, ln = decb(f[1]), int(f[2]), int(f[3])
        if ns * ln > len(s):
            return None
        want = [rtrim(s[i * ln:(i + 1) * ln]) + [Z] for i in range(ns)]
        wtxt = "ok " + (";".join(encb(w) for w in want) if want else "~") + " live=0"
        if ans != wtxt:
            return "ShroudStrArrayAlloc/Free: %r, rule: element i is the trimmed slice i plus NUL: %s" % (ans, wtxt)
    elif op == "copystr":
        s, el, d, c = decb(f[1]), int(f[2]), decb(f[3]), int(f[4])
        n = min(el, c)
        if n > len(d):
            return None
        if s is None:
            if n:
                return None
            text = []
        else:
            if el > len(s) or Z in s[:n]:
                return None
            text = s[:n]
        want = text + d[n:]
        if ans != "ok " + encb(want):
            return "ShroudCopyStringAndFree: destination is %r, rule gives %s" % (ans, encb(want))
    elif op == "allocchar":
        s = decb(f[1])
        if s is None:
            want = []
        else:
            want = upto_nul(s)
            if want is None:
                return None
        if ans != "ok " + encb(want):
            return "allocatable char* result is %r, the C string is %s" % (ans, encb(want))
    elif op == "allocstring":
        s = decb(f[1])
        if not ans.startswith("ok "):
            return "allocatable std::string result: access outside the string (%r)" % ans
        got = decb(ans[3:])
        if len(got) != len(s) or (Z not in s and got != s):
            return "allocatable std::string result is %r, the string is %s" % (ans, encb(s))
    elif op == "strtoarray":
        s = decb(f[1])
        want = "ok %s %d" % ("null" if not s else "ptr", len(s))
        if ans != want:
            return "ShroudStrToArray gives %r, rule gives %r" % (ans, want)
    elif op == "charscalar":
        d, ln, c = decb(f[1]), int(f[2]), int(f[3])
        if ln < 1 or ln > len(d):
            return None
        want = [c] + [B] * (ln - 1) + d[ln:]
        if ans != "ok " + encb(want):
            return "char scalar result is %r, rule gives %s" % (ans, encb(want))
    elif op == "flow":
        name, t, s = f[1], decb(f[2]), decb(f[3])
        kind = FLOW_KIND[name]
        L = len(t)
        if not ans.startswith("ok "):
            return "%s: access outside the Fortran variable or the scratch copy (%r)" % (name, ans)
        seen_t, f_t = ans[3:].split(" ")
        seen = None if seen_t == "seen=none" else decb(seen_t[5:])
        fv = decb(f_t[2:])
        if kind in ("in", "inout", "sin", "sinout"):
            want_seen = rtrim(t)
            if kind in ("in", "inout") and Z in want_seen:
                want_seen = want_seen[:want_seen.index(Z)]
            if seen != want_seen:
                return "%s: C receives %s for the Fortran value %s, rule: value without trailing blanks" % (name, seen_t, encb(t))
        if kind == "in" or kind == "sin":
            if fv != t:
                return "%s: intent(in) argument changed to %s" % (name, f_t)
        elif kind == "cscalar":
            want = [s[0]] + [B] * (L - 1)
            if fv != want:
                return "%s: Fortran variable is %s, rule (the character, blank-padded to %d) gives %s" % (name, f_t, L, encb(want))
        else:
            want = fassign(L, [] if s is None else s)
            if fv != want:
                return "%s: Fortran variable is %s, rule (truncate or blank-pad to %d) gives %s" % (name, f_t, L, encb(want))
    elif op == "aflow":
        name, s = f[1], decb(f[2])
        if not ans.startswith("ok f="):
            return "%s: access outside the result text or the allocated value (%r)" % (name, ans)
        got = ans[5:]
        if s is None:
            # an unallocated function result reads as a zero-length value (gfortran); see assumptions
            if got not in ("unallocated", "-"):
                return "%s: NULL result gives %s, rule: zero-length value" % (name, got)
        elif got == "unallocated" or decb(got) != s:
            return "%s: allocatable value is %s, the text is %s (length %d)" % (name, got, encb(s), len(s))
    elif op == "vflow":
        name, t, size, ln = f[1], decb(f[2]), int(f[3]), int(f[4])
        outs = [] if f[5] == "~" else [decb(x) for x in f[5].split(";")]
        kind = [k for (n, _p, k) in VFLOWS if n == name][0]
        if not ans.startswith("ok "):
            return "%s: access outside the Fortran array (%r)" % (name, ans)
        seen_t, f_t = ans[3:].split(" ")
        fv = decb(f_t[2:])
        if kind in ("vin", "vinout", "arrin"):
            want = [rtrim(t[i * ln:(i + 1) * ln]) for i in range(size)]
            if kind == "arrin":
                want = [w[:w.index(Z)] if Z in w else w for w in want]
            wt = "seen=" + (";".join(encb(w) for w in want) if want else "~")
            if seen_t != wt:
                return "%s: C++ receives %s for the Fortran array %s, rule: each element without trailing blanks (%s)" % (name, seen_t, encb(t), wt)
        if kind in ("vin", "arrin"):
            if fv != t:
                return "%s: intent(in) array changed to %s" % (name, f_t)
        else:
            want = list(t)
            for i in range(min(size, len(outs))):
                want[i * ln:(i + 1) * ln] = fassign(ln, outs[i])
            if fv != want:
                return "%s: Fortran array is %s, rule (each returned element truncated or blank-padded to %d) gives %s" % (name, f_t, ln, encb(want))
    return None


def flow_requests(N, language):
    R = []
    for fname, entry, need, kind in FLOWS:
        if need == "c++" and language != "c++":
            continue
        for L in range(N + 1):
            for t in bufs(L, (A, B)) if kind in ("in", "inout", "sin", "sinout") else [tuple([120] * L)]:
                if kind in ("in", "sin"):
                    R.append("flow %s %s -" % (fname, encb(t)))
                    continue
                if kind == "cscalar":
                    if L:
                        for c in ALPHA:
                            R.append("flow %s %s %d" % (fname, encb(t), c))
                    continue
                for m in range(N + 1):
                    if kind == "out" and m >= L:
                        continue      # documented: the variable must have room for the text and its NUL
                    if kind == "inout" and m > L:
                        continue      # scratch copy has len+1 bytes
                    for s in bufs(m, (A, B) if kind in ("out", "inout", "result") else ALPHA):
                        if len(s) > 4 and kind in ("sout", "sinout", "sresult") and Z in s[:-1] and m > 5:
                            continue
                        R.append("flow %s %s %s" % (fname, encb(t), encb(s)))
                if kind == "result":
                    R.append("flow %s %s N" % (fname, encb(t)))
    # allocatable results through CFI_allocate
    for fname, _path, need, kind in AFLOWS:
        if need == "c++" and language != "c++":
            continue
        if kind == "aresult":
            R.append("aflow %s N" % fname)
        for m in range(N + 1):
            for s in bufs(m, (A, B) if kind == "aresult" else ALPHA):
                R.append("aflow %s %s" % (fname, encb(s)))
    # std::vector<std::string>
    if language == "c++":
        elems = [[], [A], [A, B], [A, A, A]]
        for fname, _path, kind in VFLOWS:
            for ln in range(0, 3):
                for size in range(0, 4):
                    if ln * size > N:
                        continue
                    ts = list(bufs(ln * size, (A, B))) if kind != "vout" else [tuple([120] * (ln * size))]
                    if kind in ("vin", "arrin"):
                        olists = [[]]
                    else:
                        olists = []
                        for k in range(0, min(size + 1, 3) + 1):
                            olists.extend(itertools.product(elems[:3] if kind == "vinout" else elems, repeat=k))
                    for t in ts:
                        for ol in olists:
                            R.append("vflow %s %s %d %d %s" % (fname, encb(t), size, ln,
                                                                ";".join(encb(o) for o in ol) if ol else "~"))
    return R


# ------------------------------------------------------------------ (T) table rule, checked in Python
# name -> (required length buf_args in order, regexes each of which must match the joined pre_call+post_call text)
TABLE_RULE = {
    "c_char_scalar_result_buf": (["len"], [r"memset\(\{c_var\}, ' ', \{c_var_len\}\)", r"\{c_var\}\[0\] = \{cxx_var\}"]),
    "c_char_*_in_buf": (["len_trim"], [r"ShroudStrAlloc\(\s*\{c_var\},\s*\{c_var_trim\},\s*\{c_var_trim\}\)", r"ShroudStrFree\(\{cxx_var\}\)"]),
    "c_char_*_out_buf": (["len"], [r"ShroudStrBlankFill\(\{c_var\}, \{c_var_len\}\)"]),
    "c_char_*_inout_buf": (["len_trim", "len"], [r"ShroudStrAlloc\(\s*\{c_var\},\s*\{c_var_len\},\s*\{c_var_trim\}\)",
                                                 r"ShroudStrCopy\(\{c_var\}, \{c_var_len\},\s*\{cxx_var\},\s*-1\)", r"ShroudStrFree\(\{cxx_var\}\)"]),
    "c_char_*_result_buf": (["len"], [r"ShroudStrCopy\(\{c_var\}, \{c_var_len\},\s*\{cxx_var\},\s*-1\)"]),
    "c_char_*_result_buf_allocatable": ([], [r"elem_len = \{cxx_var\} == \{nullptr\} \? 0 : \{stdlib\}strlen\(\{cxx_var\}\)",
                                             r"addr\.ccharp = \{cxx_var\}"]),
    "c_char_**_in_buf": (["len"], [r"ShroudStrArrayAlloc\(\{c_var\},\s*\{c_var_size\},\s*\{c_var_len\}\)",
                                   r"ShroudStrArrayFree\(\{cxx_var\}, \{c_var_size\}\)"]),
    "c_string_*/&_in_buf": (["len_trim"], [r"std::string \{cxx_var\}\(\{c_var\}, \{c_var_trim\}\)"]),
    "c_string_scalar_in_buf": (["len_trim"], [r"std::string \{cxx_var\}\(\{c_var\}, \{c_var_trim\}\)"]),
    "c_string_*/&_out_buf": (["len"], [r"ShroudStrCopy\(\{c_var\}, \{c_var_len\},\s*\{cxx_var\}\{cxx_member\}data\(\),\s*\{cxx_var\}\{cxx_member\}size\(\)\)"]),
    "c_string_*/&_inout_buf": (["len_trim", "len"], [r"std::string \{cxx_var\}\(\{c_var\}, \{c_var_trim\}\)",
                                                     r"ShroudStrCopy\(\{c_var\}, \{c_var_len\},\s*\{cxx_var\}\{cxx_member\}data\(\),\s*\{cxx_var\}\{cxx_member\}size\(\)\)"]),
    "c_string_scalar/*/&_result_buf": (["len"], [r"ShroudStrCopy\(\{c_var\}, \{c_var_len\},\s*\{nullptr\},\s*0\)",
                                                 r"ShroudStrCopy\(\{c_var\}, \{c_var_len\},\s*\{cxx_var\}\{cxx_member\}data\(\),\s*\{cxx_var\}\{cxx_member\}size\(\)\)"]),
    "c_string_*/&_result_buf_allocatable": ([], [r"ShroudStrToArray\(\{c_var_context\}, \{cxx_addr\}\{cxx_var\}, \{idtor\}\)"]),
    "c_string_scalar_result_buf_allocatable": ([], [r"ShroudStrToArray\(\{c_var_context\}, \{cxx_var\}, \{idtor\}\)"]),
    "f_char_scalar/*_result_buf_allocatable": ([], [r"allocate\(character\(len=\{c_var_context\}%elem_len\):: \{f_var\}\)",
                                                    r"call \{hnamefunc0\}\(\{c_var_context\}, \{f_var\}, \{c_var_context\}%elem_len\)"]),
    "f_string_scalar/*/&_result_buf_allocatable": ([], [r"allocate\(character\(len=\{c_var_context\}%elem_len\):: \{f_var\}\)",
                                                        r"call \{hnamefunc0\}\(\{c_var_context\}, \{f_var\}, \{c_var_context\}%elem_len\)"]),
    # CFI variants: the declared length is the descriptor's elem_len, trimming is done in C (ntrim = -1 / ShroudLenTrim)
    "c_char_*_in_cfi": ([], [r"ShroudStrAlloc\(\s*\{c_var\},\s*\{cfi_prefix\}\{c_var\}->elem_len,\s*-1\)", r"ShroudStrFree\(\{cxx_var\}\)"]),
    "c_char_*_out_cfi": ([], [r"ShroudStrBlankFill\(\{cxx_var\}, \{cfi_prefix\}\{c_var\}->elem_len\)"]),
    "c_char_*_inout_cfi": ([], [r"ShroudStrAlloc\(\s*\{c_var\},\s*\{cfi_prefix\}\{c_var\}->elem_len,\s*-1\)",
                                r"ShroudStrCopy\(\{c_var\}, \{cfi_prefix\}\{c_var\}->elem_len,\s*\{cxx_var\},\s*-1\)", r"ShroudStrFree\(\{cxx_var\}\)"]),
    "c_char_scalar_result_cfi": ([], [r"memset\(\{c_var\}, ' ', \{cfi_prefix\}\{c_var\}->elem_len\)", r"\{c_var\}\[0\] = \{cxx_var\}"]),
    "c_char_*_result_cfi": ([], [r"ShroudStrCopy\(\{c_var\}, \{cfi_prefix\}\{c_var\}->elem_len,\s*\{cxx_var\},\s*-1\)"]),
    "c_string_scalar/*/&_in_cfi": ([], [r"\{c_var_trim\} = ShroudLenTrim\(\{c_var\}, \{cfi_prefix\}\{c_var\}->elem_len\)",
                                        r"std::string \{cxx_var\}\(\{c_var\}, \{c_var_trim\}\)"]),
    "c_string_*/&_inout_cfi": ([], [r"\{c_var_trim\} = ShroudLenTrim\(\{c_var\}, \{cfi_prefix\}\{c_var\}->elem_len\)",
                                    r"std::string \{cxx_var\}\(\{c_var\}, \{c_var_trim\}\)",
                                    r"ShroudStrCopy\(\{c_var\},\s*\{cfi_prefix\}\{c_var\}->elem_len,\s*\{cxx_var\}\{cxx_member\}data\(\),\s*\{cxx_var\}\{cxx_member\}size\(\)\)"]),
    "c_string_*/&_out_cfi": ([], [r"ShroudStrCopy\(\{c_var\},\s*\{cfi_prefix\}\{c_var\}->elem_len,\s*\{cxx_var\}\{cxx_member\}data\(\),\s*\{cxx_var\}\{cxx_member\}size\(\)\)"]),
    "c_string_scalar/*/&_result_cfi": ([], [r"ShroudStrCopy\(\{c_var\}, \{cfi_prefix\}\{c_var\}->elem_len,\s*\{nullptr\},\s*0\)",
                                            r"ShroudStrCopy\(\{c_var\}, \{cfi_prefix\}\{c_var\}->elem_len,\s*\{cxx_var\}\{cxx_member\}data\(\),\s*\{cxx_var\}\{cxx_member\}size\(\)\)"]),
}


def table_check():
    """Returns list of (entry, what) where the statement table no longer has the documented shape."""
    st = stmt_table()
    bad = []
    for name, (lens, pats) in TABLE_RULE.items():
        e = st.get(name)
        if e is None:
            bad.append((name, "entry missing from statements.fc_statements"))
            continue
        got = [b for b in e.get("buf_args", []) if b in ("len", "len_trim")]
        if got != lens:
            bad.append((name, "buf_args pass %s, rule requires %s" % (got, lens)))
        text = "\n".join(e.get("pre_call", []) + e.get("post_call", []))
        for p in pats:
            if not re.search(p, text):
                bad.append((name, "no statement line matches /%s/" % p))
    return bad


# ------------------------------------------------------------------ Fortran side: trim(arg)//C_NULL_CHAR
FTRIM_YAML = """library: c10
cxx_header: c10.hpp
%s
declarations:
- decl: void f1(const char *a1)
- decl: void f2(char *a2 +intent(in))
- decl: void f3(char *a3 +intent(out))
- decl: void f4(char *a4 +intent(inout))
- decl: void f5(const std::string &a5)
- decl: void f6(char **a6 +intent(in))
- decl: void f7(char a7)
- decl: void f8(const char *a8, char *b8 +intent(out))
"""


def ftrim_check(ctx, d):
    """Rule: `trim(arg)//C_NULL_CHAR` is passed exactly for char* / intent(in) arguments with F_CFI off."""
    from tools import shroudrun
    problems = []
    for cfi in (False, True):
        sub = os.path.join(d, "ftrim-%s" % cfi)
        os.makedirs(sub)
        y = shroudrun.write_yaml(sub, "c10.yaml", FTRIM_YAML % ("options:\n  F_CFI: true" if cfi else ""))
        cfg, exc, _out = shroudrun.run_inproc([y], sub)
        ctx.count(1)
        if exc is not None:
            problems.append(("F_CFI=%s" % cfi, "Shroud raised %r on the probe library" % (exc,)))
            continue
        ftext = ""
        for fn, data in shroudrun.read_tree(sub).items():
            if fn.endswith(".f") or fn.endswith(".f90"):
                ftext += data.decode()
        trimmed = set(re.findall(r"trim\((\w+)\)//C_NULL_CHAR", ftext))
        want = set() if cfi else {"a1", "a2", "a8"}
        if trimmed != want:
            problems.append(("F_CFI=%s" % cfi, "trim(x)//C_NULL_CHAR used for %s, rule says %s" % (sorted(trimmed), sorted(want))))
        if not cfi:
            # in/out pairing of the bufferified arguments in the Fortran call
            for arg, frag in (("a3", "len(a3, kind=C_INT)"), ("a5", "len_trim(a5, kind=C_INT)"),
                              ("a4", "len_trim(a4, kind=C_INT)"), ("a4", "len(a4, kind=C_INT)"),
                              ("b8", "len(b8, kind=C_INT)"), ("a6", "len(a6, kind=C_INT)")):
                if frag not in re.sub(r"&\s*\n\s*", "", ftext):
                    problems.append(("F_CFI=False", "Fortran wrapper does not pass %s for %s" % (frag, arg)))
    return problems


FTRIM_F90 = """program p
  use iso_c_binding
  implicit none
  integer :: L, code, i, j
  character(len=:), allocatable :: t, r
  do L = 0, %d
    do code = 0, 2**L - 1
      allocate(character(len=L) :: t)
      do i = 1, L
        if (btest(code, i-1)) then
          t(i:i) = 'a'
        else
          t(i:i) = ' '
        end if
      end do
      r = trim(t)//C_NULL_CHAR
      write(*,'(*(i0,1x))') L, (iachar(t(j:j)), j=1,L), -1, (iachar(r(j:j)), j=1,len(r))
      deallocate(t)
    end do
  end do
end program
"""


def gfortran_ftrim(d, n):
    """(request, answer) pairs for the reference semantics of trim(t)//C_NULL_CHAR from gfortran."""
    src = os.path.join(d, "ftrim.f90")
    open(src, "w").write(FTRIM_F90 % n)
    exe = os.path.join(d, "ftrim")
    p = subprocess.run(["gfortran", "-O0", src, "-o", exe], stdout=subprocess.PIPE, stderr=subprocess.STDOUT, text=True, timeout=300)
    if p.returncode != 0:
        return None
    out = subprocess.run([exe], stdout=subprocess.PIPE, text=True, timeout=300).stdout
    res = []
    for ln in out.split("\n"):
        v = [int(x) for x in ln.split()]
        if not v:
            continue
        L = v[0]
        t, r = v[1:1 + L], v[2 + L:]
        res.append(("ftrim %s" % encb(t), "ok " + encb(r)))
    return res


# ------------------------------------------------------------------ main
def corpus_requests():
    p = os.path.join(common.CORPUS, "c10.txt")
    R = []
    if os.path.exists(p):
        for ln in open(p):
            ln = ln.strip()
            if ln and not ln.startswith("#"):
                R.append(ln)
    return R


def nontrivial(req, ans):
    return ans.startswith("oob") or ",32" in req or " 32" in req or ",0" in req or " 0," in req or " N" in req


def run(ctx):
    thorough = ctx.tier == "thorough"
    N = 8 if thorough else 6
    from tools import extract_strstmts
    _changed, terr = extract_strstmts.regenerate()      # (T) Gen/StrStmts.lean from the working tree
    ok = ctx.lean(MODULES, THEOREMS, extra_targets=("drv_strhelpers",))
    if terr:
        ctx.tie_broken("statement-translator", terr)
    drv = common.Driver("drv_strhelpers")
    ctx.cov["trusted_base"] = [
        "Lean 4.33.0 kernel; axioms within {propext, Classical.choice, Quot.sound}",
        "hand-written model Model/StrHelpers.lean (bounds-checked byte buffers; memset/memcpy/strlen/strncpy as byte loops), tied by "
        "exhaustive small-scope differential correspondence to the helper text of the working tree compiled with gcc and g++",
        "gcc/g++ 12 with AddressSanitizer/UndefinedBehaviorSanitizer (recover mode, error hooks), tools/c10_harness.c",
        "reference definitions rtrim / trim(t)//C_NULL_CHAR / character assignment (validated against gfortran for lengths 0..%d)" % N,
        "len vs len_trim table rule, ftrim_char_in selection and CFI template shapes are Python checks, not Lean theorems",
    ]
    ctx.cov["rule"] = ("every request = one helper call with concrete buffers; exhaustive for lengths 0..%d (source, destination, nsrc incl. -1) "
                       "over contents {'a',' ',NUL}, languages c and c++; flows = statement-table lines compiled around a stub library call. "
                       "A request is non-trivial when a buffer holds a blank or NUL, a pointer is NULL, or the answer is out-of-bounds; "
                       "distinct = distinct (language, request)." % N)
    ctx.assumptions += [
        "theorems are about the Lean model; the model is validated against the compiled helper text only on the enumerated small scope",
        "lengths handed over by Fortran (len, len_trim, size) are non-negative and fit in int; int nm = strlen(..) truncation is not modelled",
        "strncpy(dst, NULL, 0) for an empty std::string result is treated as a no-op (formally undefined before C2y)",
        "out-of-bounds is observed through ASan (poisoned guards around exact-capacity buffers) and guard-byte patterns",
        "vector<string> statement entries and Python/Lua string conversion are outside this check",
    ]
    d = common.scratch()
    try:
        # -------- (T) statement table + Fortran-side rule
        tb = table_check()
        ctx.count(len(TABLE_RULE))
        ctx.note("table_entries_checked", len(TABLE_RULE))
        if tb:
            ctx.tie_broken("statement-table-rule", tb[:8])
        fp = ftrim_check(ctx, d)
        if fp:
            ctx.tie_broken("ftrim-rule", fp[:8])
            for key, what in fp[:3]:
                ctx.fail("ftrim:%s:%s" % (key, what[:60]), what, {"probe_yaml": FTRIM_YAML, "F_CFI": key})
        # -------- build both language variants from the working tree
        totals = {}
        disagreements = []
        nfail = 0
        for language in ("c", "c++"):
            exe, log, used = build(d, language)
            ctx.note("helper_text_keys_%s" % language, used)
            if exe is None:
                ctx.tie_broken("compile-%s" % language, log[-3000:])
                ctx.fail("compile:%s" % language, "helper or statement text of the working tree does not compile as %s:\n%s" % (language, log[-1500:]),
                         {"language": language})
                continue
            reqs = corpus_requests()
            if language == "c":
                reqs = [r for r in reqs if r.split(" ")[0] not in ("strtoarray", "allocstring", "vflow")
                        and not (r.startswith("flow string_")) and not (r.startswith("aflow string_"))]
            ncorp = len(reqs)
            treq = tie_requests(N, language)
            freq = flow_requests(min(N, 6) if thorough else 4, language)
            isflow = lambda r: r.split(" ")[0] in ("flow", "aflow", "vflow")
            tie_part = [r for r in reqs if not isflow(r)] + treq
            flow_part = [r for r in reqs if isflow(r)] + freq
            impl = run_c(exe, tie_part + flow_part)
            ctx.count(len(impl))
            totals[language] = {"corpus": ncorp, "tie": len(treq), "flows": len(freq)}
            # ---- tie: model vs code
            model = None
            if drv.available() and ok:
                model = drv.run(tie_part + flow_part)
                for q, a, b in zip(tie_part + flow_part, impl, model):
                    if a != b:
                        disagreements.append({"language": language, "request": q, "impl": a, "model": b})
            for q, a in zip(tie_part, impl):
                if nontrivial(q, a):
                    ctx.nontrivial((language, q))
            for q, a in list(zip(tie_part, impl))[:: max(1, len(tie_part) // 3)][:3]:
                ctx.sample({"language": language, "request": q, "impl": a})
            # ---- oracle on the implementation only (every request; it is cheap)
            per_op = {}
            for q, a in zip(tie_part + flow_part, impl):
                why = oracle(q, a)
                if why:
                    op = " ".join(q.split(" ")[:2]) if q.split(" ")[0] in ("flow", "aflow", "vflow") else q.split(" ")[0]
                    per_op[op] = per_op.get(op, 0) + 1
                    if per_op[op] <= 2:
                        if ctx.fail("%s:%s" % (language, q), why, {"language": language, "request": q, "answer": a}):
                            nfail += 1
            ctx.note("oracle_failures_%s" % language, per_op)
            for q, a in list(zip(flow_part, impl[len(tie_part):]))[:: max(1, len(flow_part) // 2)][:2]:
                ctx.sample({"language": language, "request": q, "impl": a})
        if disagreements:
            ctx.tie_broken("strhelpers-correspondence", disagreements[:6])
        elif not (drv.available() and ok):
            ctx.tie_broken("strhelpers-correspondence", "Lean driver not built")
        ctx.note("requests", totals)
        ctx.note("disagreements", len(disagreements))
        # -------- reference semantics of trim(t)//C_NULL_CHAR against gfortran
        gf = gfortran_ftrim(d, N)
        if gf is None:
            ctx.note("gfortran_ftrim", "gfortran failed to compile the probe")
        elif drv.available() and ok:
            got = drv.run([q for q, _ in gf])
            badf = [(q, a, b) for (q, a), b in zip(gf, got) if a != b]
            ctx.count(len(gf))
            ctx.note("gfortran_ftrim_cases", len(gf))
            if badf:
                ctx.tie_broken("ftrim-reference-vs-gfortran", badf[:5])
    finally:
        common.rmtree(d)


def replay(path):
    d = json.load(open(path))
    tmp = common.scratch()
    rc = 0
    try:
        exes = {}
        for f in d.get("failing", []):
            rp = f["replay"]
            if "request" not in rp:
                print(f["key"], "->", f["what"])
                continue
            lang = rp["language"]
            if lang not in exes:
                exes[lang] = build(tmp, lang)[0]
            if exes[lang] is None:
                print(f["key"], "-> does not compile")
                rc = 1
                continue
            ans = run_c(exes[lang], [rp["request"]])[0]
            why = oracle(rp["request"], ans)
            print("%s: %s -> %s : %s" % (lang, rp["request"], ans, why or "rule holds"))
            if why:
                rc = 1
        for b in d.get("no_longer_checks", []):
            print("no longer checks:", b.get("kind"), b.get("name"))
            print(json.dumps(b.get("detail"), indent=1, default=str)[:3000])
    finally:
        common.rmtree(tmp)
    return rc
