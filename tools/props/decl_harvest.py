"""Declaration strings that Shroud's own inputs and documentation use, and whether the real parser accepts them.

harvest(repo)    -> [(source, decl, context)]   context: dict(language, namespace, enclosing, pre, kind[, cxx_template])
accept_all(repo) -> [(source, decl, exception text)]   the declarations the real code does not accept
Regression inputs are replayed as whole files through ast.create_library_from_dictionary (so classes, typedefs
and templates declared earlier in the file are present); documentation snippets go one by one through
declast.check_decl in a fresh library that first receives the snippet's enclosing and preceding type declarations.
"""
import contextlib
import copy
import glob
import os
import re
import textwrap

import yaml

from tools import common

DEFINES = re.compile(r"^\s*(template\s*<[^>]*>\s*)?(class|struct|namespace|enum|typedef)\b")
WORD = re.compile(r"[A-Za-z_]\w*")
NOT_A_TYPE = set("""void bool char short int long float double signed unsigned complex const volatile static extern typedef
    class struct enum namespace template typename public private protected std string vector size_t true false nullptr
    int8_t int16_t int32_t int64_t uint8_t uint16_t uint32_t uint64_t MPI_Comm in out inout""".split())


class _Null(object):
    def write(self, s):
        return len(s)

    def flush(self):
        pass


def _walk(node, source, base, enclosing, pre, out, kind="decl", owner=None):
    """Every `decl:` at any nesting of a loaded YAML value.  enclosing: the class/struct/namespace declarations
    around it; pre: per nesting level, the type-defining declarations that precede it at that level."""
    if isinstance(node, list):
        pre = pre[:-1] + [list(pre[-1])]   # siblings see what came before them at this level
        for item in node:
            _walk(item, source, base, enclosing, pre, out, kind, owner)
            if kind == "decl" and isinstance(item, dict) and isinstance(item.get("decl"), str) and DEFINES.match(item["decl"]):
                pre[-1].append(item["decl"])
        return
    if not isinstance(node, dict):
        return
    decl = node.get("decl")
    inner, inner_pre = enclosing, pre
    if isinstance(decl, str):
        ctx = dict(base, enclosing=list(enclosing), pre=[list(p) for p in pre], kind=kind)
        if owner is not None:
            ctx["function"] = owner
        if isinstance(node.get("cxx_template"), list):
            ctx["cxx_template"] = [t.get("instantiation") for t in node["cxx_template"] if isinstance(t, dict)]
        out.append((source, decl, ctx))
        if kind == "decl" and DEFINES.match(decl):
            inner, inner_pre = enclosing + [decl], pre + [[]]
    for k, v in node.items():
        if k == "decl":
            continue
        if k == "declarations":
            _walk(v, source, base, inner, inner_pre, out, "decl")
        elif k == "fortran_generic":
            _walk(v, source, base, enclosing, pre, out, "fortran_generic", decl if isinstance(decl, str) else None)
        elif isinstance(v, (dict, list)):
            _walk(v, source, base, enclosing, pre, out, kind, owner)


def _base(d):
    d = d if isinstance(d, dict) else {}
    lang = d.get("language", "c++")
    return dict(language=lang if isinstance(lang, str) else "c++", namespace=d.get("namespace") or "")


def regression_files(repo):
    return sorted(glob.glob(os.path.join(repo, "regression", "input", "*.yaml")))


def _literal_blocks(lines):
    """(first line number, block lines) for every run of indented lines that mentions decl:."""
    i, n = 0, len(lines)
    while i < n:
        if lines[i].startswith((" ", "\t")) and lines[i].strip():
            j = i
            while j < n and (not lines[j].strip() or lines[j].startswith((" ", "\t"))):
                j += 1
            blk = lines[i:j]
            while blk and not blk[-1].strip():
                blk.pop()
            if any(re.search(r"(^|\s|-)decl:", ln) for ln in blk):
                yield i + 1, blk
            i = j
        else:
            i += 1


def _doc_items(text):
    """Loaded YAML of a documentation block, or of the separate `- decl:` items when the block as a whole is no YAML."""
    text = textwrap.dedent(text.expandtabs())
    try:
        v = yaml.safe_load(text)
        if isinstance(v, (dict, list)):
            return [(0, v)]
    except yaml.YAMLError:
        pass
    items, lines, upto = [], text.split("\n"), 0
    for k, ln in enumerate(lines):
        m = re.match(r"^(\s*)(-\s+)?decl:", ln)
        if not m or k < upto:
            continue
        ind = len(m.group(1))
        j = k + 1   # `- decl:` owns the deeper lines; a bare `decl:` also its sibling keys at the same depth
        while j < len(lines) and (not lines[j].strip() or len(lines[j]) - len(lines[j].lstrip()) > ind - (0 if m.group(2) else 1)):
            j += 1
        chunk = textwrap.dedent("\n".join(lines[k:j]))
        try:
            v = yaml.safe_load(chunk)
            upto = j
        except yaml.YAMLError:
            v = [{"decl": ln.split("decl:", 1)[1].strip()}]
        if isinstance(v, (dict, list)):
            items.append((k, v))
    return items


def harvest(repo=None):
    repo = repo or common.REPO
    out = []
    for path in regression_files(repo):
        src = os.path.relpath(path, repo)
        try:
            d = yaml.safe_load(open(path))
        except yaml.YAMLError:
            continue
        _walk(d, src, _base(d), [], [[]], out)
    for path in sorted(glob.glob(os.path.join(repo, "docs", "*.rst"))):
        lines = open(path, encoding="utf-8", errors="replace").read().split("\n")
        for first, blk in _literal_blocks(lines):
            seen = set()
            for off, v in _doc_items("\n".join(blk)):
                got = []
                _walk(v, "%s:%d" % (os.path.relpath(path, repo), first + off), _base(v), [], [[]], got)
                for s, decl, ctx in got:
                    key = (decl, tuple(ctx["enclosing"]), ctx["kind"])
                    if key not in seen:
                        seen.add(key)
                        out.append((s, decl, ctx))
    return out


# ------------------------------------------------------------------ acceptance
def _text(e):
    return "%s: %s" % (type(e).__name__, " | ".join(str(e).split("\n")))[:300]


def _languages(path):
    """The languages a regression input is run with: its own, plus those of regression/do-test.py."""
    from tools import shroudrun
    name = os.path.splitext(os.path.basename(path))[0]
    langs = []
    for _n, y, extra in shroudrun.CORPUS:
        if y == name:
            _o, lang, _w = shroudrun.parse_cmdline(extra)
            if lang not in langs:
                langs.append(lang)
    return langs or [None]


def accept_regression(repo):
    from shroud import ast as sast, declast, typemap
    fails, nfiles = [], 0
    real = declast.check_decl
    last = []

    def spy(decl, *a, **kw):
        last.append(decl)
        return real(decl, *a, **kw)

    for path in regression_files(repo):
        src = os.path.relpath(path, repo)
        for lang in _languages(path):
            nfiles += 1
            d = yaml.safe_load(open(path))
            if not isinstance(d, dict):
                continue
            if lang:
                d["language"] = lang
            for _attempt in range(50):         # drop the declaration that failed and go on with the rest
                del last[:]
                declast.check_decl = spy
                try:
                    with contextlib.redirect_stdout(_Null()):
                        typemap.initialize()
                        sast.create_library_from_dictionary(copy.deepcopy(d))
                    break
                except Exception as e:  # noqa
                    bad = last[-1] if last else None
                    fails.append(("%s [%s]" % (src, lang or d.get("language", "c++")), bad, _text(e)))
                    if bad is None or not _remove_decl(d, bad):
                        break
                finally:
                    declast.check_decl = real
    return fails, nfiles


def _remove_decl(node, decl):
    if isinstance(node, list):
        for i, item in enumerate(node):
            if isinstance(item, dict) and item.get("decl") == decl:
                del node[i]
                return True
            if _remove_decl(item, decl):
                return True
    elif isinstance(node, dict):
        for v in node.values():
            if isinstance(v, (dict, list)) and _remove_decl(v, decl):
                return True
    return False


def _doc_try(decl, ctx, extra_classes):
    """Parse one documentation declaration in a fresh library.  -> None or exception"""
    from shroud import ast as sast, declast, typemap
    typemap.initialize()
    lang = ctx["language"] if ctx["language"] in ("c", "c++") else "c++"
    lib = sast.LibraryNode(language=lang)
    ns = lib
    for name in extra_classes:
        lib.add_declaration("struct %s { int shroud_verif_dummy; };" % name if lang == "c" else "class " + name)
    for enc, pres in zip(ctx["enclosing"] + [None], ctx["pre"]):
        for p in pres:
            try:
                ns.add_declaration(p)
            except Exception:  # noqa  reported when that declaration is checked itself
                pass
        if enc is not None:
            node = ns.add_declaration(enc)
            ns = node if hasattr(node, "add_declaration") else ns
    if ctx["kind"] == "fortran_generic":
        declast.Parser(decl, ns).parameter_list()
    else:
        declast.check_decl(decl, namespace=ns)
    return None


def accept_docs(items):
    fails, helped = [], []
    for src, decl, ctx in items:
        if not src.startswith("docs"):
            continue
        with contextlib.redirect_stdout(_Null()):
            try:
                _doc_try(decl, ctx, [])
                continue
            except Exception as e:  # noqa
                first = e
            cands = [w for w in dict.fromkeys(WORD.findall(re.sub(r"\+\w+(\([^)]*\))?", " ", decl)))
                     if w not in NOT_A_TYPE and not re.search(r"\b%s\s*$" % re.escape(w), decl.split("(")[0] if not decl.lstrip().startswith(w) else "")]
            ok = False
            for extra in [[c] for c in cands] + ([cands] if len(cands) > 1 else []):
                try:
                    _doc_try(decl, ctx, extra)
                    ok = True
                    helped.append((src, decl, extra))
                    break
                except Exception:  # noqa
                    pass
        if not ok:
            fails.append((src, decl, _text(first)))
    return fails, helped


def accept_all(repo=None):
    repo = repo or common.REPO
    from shroud import typemap
    items = harvest(repo)
    try:
        rfails, _n = accept_regression(repo)
        dfails, _h = accept_docs(items)
    finally:
        typemap.initialize()
    return rfails + dfails


if __name__ == "__main__":
    import collections
    import time
    t0 = time.time()
    items = harvest(common.REPO)
    by = collections.Counter("regression" if s.startswith("regression") else "docs" for s, _d, _c in items)
    kinds = collections.Counter(c["kind"] for _s, _d, c in items)
    print("harvested %d declarations: %s; %s; distinct strings %d" % (len(items), dict(by), dict(kinds), len({d for _s, d, _c in items})))
    rfails, nfiles = accept_regression(common.REPO)
    dfails, helped = accept_docs(items)
    print("regression: %d file/language runs, %d declarations not accepted" % (nfiles, len(rfails)))
    for f in rfails:
        print("  %s\n      %r\n      %s" % f)
    print("docs: %d accepted only after pre-declaring a class name, %d not accepted" % (len(helped), len(dfails)))
    for s, d, extra in helped:
        print("  + %s  %s   (needs %s)" % (s, " ".join(d.split())[:90], ",".join(extra)))
    for f in dfails:
        print("  %s\n      %r\n      %s" % f)
    print("wall %.1fs" % (time.time() - t0))
